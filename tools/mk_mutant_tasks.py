#!/usr/bin/env python3
"""tools/mk_mutant_tasks.py C12 C14 ...  — create /tmp/mut-cXX worktrees of /repo HEAD with a TASK.md holding ONLY the
property text and the generic adversarial brief (nothing else from /verif)."""
import json, subprocess, os, sys
tmpl = open('/verif/tools/mutant_prompt.md').read()
focus = json.load(open(os.environ.get('MUTANT_FOCUS', '/verif/tools/mutant_focus.json')))
want = set(a.upper() for a in sys.argv[1:])
for l in open('/verif/properties.jsonl'):
    p = json.loads(l); pid = p['id']
    if pid not in want:
        continue
    wt = '/tmp/mut-' + os.environ.get('MUTANT_TAG', '') + pid.lower()
    subprocess.run(['git', '-C', '/repo', 'worktree', 'remove', '--force', wt], capture_output=True)
    subprocess.run(['git', '-C', '/repo', 'worktree', 'add', '-q', wt, 'HEAD'], check=True)
    t = tmpl.replace('WORKTREE', wt)
    t += f"\n\nPROPERTY {pid} — \"{p['title']}\":\n{p['statement']}\n(Quantified over: {p['quantifier']['text']}. Anchored in: {', '.join(p['anchors']['files'])}.)\n"
    t += (f"\nPlease produce TWO independent changes if you can, in {wt}/OUT/1/ and {wt}/OUT/2/ (each with its own patch.diff, "
          f"demo.patch — a patch adding a new test — and meta.json): {focus[pid]}.  Each must satisfy (1)-(3) on its own.\n")
    t += "To save time run the full existing suite once per change with `cargo test --workspace --offline --no-fail-fast` (about 3-5 min) and use `-p <crate>` runs while iterating.\n"
    os.makedirs(wt + '/OUT', exist_ok=True)
    open(wt + '/TASK.md', 'w').write(t)
    print(wt)
