#!/usr/bin/env python3
"""Regenerate /verif/MANIFEST.json from checks/*.py (CONFIG dicts) and hooks/hooks.json."""
import json, os, importlib.util, sys, subprocess
ROOT = os.path.dirname(os.path.dirname(os.path.abspath(__file__)))
sys.path.insert(0, os.path.join(ROOT, "checks"))
props = [json.loads(l) for l in open(os.path.join(ROOT, "properties.jsonl"))]
hooks = json.load(open(os.path.join(ROOT, "hooks", "hooks.json")))
checks, na = [], []
for p in props:
    pid = p["id"]
    path = os.path.join(ROOT, "checks", pid.lower() + ".py")
    cfg = None
    if os.path.exists(path):
        spec = importlib.util.spec_from_file_location(pid.lower(), path)
        mod = importlib.util.module_from_spec(spec); spec.loader.exec_module(mod)
        cfg = mod.CONFIG
    if cfg and cfg.get("claimed", True):
        checks.append(dict(
            property_id=pid,
            quick_cmd=f"./check {pid} --tier quick",
            thorough_cmd=f"./check {pid} --tier thorough",
            evidence_file=f"/verif/evidence/{pid}.json",
            replay_cmd_template=f"./check {pid} --replay {{path}}",
            engine="lean4-proof+correspondence",
            level_claimed=dict(category="proof", text=cfg["level_text"], design_ref=cfg.get("design_ref", "DESIGN.md §4 " + pid)),
            level_note=cfg["level_note"],
            technique=cfg.get("technique", "Lean 4 theorems about a hand-written model + differential correspondence check against the Rust code with the property's reference checker as oracle"),
        ))
    else:
        na.append(dict(property_id=pid, reason=(cfg or {}).get("na_reason", "check not built yet (work in progress); the technique applies, see DESIGN.md §4")))
m = dict(
    version=1,
    setup_cmd="./check setup",
    hooks=dict(guard="osrg_rustybgp_verif",
               enable='RUSTFLAGS="--cfg osrg_rustybgp_verif" cargo test -p rustybgpd --no-run (done by ./check; harness modules live in /verif/harness/daemon and are #[path]-included)',
               baseline_off_cmd="cd /repo && cargo test --workspace --no-fail-fast --offline",
               source_commits=hooks.get("source_commits", []), add_only=True),
    engines=[dict(name="lean4-proof+correspondence", path="/verif/check",
                  serves_properties=[c["property_id"] for c in checks],
                  kind_free_text="Lean 4 kernel-checked theorems about executable models (lean/Rbgp), tied to /repo on every run by a differential correspondence check (Rust harness vs compiled Lean driver) whose oracle is the property's reference checker, proved to accept every run of the model")],
    checks=checks,
    notes="See DESIGN.md. known-findings.json lists recorded/fixed defects. VERIF_SEED seeds every random choice; VERIF_TIER overrides the tier.",
    not_applicable=na,
)
json.dump(m, open(os.path.join(ROOT, "MANIFEST.json"), "w"), indent=1)
print("claimed:", [c["property_id"] for c in checks])
