#!/bin/bash
# tools/confirm_seeded.sh <seeded-id> <crate> <test-filter> [<crate2> <test-filter2>]
# Confirms in a scratch worktree of /repo HEAD that (1) the demo passes without the change, (2) fails with it,
# (3) the workspace test-suite passes with the change (no demo).  Writes seeded/<id>/confirmation.txt.
set -u
id="$1"; shift
d=/verif/seeded/$id
wt=/tmp/seedconfirm-$id
export CARGO_NET_OFFLINE=true CARGO_TARGET_DIR=${SEEDCONFIRM_TARGET:-/tmp/seedconfirm-target}
git -C /repo worktree remove --force "$wt" >/dev/null 2>&1
git -C /repo worktree add -q "$wt" HEAD || exit 2
log=$d/confirmation.txt; : > $log
run_demo() { # prints PASS/FAIL
  local ok=PASS
  local args=("$@")
  while [ ${#args[@]} -ge 2 ]; do
    ( cd $wt && cargo test -p "${args[0]}" --offline "${args[1]}" 2>&1 ) > /tmp/seedconfirm-$id.out
    grep -q "test result: ok. [1-9]" /tmp/seedconfirm-$id.out || ok=FAIL
    args=("${args[@]:2}")
  done
  echo $ok
}
git -C $wt apply $d/demo.patch || { echo "demo.patch does not apply" | tee -a $log; exit 2; }
r1=$(run_demo "$@"); echo "demo without change: $r1 (expected PASS)" | tee -a $log
git -C $wt apply $d/patch.diff || { echo "patch.diff does not apply on top of demo" | tee -a $log; exit 2; }
r2=$(run_demo "$@"); echo "demo with change: $r2 (expected FAIL)" | tee -a $log
git -C $wt apply -R $d/demo.patch
( cd $wt && cargo test --workspace --offline --no-fail-fast 2>&1 ) > /tmp/seedconfirm-$id.out
fails=$(grep -c "^test result: FAILED" /tmp/seedconfirm-$id.out); oks=$(grep -c "^test result: ok" /tmp/seedconfirm-$id.out)
echo "existing suite with change: ok-binaries=$oks failed-binaries=$fails (expected failed=0)" | tee -a $log
grep "^test result" /tmp/seedconfirm-$id.out | tr '\n' ' ' >> $log; echo >> $log
git -C /repo worktree remove --force "$wt"
rm -f /tmp/seedconfirm-$id.out
[ "$r1" = PASS ] && [ "$r2" = FAIL ] && [ "$fails" = 0 ] && echo "CONFIRMED $id" | tee -a $log
