#!/usr/bin/env python3
"""Summarise tools/run_seeded.sh results (.build/seeded-out/<id>/) and record them in seeded/<id>/meta.json."""
import json, os, re, glob, sys
ROOT = '/verif'
for d in sorted(glob.glob(ROOT + '/seeded/*')):
    sid = os.path.basename(d)
    out = f'{ROOT}/.build/seeded-out/{sid}'
    mp = d + '/meta.json'
    m = json.load(open(mp))
    conf = ''
    if os.path.exists(d + '/confirmation.txt'):
        lines = open(d + '/confirmation.txt').read().strip().splitlines()
        conf = lines[-1] if lines else ''
        m['confirmed'] = conf
    status = m.get('detection', {}).get('status', 'pending')
    if m.get('retired'):
        json.dump(m, open(mp, 'w'), indent=1)
        print(f"{sid:48s} {conf[:9]:9s} {'retired (was ' + status + ')':32s}")
        continue
    line = ''
    head = open(out + '/head.txt').read().strip() if os.path.exists(out + '/head.txt') else '?'
    if os.path.exists(out + '/STALE-PATCH'):
        status = 'STALE-PATCH'
        m['detection'] = dict(status=status, how=f'patch.diff does not apply to /repo {head}: rebase it', cmd='tools/run_seeded.sh ' + sid)
    elif os.path.exists(out + '/stdout.txt'):
        so = open(out + '/stdout.txt').read()
        se = open(out + '/stderr.txt').read().strip().splitlines()
        viol = [l for l in so.splitlines() if l.startswith('VIOLATION')]
        summary = se[-1] if se else ''
        if viol:
            nf = all('no-failing-input-found' in v for v in viol)
            kinds = []
            for v in viol:
                rp = re.search(r'replay=(\S+)', v).group(1)
                try:
                    j = json.load(open(rp)); kinds.append(j.get('signature') or j.get('kind'))
                except Exception:
                    kinds.append('?')
            status = 'caught' if not nf else 'caught (no-failing-input-found)'
            if any(str(k) in ('harness-build-failed', 'machinery-error') for k in kinds) and nf:
                status = 'NOT-EVALUATED'   # the run never reached the oracle (e.g. scratch build broke for an unrelated reason)
            how = f"{'VIOLATION with concrete failing input' if not nf else 'VIOLATION no-failing-input-found (correspondence/proof broke, oracle found no failing input)'}; signatures {sorted(set(map(str, kinds)))}; {summary}"
        else:
            status = 'MISSED'; how = 'check exited 0: ' + summary
        prev = m.get('detection', {})
        if prev.get('how', '').find('was MISSED') >= 0 and status.startswith('caught'):
            how += ' | history: ' + prev['how']
        m['detection'] = dict(status=status, how=how, cmd='tools/run_seeded.sh ' + sid, repo_head=head)
        line = summary
    json.dump(m, open(mp, 'w'), indent=1)
    print(f"{sid:48s} {conf[:9]:9s} {status:32s} {line[-90:]}")
