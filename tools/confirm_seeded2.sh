#!/bin/bash
# tools/confirm_seeded2.sh <seeded-id>
# Generic confirmation (no test filter needed): crates touched by demo.patch are tested
#  (1) demo only  -> all tests pass   (2) demo + change -> at least one test fails
#  (3) change only, whole workspace   -> all pass.   Writes seeded/<id>/confirmation.txt.
set -u
id="$1"
d=/verif/seeded/$id
wt=/tmp/seedconfirm-$id
export CARGO_NET_OFFLINE=true CARGO_TARGET_DIR=${SEEDCONFIRM_TARGET:-/tmp/seedconfirm-target}
git -C /repo worktree remove --force "$wt" >/dev/null 2>&1
git -C /repo worktree add -q "$wt" HEAD || exit 2
log=$d/confirmation.txt; : > $log
crates=""
for top in $(grep '^+++ b/' $d/demo.patch | sed 's#+++ b/##' | cut -d/ -f1 | sort -u); do
  case $top in packet) crates="$crates -p rustybgp-packet";; table) crates="$crates -p rustybgp-table";; daemon) crates="$crates -p rustybgpd";; kernel) crates="$crates -p rustybgp-kernel";; config) crates="$crates -p rustybgp-config";; esac
done
[ -z "$crates" ] && crates="--workspace"
run() { ( cd $wt && cargo test $crates --offline --no-fail-fast 2>&1 ) > /tmp/seedconfirm-$id.out; f=$(grep -c "^test result: FAILED" /tmp/seedconfirm-$id.out); e=$(grep -cE "^error(\[|: could not compile)" /tmp/seedconfirm-$id.out); echo "$f/$e"; }
git -C $wt apply $d/demo.patch || { echo "demo.patch does not apply on HEAD" | tee -a $log; git -C /repo worktree remove --force "$wt"; exit 2; }
r1=$(run); echo "demo without change: failed-binaries/errors=$r1 (expected 0/0)" | tee -a $log
git -C $wt apply $d/patch.diff || { echo "patch.diff does not apply on top of demo" | tee -a $log; git -C /repo worktree remove --force "$wt"; exit 2; }
r2=$(run); echo "demo with change: failed-binaries/errors=$r2 (expected >=1 failed, 0 errors)" | tee -a $log
git -C $wt apply -R $d/demo.patch
( cd $wt && cargo test --workspace --offline --no-fail-fast 2>&1 ) > /tmp/seedconfirm-$id.out
fails=$(grep -c "^test result: FAILED" /tmp/seedconfirm-$id.out); oks=$(grep -c "^test result: ok" /tmp/seedconfirm-$id.out); errs=$(grep -cE "^error(\[|: could not compile)" /tmp/seedconfirm-$id.out)
echo "existing suite with change: ok-binaries=$oks failed-binaries=$fails errors=$errs (expected failed=0 errors=0)" | tee -a $log
git -C /repo worktree remove --force "$wt"; rm -f /tmp/seedconfirm-$id.out
[ "$r1" = "0/0" ] && [ "${r2%/*}" != "0" ] && [ "${r2#*/}" = "0" ] && [ "$fails" = 0 ] && [ "$errs" = 0 ] && echo "CONFIRMED $id" | tee -a $log
