#!/usr/bin/env python3
"""tools/setcommit.py <commit> <finding-id> [<finding-id>...] — record the /repo commit that fixed findings."""
import json, sys
p = '/verif/known-findings.json'
j = json.load(open(p))
commit, ids = sys.argv[1], set(sys.argv[2:])
seen = set()
for f in j['findings']:
    if f['id'] in ids:
        f['status'] = 'fixed'; f['commit'] = commit; seen.add(f['id'])
    if f.get('status') == 'fixed':
        f['fixed_line'] = f"fixed: property={f['property']} {f.get('commit')} {f.get('what', '')}"
json.dump(j, open(p, 'w'), indent=1)
print("updated", sorted(seen), "missing", sorted(ids - seen))
