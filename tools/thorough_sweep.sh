#!/bin/bash
# tools/thorough_sweep.sh [Cxx…] — run every (or the listed) thorough check once; one line per property.
cd "$(dirname "$0")/.."
# each daemon-kind property builds only its own harness sub-module (VERIF_ONLY) so concurrent edits elsewhere cannot break it
PROPS="${@:-C01 C02 C03 C04 C05 C06 C07 C08 C09 C10 C11 C12 C13 C14 C15 C16 C17 C18 C19 C20}"
worst=0
for p in $PROPS; do
  t0=$(date +%s); out=$(VERIF_ONLY=$(echo $p | tr A-Z a-z) ./check $p --tier thorough 2>&1); rc=$?
  echo "$p rc=$rc viol=$(echo "$out" | grep -c '^VIOLATION') wall=$(( $(date +%s) - t0 ))s | $(echo "$out" | tail -1)"
  echo "$out" | grep '^VIOLATION'
  [ $rc -ne 0 ] && worst=1
done
exit $worst
