#!/bin/bash
# tools/run_seeded.sh <seeded-id> [tier]
# Runs the check of the property a seeded change breaks against a SCRATCH worktree of /repo HEAD with the
# change applied (so that work in /repo is not disturbed).  Prints the check's verdict lines.
set -u
id="$1"; tier="${2:-quick}"; propov="${3:-}"
d=/verif/seeded/$id
prop=$(python3 -c "import json;print(json.load(open('$d/meta.json'))['property'])")
[ -n "$propov" ] && prop=$propov
wt=/tmp/seedrun-$id
git -C /repo worktree remove --force "$wt" >/dev/null 2>&1
git -C /repo worktree add -q "$wt" HEAD || exit 2
out=/verif/.build/seeded-out/$id; mkdir -p "$out"; rm -f "$out/stdout.txt" "$out/stderr.txt" "$out/STALE-PATCH"
git -C /repo log --format=%h -1 > "$out/head.txt"
git -C "$wt" apply "$d/patch.diff" || { echo "patch does not apply"; touch "$out/STALE-PATCH"; git -C /repo worktree remove --force "$wt"; exit 2; }
h=$(python3 -c "import hashlib;print(hashlib.sha1('$wt'.encode()).hexdigest()[:6])")
# warm start: reuse the dependency artefacts of the main build caches
[ -d /verif/.build/daemon ] && [ ! -d /verif/.build/daemon-alt$h ] && cp -a --reflink=auto /verif/.build/daemon /verif/.build/daemon-alt$h
[ -d /verif/.build/pt ] && [ ! -d /verif/.build/pt-alt$h ] && cp -a --reflink=auto /verif/.build/pt /verif/.build/pt-alt$h
( cd /verif && VERIF_ONLY="${VERIF_ONLY:-}" VERIF_REPO="$wt" VERIF_EVIDENCE_DIR="$out" VERIF_REPLAY_DIR="$out" ./check "$prop" --tier "$tier" ) > "$out/stdout.txt" 2> "$out/stderr.txt"
rc=$?
echo "seeded=$id property=$prop rc=$rc"
grep -E "VIOLATION|KNOWN-FINDING" "$out/stdout.txt"
tail -1 "$out/stderr.txt"
git -C /repo worktree remove --force "$wt"
# remove the scratch build output of this worktree
rm -rf /verif/.build/*-alt$h
exit 0
