#!/usr/bin/env python3
"""tools/commit_hunks.py <commit message file|-m msg> <file> <regex> [<file> <regex> ...]
Stage only the hunks of /repo's working-tree diff of <file> whose text matches <regex>, and commit them.
Used to turn several agents' uncommitted repairs in one file into separate small `fix:` commits."""
import sys, re, subprocess
args = sys.argv[1:]
if args[0] == "-m":
    msg = args[1]; args = args[2:]
else:
    msg = open(args[0]).read(); args = args[1:]
patch = ""
for i in range(0, len(args), 2):
    f, rx = args[i], re.compile(args[i + 1], re.S)
    d = subprocess.run(["git", "-C", "/repo", "diff", "-U3", "--", f], capture_output=True, text=True).stdout
    if not d:
        print("no diff for", f); sys.exit(1)
    parts = re.split(r"(?m)^(?=@@ )", d)
    header, hunks = parts[0], parts[1:]
    sel = [h for h in hunks if rx.search(h)]
    if not sel:
        print("no hunk matches", rx.pattern, "in", f); sys.exit(1)
    patch += header + "".join(sel)
p = subprocess.run(["git", "-C", "/repo", "apply", "--cached", "--recount", "-"], input=patch, text=True, capture_output=True)
if p.returncode != 0:
    print(p.stderr); sys.exit(1)
subprocess.run(["git", "-C", "/repo", "commit", "-q", "-m", msg], check=True)
print(subprocess.run(["git", "-C", "/repo", "log", "--oneline", "-1"], capture_output=True, text=True).stdout.strip())
