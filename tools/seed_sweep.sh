#!/bin/bash
# tools/seed_sweep.sh <seeds...> — run every claimed quick check under several seeds; print one line per run.
cd "$(dirname "$0")/.."
./check setup > /dev/null 2>&1
for s in "$@"; do
  for p in C01 C02 C03 C04 C05 C06 C07 C08 C09 C10 C11 C12 C13 C14 C15 C16 C17 C18 C19 C20; do
    out=$(VERIF_SEED=$s ./check $p 2>&1); rc=$?
    echo "seed=$s $p rc=$rc viol=$(echo "$out" | grep -c '^VIOLATION') known=$(echo "$out" | grep -c '^KNOWN-FINDING') | $(echo "$out" | tail -1)"
    echo "$out" | grep '^VIOLATION'
  done
done
