#!/usr/bin/env python3
import glob,re
for f in glob.glob('/verif/seeded/*/confirmation.txt'):
    t=open(f).read()
    if 'CONFIRMED' in t: continue
    a=re.search(r'demo without change: failed-binaries/errors=(\d+)/(\d+)',t)
    b=re.search(r'demo with change: failed-binaries/errors=(\d+)/(\d+)',t)
    c=re.search(r'existing suite with change: ok-binaries=(\d+) failed-binaries=(\d+) errors=(\d+)',t)
    if a and b and c and a.group(1)=='0' and a.group(2)=='0' and int(b.group(1))>=1 and c.group(2)=='0' and c.group(3)=='0':
        sid=f.split('/')[-2]
        open(f,'a').write(f"(errors counted in step 2 are cargo's own 'error: test failed' lines)\nCONFIRMED {sid}\n")
        print('confirmed',sid)
