#!/usr/bin/env python3
"""tools/apply_series.py <agent-name> [finding-id-map...]
Apply /verif/.build/patches/<agent>/NN-<id>.diff to /repo's INDEX (working tree untouched: it already holds the final
content), one commit each with NN-<id>.msg, and record the commit for known-findings whose id starts with <id>."""
import sys, os, glob, subprocess, json, re
agent = sys.argv[1]
d = f'/verif/.build/patches/{agent}'
kfp = '/verif/known-findings.json'
for diff in sorted(glob.glob(d + '/*.diff')):
    base = diff[:-5]; name = os.path.basename(base)
    if os.path.exists(base + '.applied'):
        continue
    msg = open(base + '.msg').read().strip() + '\n'
    p = subprocess.run(['git', '-C', '/repo', 'apply', '--cached', '--recount', diff], capture_output=True, text=True)
    if p.returncode != 0:
        print('FAILED to apply', name, p.stderr[:400]); sys.exit(1)
    subprocess.run(['git', '-C', '/repo', 'commit', '-q', '-m', msg], check=True)
    h = subprocess.run(['git', '-C', '/repo', 'log', '--format=%h', '-1'], capture_output=True, text=True).stdout.strip()
    open(base + '.applied', 'w').write(h + '\n')
    fid = re.sub(r'^\d+-', '', name)
    kf = json.load(open(kfp)); hit = []
    for f in kf['findings']:
        if f['id'] == fid or f['id'].startswith(fid + '-') or fid.startswith(f['id']):
            if f.get('status') in ('fixed', 'open') and f.get('commit') in (None, 'pending'):
                f['status'] = 'fixed'; f['commit'] = h
                f['fixed_line'] = f"fixed: property={f['property']} {h} {f.get('what', '')}"
                hit.append(f['id'])
    json.dump(kf, open(kfp, 'w'), indent=1)
    print(h, msg.splitlines()[0], '| findings:', hit)
print(subprocess.run(['git', '-C', '/repo', 'status', '--short'], capture_output=True, text=True).stdout)
