#!/usr/bin/env python3
"""Rewrite the generated tables of DESIGN.md (§9.3 findings, §9.4 seeded changes) from
known-findings.json and seeded/*/meta.json."""
import json, os, re, glob
ROOT = os.path.dirname(os.path.dirname(os.path.abspath(__file__)))
d = open(os.path.join(ROOT, 'DESIGN.md')).read()
kf = json.load(open(os.path.join(ROOT, 'known-findings.json')))['findings']
def esc(s): return (s or '').replace('|', '\\|').replace('\n', ' ')
out = []
out.append('#### Fixed in /repo (one `fix:` commit each; a fixed entry suppresses nothing)\n')
out.append('| property | id | commit | what failed |\n|---|---|---|---|')
for f in sorted(kf, key=lambda f: (f['property'], f['id'])):
    if f.get('status') == 'fixed':
        out.append(f"| {f['property']} | {f['id']} | `{f.get('commit')}` | {esc(f.get('what'))[:400]} |")
out.append('\n#### Open known findings (genuine defects recorded, not repaired; `./check` prints KNOWN-FINDING for exactly these signatures)\n')
out.append('| property | id | signature | what fails |\n|---|---|---|---|')
for f in sorted(kf, key=lambda f: (f['property'], f['id'])):
    if f.get('status') == 'open':
        out.append(f"| {f['property']} | {f['id']} | `{esc(f.get('signature'))}` | {esc(f.get('what'))[:400]} |")
out.append('\n#### Remarks (observations outside the property statements; never matched by a check)\n')
out.append('| property | id | remark |\n|---|---|---|')
for f in sorted(kf, key=lambda f: (f['property'], f['id'])):
    if f.get('status') == 'remark':
        out.append(f"| {f['property']} | {f['id']} | {esc(f.get('what'))[:400]} |")
tbl = '\n'.join(out)
sd = ['| seeded change | property | what it needs to manifest | confirmed | detection by `./check` |\n|---|---|---|---|---|']
for mp in sorted(glob.glob(os.path.join(ROOT, 'seeded', '*', 'meta.json'))):
    m = json.load(open(mp)); sid = os.path.basename(os.path.dirname(mp))
    det = m.get('detection', {})
    if m.get('retired'):
        det = dict(det, status='retired (was ' + det.get('status', '?') + ')', how=m['retired'])
    sd.append(f"| {sid} | {m.get('property')} | {esc(m.get('needs_to_manifest', ''))[:260]} | {esc(m.get('confirmed', 'pending'))[:40]} | **{det.get('status', 'pending')}** — {esc(det.get('how', ''))[:300]} |")
def put(d, name, body):
    b, e = f'<!-- {name}:BEGIN -->', f'<!-- {name}:END -->'
    if b not in d:
        return d
    return d[:d.index(b) + len(b)] + '\n' + body + '\n' + d[d.index(e):]
# per-property status from the check configs
import importlib.util, sys
sys.path.insert(0, os.path.join(ROOT, 'checks'))
rows = ['| property | harness | Lean modules | theorems audited | master theorem(s) | modelled, not verified |\n|---|---|---|---|---|---|']
for i in range(1, 21):
    pid = 'C%02d' % i
    fp = os.path.join(ROOT, 'checks', pid.lower() + '.py')
    if not os.path.exists(fp):
        continue
    spec = importlib.util.spec_from_file_location(pid.lower(), fp); mod = importlib.util.module_from_spec(spec); spec.loader.exec_module(mod)
    c = mod.CONFIG
    masters = [t.split('.')[-1] for t in c['theorems'] if 'check_run_ok' in t or 'eval_eq_reference' in t or 'update_validated_ok' in t]
    h = c['harness']
    rows.append(f"| {pid} | {h['kind']} ({h.get('bin') or h.get('test')}) | {', '.join(c['lean_modules'])} | {len(c['theorems'])} | {', '.join(masters) or '—'} | {esc('; '.join(c.get('modelled_not_verified', [])))[:500]} |")
d = put(d, 'STATUS', '\n'.join(rows))
tb = []
for i in range(1, 21):
    pid = 'C%02d' % i
    fp = os.path.join(ROOT, 'checks', pid.lower() + '.py')
    if not os.path.exists(fp):
        continue
    spec = importlib.util.spec_from_file_location(pid.lower() + '_tb', fp); mod = importlib.util.module_from_spec(spec); spec.loader.exec_module(mod)
    c = mod.CONFIG
    tb.append(f"* **{pid}** — " + ' / '.join(esc(x)[:400] for x in c.get('trusted_base', [])[:6]))
    if c.get('hypothesis_backed'):
        tb.append(f"  * hypothesis-backed (explored on the real code only, no theorem): " + esc('; '.join(map(str, c['hypothesis_backed'])))[:600])
d = put(d, 'TRUSTED', '\n'.join(tb))
d = put(d, 'FINDINGS', tbl)
d = put(d, 'SEEDED', '\n'.join(sd))
open(os.path.join(ROOT, 'DESIGN.md'), 'w').write(d)
print('ok')
