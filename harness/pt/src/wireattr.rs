// C03, impl-only: the attribute-body parsers that run lazily on peer-supplied bytes (daemon/src/convert.rs, when an API
// client lists paths): packet::tunnel_encap::decode, packet::prefix_sid::PrefixSid::decode, packet::ls::parse_ls_attr.
// Case: (xattr tunnel|psid|ls x<bytes>).  Observation: (obs (done)) | (obs (panic)) | (obs (stall)).
#![allow(dead_code)]

use crate::wiregen::hex;
use verif_pt::sexp::Rng;

fn tl(tw: usize, lw: usize, t: u32, declared: usize, v: &[u8]) -> Vec<u8> {
    let mut b = Vec::new();
    if tw == 1 { b.push(t as u8) } else { b.extend_from_slice(&(t as u16).to_be_bytes()) }
    if lw == 1 { b.push(declared as u8) } else { b.extend_from_slice(&(declared as u16).to_be_bytes()) }
    b.extend_from_slice(v);
    b
}

fn fill(n: usize, pat: u8) -> Vec<u8> {
    (0..n).map(|i| match pat { 0 => 0u8, 1 => 0xff, _ => (i as u8).wrapping_mul(13).wrapping_add(1) }).collect()
}

fn case(kind: &str, b: &[u8]) -> String {
    format!("(xattr {} {})", kind, hex(b))
}

const LS_TYPES: [u32; 60] = [
    256, 257, 258, 259, 260, 261, 262, 263, 264, 265, 512, 513, 514, 515, 516, 517, 518, 1024, 1025, 1026, 1027, 1028, 1029, 1030,
    1031, 1034, 1035, 1036, 1088, 1089, 1090, 1091, 1092, 1095, 1096, 1097, 1098, 1099, 1100, 1101, 1102, 1103, 1104, 1105, 1106,
    1114, 1115, 1116, 1117, 1152, 1155, 1157, 1158, 1161, 1170, 1171, 1250, 1251, 1252, 9999,
];

/// deterministic part: every TLV type each parser knows x every value length around its guards
pub fn attr_boundary_cases() -> Vec<String> {
    let mut out = Vec::new();
    // ---- BGP-LS attribute: type(2) length(2)
    for t in LS_TYPES {
        for l in (0usize..=34).chain([48, 64, 255]) {
            for pat in 0..3 {
                let v = fill(l, pat);
                out.push(case("ls", &tl(2, 2, t, l, &v)));
                if pat == 2 {
                    out.push(case("ls", &tl(2, 2, t, l + 1, &v)));
                    out.push(case("ls", &tl(2, 2, t, 0xffff, &v)));
                    let mut two = tl(2, 2, t, l, &v);
                    two.extend(tl(2, 2, 1026, 2, b"r1"));
                    out.push(case("ls", &two));
                }
            }
        }
    }
    // SR capabilities / SRLB (1034, 1036): flags, reserved, then (range size (3), SID/label sub-TLV) entries
    for t in [1034u32, 1036] {
        for range in [[0u8, 0, 0], [0, 0, 1], [0, 0, 2], [0xff, 0xff, 0xff], [0x80, 0, 0]] {
            for sid in [vec![0u8, 0, 0], vec![0xff, 0xff, 0xf0], vec![0xff, 0xff, 0xff], vec![0, 0, 0, 0], vec![0xff, 0xff, 0xff, 0xff],
                        vec![0xff, 0xff, 0xff, 0xfe], vec![0x7f, 0xff, 0xff, 0xff], vec![1, 2], vec![1, 2, 3, 4, 5]] {
                for st in [1u8, 0, 2] {
                    let mut v = vec![0x80u8, 0];
                    v.extend_from_slice(&range);
                    v.push(st);
                    v.push(sid.len() as u8);
                    v.extend_from_slice(&sid);
                    out.push(case("ls", &tl(2, 2, t, v.len(), &v)));
                    let mut v2 = v.clone();
                    v2.extend_from_slice(&v[2..]);
                    out.push(case("ls", &tl(2, 2, t, v2.len(), &v2)));
                    for cut in 0..v.len() {
                        out.push(case("ls", &tl(2, 2, t, cut, &v[..cut])));
                    }
                }
            }
        }
    }
    // ---- TUNNEL_ENCAP: tunnel type(2) length(2); SR policy (15) sub-TLVs type(1) length(1, or 2 for types >= 128)
    for tt in [15u32, 8, 0, 65535] {
        for l in 0usize..=8 {
            out.push(case("tunnel", &tl(2, 2, tt, l, &fill(l, 2))));
            out.push(case("tunnel", &tl(2, 2, tt, l + 1, &fill(l, 2))));
        }
    }
    for st in (0u32..=24).chain([127, 128, 129, 130, 131, 255]) {
        for l in (0usize..=28).chain([40, 255]) {
            for pat in 0..3 {
                let lw = if st >= 128 { 2 } else { 1 };
                let sub = tl(1, lw, st, l, &fill(l, pat));
                out.push(case("tunnel", &tl(2, 2, 15, sub.len(), &sub)));
                if pat == 2 {
                    let sub2 = tl(1, lw, st, l + 1, &fill(l, pat));
                    out.push(case("tunnel", &tl(2, 2, 15, sub2.len(), &sub2)));
                }
            }
        }
    }
    // segment list (128): reserved octet, then segment sub-TLVs type(1) length(1)
    for seg in 0u32..=16 {
        for l in (0usize..=30).chain([40]) {
            for flags in [0u8, 0x40, 0xff] {
                let mut body = fill(l, 2);
                if !body.is_empty() {
                    body[0] = flags;
                }
                let mut sl = vec![0u8];
                sl.extend(tl(1, 1, seg, l, &body));
                let sub = tl(1, 2, 128, sl.len(), &sl);
                out.push(case("tunnel", &tl(2, 2, 15, sub.len(), &sub)));
            }
        }
    }
    // ---- PREFIX_SID: type(1) length(2); SRv6 service TLVs (5, 6): reserved, sub-TLVs; information sub-TLV (1): 21 fixed
    //      bytes, then sub-sub-TLVs (1 = SID structure, 6 bytes)
    for t in [0u32, 1, 3, 4, 5, 6, 7, 255] {
        for l in (0usize..=30).chain([64]) {
            for pat in 0..3 {
                out.push(case("psid", &tl(1, 2, t, l, &fill(l, pat))));
            }
            out.push(case("psid", &tl(1, 2, t, l + 1, &fill(l, 2))));
            out.push(case("psid", &tl(1, 2, t, 0xffff, &fill(l, 2))));
        }
    }
    for t in [5u32, 6] {
        for st in [1u32, 0, 2, 255] {
            for l in (0usize..=32).chain([40]) {
                let mut v = vec![0u8];
                v.extend(tl(1, 2, st, l, &fill(l, 2)));
                out.push(case("psid", &tl(1, 2, t, v.len(), &v)));
            }
            for sst in [1u32, 0, 2] {
                for l in 0usize..=10 {
                    let mut info = fill(21, 2);
                    info.extend(tl(1, 2, sst, l, &fill(l, 2)));
                    let mut v = vec![0u8];
                    v.extend(tl(1, 2, st, info.len(), &info));
                    out.push(case("psid", &tl(1, 2, t, v.len(), &v)));
                    // sub-sub-TLV length one more than the bytes
                    let mut info2 = fill(21, 2);
                    info2.extend(tl(1, 2, sst, l + 1, &fill(l, 2)));
                    let mut v2 = vec![0u8];
                    v2.extend(tl(1, 2, st, info2.len(), &info2));
                    out.push(case("psid", &tl(1, 2, t, v2.len(), &v2)));
                }
            }
        }
    }
    out
}

/// random TLV soup with nesting, for each of the three parsers
fn soup(r: &mut Rng, tw: usize, lw: usize, types: &[u32], depth: u32) -> Vec<u8> {
    let mut b = Vec::new();
    for _ in 0..1 + r.below(3) {
        let t = if r.chance(5, 6) { *r.pick(types) } else { r.below(if tw == 1 { 256 } else { 65536 }) as u32 };
        let inner: Vec<u8> = if depth > 0 && r.chance(1, 3) {
            let mut v = if r.chance(1, 2) { vec![r.below(256) as u8] } else { vec![] };
            let lw_in = if r.chance(1, 2) { 1 } else { 2 };
            v.extend(soup(r, 1, lw_in, &[1, 9, 13, 12, 128, 20], depth - 1));
            v
        } else {
            let l = *r.pick(&[0usize, 1, 2, 3, 4, 5, 6, 7, 8, 12, 16, 17, 18, 20, 21, 24, 26, 32]);
            (0..l).map(|_| *r.pick(&[0u8, 1, 0x40, 0x7f, 0x80, 0xff, 3, 4])).collect()
        };
        let declared = match r.below(8) {
            0 => inner.len() + 1,
            1 => inner.len().saturating_sub(1),
            2 => *r.pick(&[0usize, 255, 65535]),
            _ => inner.len(),
        };
        let lw2 = if tw == 1 && lw == 0 { if t >= 128 { 2 } else { 1 } } else { lw };
        b.extend(tl(tw, lw2, t, declared, &inner));
    }
    b
}

pub fn gen_attr_case(r: &mut Rng) -> String {
    match r.below(3) {
        0 => case("ls", &soup(r, 2, 2, &LS_TYPES, 1)),
        1 => {
            // SR policy tunnel: sub-TLVs with the 1-/2-byte length rule (lw = 0)
            let inner = soup(r, 1, 0, &[12, 13, 14, 15, 20, 128, 129, 130], 2);
            let tt = if r.chance(4, 5) { 15 } else { r.below(65536) as u32 };
            let declared = if r.chance(1, 6) { inner.len() + 1 } else { inner.len() };
            case("tunnel", &tl(2, 2, tt, declared, &inner))
        }
        _ => case("psid", &soup(r, 1, 2, &[1, 3, 5, 6], 2)),
    }
}
