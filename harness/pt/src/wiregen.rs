// Case generators for C03 (wire decoders) and C05 (UPDATE error handling).
// Valid messages come from the repo's own encoders (PeerCodec::encode_to, RtrCodec::encode, bfd::Message::encode);
// the malformed stream mutates every length field (0, +-1, max, disagreeing pairs, wrapping sums), truncates,
// duplicates, flips flags and fragments the byte stream arbitrarily.  One SplitMix64 PRNG drives every choice.
#![allow(dead_code)]

use crate::wire::*;
use bytes::BytesMut;
use rustybgp_packet::bgp::{
    Attribute, Capability, Family, HoldTime, Ipv4Net, Ipv6Net, Message, Nexthop, Nlri, Notification, Open, PathNlri,
    PeerCodec, Update,
};
use rustybgp_packet::{bfd, rpki};
use std::net::{Ipv4Addr, Ipv6Addr};
use std::panic::{AssertUnwindSafe, catch_unwind};
use std::sync::Arc;
use tokio_util::codec::Encoder;
use verif_pt::sexp::{Rng, Term};

pub const NLRI_SEEDS: &str = include_str!("nlri_seeds.txt");

pub fn hex(b: &[u8]) -> String {
    bytes_split_t(b).to_string()
}

fn unhex(s: &str) -> Option<Vec<u8>> {
    Term::atom(format!("x{}", s)).as_bytes()
}

// ------------------------------------------------------------------ codecs
const MODELLED_FAMS: [(u16, u8); 4] = [(1, 1), (2, 1), (1, 2), (2, 2)];
pub const HYP_FAMS: [(u16, u8); 16] = [
    (1, 128),
    (2, 128),
    (1, 4),
    (2, 4),
    (1, 133),
    (2, 133),
    (1, 134),
    (2, 134),
    (16388, 71),
    (1, 73),
    (2, 73),
    (25, 70),
    (1, 132),
    (1, 85),
    (2, 85),
    (1, 1),
];

pub fn gen_codec(r: &mut Rng) -> CodecDesc {
    let mut fams = Vec::new();
    // IPv4 unicast almost always present (legacy NLRI need it); sometimes absent on purpose
    for (i, (a, s)) in MODELLED_FAMS.iter().enumerate() {
        let p = match i {
            0 => r.chance(9, 10),
            1 => r.chance(3, 4),
            _ => r.chance(1, 4),
        };
        if p {
            fams.push((*a, *s, r.chance(1, 3)));
        }
    }
    CodecDesc { ext: r.chance(1, 3), two: r.chance(1, 3), fams }
}

/// The encoder side may additionally have RFC 8950 extended next hop (does not influence decoding).
fn build_enc_codec(desc: &CodecDesc, enh: bool) -> PeerCodec {
    let mut caps: Vec<Capability> = Vec::new();
    let mut ap = Vec::new();
    for (afi, safi, addpath) in &desc.fams {
        let f = Family::new(*afi, *safi);
        caps.push(Capability::MultiProtocol(f));
        if *addpath {
            ap.push((f, 3u8));
        }
    }
    if !ap.is_empty() {
        caps.push(Capability::AddPath(ap));
    }
    if desc.ext {
        caps.push(Capability::ExtendedMessage);
    }
    if !desc.two {
        caps.push(Capability::FourOctetAsNumber(65001));
    }
    if enh {
        caps.push(Capability::ExtendedNexthop(vec![(Family::IPV4, 2)]));
    }
    PeerCodec::negotiate(&caps, &caps)
}

// ------------------------------------------------------------------ valid values (small colliding domains)
const V4_POOL: [([u8; 4], u8); 10] = [
    ([10, 0, 0, 0], 8),
    ([10, 1, 0, 0], 16),
    ([10, 1, 1, 0], 24),
    ([10, 1, 1, 0], 25),
    ([192, 168, 0, 0], 24),
    ([0, 0, 0, 0], 0),
    ([1, 2, 3, 4], 32),
    ([172, 16, 0, 0], 12),
    ([128, 0, 0, 0], 1),
    ([10, 1, 1, 128], 31),
];
const V6_POOL: [([u8; 16], u8); 7] = [
    ([0x20, 1, 0x0d, 0xb8, 0, 0, 0, 0, 0, 0, 0, 0, 0, 0, 0, 0], 32),
    ([0x20, 1, 0x0d, 0xb8, 0, 1, 0, 0, 0, 0, 0, 0, 0, 0, 0, 0], 48),
    ([0x20, 1, 0x0d, 0xb8, 0, 1, 0, 2, 0, 0, 0, 0, 0, 0, 0, 0], 64),
    ([0; 16], 0),
    ([0x20, 1, 0x0d, 0xb8, 0, 0, 0, 0, 0, 0, 0, 0, 0, 0, 0, 1], 128),
    ([0xfe, 0x80, 0, 0, 0, 0, 0, 0, 0, 0, 0, 0, 0, 0, 0, 0], 10),
    ([0x20, 1, 0x0d, 0xb8, 0, 1, 0, 2, 0x80, 0, 0, 0, 0, 0, 0, 0], 65),
];
const ASNS: [u32; 8] = [1, 65001, 65002, 65535, 23456, 65536, 4200000001, 4294967295];

fn gen_entries(r: &mut Rng, v6: bool) -> Vec<PathNlri> {
    let n = match r.below(10) {
        0 => 0,
        1..=5 => 1,
        6..=8 => 2 + r.below(3) as usize,
        _ => 5 + r.below(40) as usize,
    };
    (0..n)
        .map(|_| {
            let nlri = if v6 {
                let (a, m) = r.pick(&V6_POOL);
                Nlri::V6(Ipv6Net { addr: Ipv6Addr::from(*a), mask: *m })
            } else {
                let (a, m) = r.pick(&V4_POOL);
                Nlri::V4(Ipv4Net { addr: Ipv4Addr::from(*a), mask: *m })
            };
            PathNlri { path_id: *r.pick(&[0u32, 1, 2, 7, 4294967295]), nlri }
        })
        .collect()
}

fn as_path_bin(r: &mut Rng) -> Vec<u8> {
    let mut out = Vec::new();
    let nseg = *r.pick(&[0usize, 1, 1, 1, 2, 3]);
    for _ in 0..nseg {
        let t = *r.pick(&[2u8, 2, 2, 1, 3, 4]);
        let c = *r.pick(&[0usize, 1, 1, 2, 3, 5]);
        out.push(t);
        out.push(c as u8);
        for _ in 0..c {
            out.extend_from_slice(&r.pick(&ASNS).to_be_bytes());
        }
    }
    out
}

pub fn gen_attrs(r: &mut Rng, with_origin_aspath: bool) -> Vec<Attribute> {
    let mut v = Vec::new();
    if with_origin_aspath || r.chance(9, 10) {
        v.push(Attribute::new_with_value(Attribute::ORIGIN, r.below(3) as u32).unwrap());
    }
    if with_origin_aspath || r.chance(9, 10) {
        v.push(Attribute::new_with_bin(Attribute::AS_PATH, as_path_bin(r)).unwrap());
    }
    if r.chance(1, 2) {
        v.push(Attribute::new_with_value(Attribute::MULTI_EXIT_DESC, *r.pick(&[0u32, 1, 100, 4294967295])).unwrap());
    }
    if r.chance(1, 2) {
        v.push(Attribute::new_with_value(Attribute::LOCAL_PREF, *r.pick(&[0u32, 100, 200])).unwrap());
    }
    if r.chance(1, 5) {
        v.push(Attribute::new_with_bin(Attribute::ATOMIC_AGGREGATE, vec![]).unwrap());
    }
    if r.chance(1, 4) {
        let mut b = r.pick(&ASNS).to_be_bytes().to_vec();
        b.extend_from_slice(&[10, 0, 0, 1]);
        v.push(Attribute::new_with_bin(Attribute::AGGREGATOR, b).unwrap());
    }
    if r.chance(1, 3) {
        let n = r.below(4) as usize;
        let mut b = Vec::new();
        for _ in 0..n {
            b.extend_from_slice(&[0xff, 0xff, 0xff, *r.pick(&[1u8, 2, 3, 6, 7])]);
        }
        v.push(Attribute::new_with_bin(Attribute::COMMUNITY, b).unwrap());
    }
    if r.chance(1, 5) {
        v.push(Attribute::new_with_value(Attribute::ORIGINATOR_ID, 0x0a000001).unwrap());
    }
    if r.chance(1, 5) {
        let n = 1 + r.below(3) as usize;
        let mut b = Vec::new();
        for i in 0..n {
            b.extend_from_slice(&[10, 0, 0, i as u8]);
        }
        v.push(Attribute::new_with_bin(Attribute::CLUSTER_LIST, b).unwrap());
    }
    if r.chance(1, 6) {
        v.push(Attribute::new_with_bin(Attribute::EXTENDED_COMMUNITY, vec![0, 2, 0xfd, 0xe8, 0, 0, 0, 100]).unwrap());
    }
    if r.chance(1, 6) {
        v.push(Attribute::new_with_bin(Attribute::LARGE_COMMUNITY, vec![0, 0, 0xfd, 0xe8, 0, 0, 0, 1, 0, 0, 0, 2]).unwrap());
    }
    if r.chance(1, 8) {
        v.push(Attribute::new_with_bin(Attribute::AIGP, vec![1, 0, 11, 0, 0, 0, 0, 0, 0, 0, 100]).unwrap());
    }
    if r.chance(1, 6) {
        let code = *r.pick(&[99u8, 200, 255, 11, 19]);
        let flags = *r.pick(&[0xc0u8, 0xc0, 0xe0, 0x80]);
        let n = r.below(6) as usize;
        v.push(Attribute::new_opaque(code, flags, (0..n).map(|i| i as u8).collect()));
    }
    v
}

fn gen_caps(r: &mut Rng) -> Vec<Capability> {
    let mut v = Vec::new();
    let n = r.below(8);
    for _ in 0..n {
        let fam = |r: &mut Rng| {
            let (a, s) = *r.pick(&[(1u16, 1u8), (2, 1), (1, 128), (25, 70), (1, 4), (16388, 71)]);
            Family::new(a, s)
        };
        let c = match r.below(12) {
            0 | 1 => Capability::MultiProtocol(fam(r)),
            2 => Capability::RouteRefresh,
            3 => Capability::ExtendedNexthop((0..r.below(3)).map(|_| (fam(r), *r.pick(&[2u16, 1]))).collect()),
            4 => Capability::ExtendedMessage,
            5 => Capability::GracefulRestart {
                flags: r.below(16) as u8,
                restart_time: *r.pick(&[0u16, 120, 4095]),
                families: (0..r.below(3)).map(|_| (fam(r), *r.pick(&[0u8, 0x80]))).collect(),
            },
            6 => Capability::FourOctetAsNumber(*r.pick(&ASNS)),
            7 => Capability::AddPath((0..r.below(3)).map(|_| (fam(r), *r.pick(&[1u8, 2, 3, 0, 4]))).collect()),
            8 => Capability::EnhancedRouteRefresh,
            9 => Capability::LongLivedGracefulRestart(
                (0..r.below(3)).map(|_| (fam(r), *r.pick(&[0u8, 0x80]), *r.pick(&[0u32, 3600, 16777215]))).collect(),
            ),
            10 => Capability::Fqdn {
                hostname: r.pick(&["", "r1", "Router-A"]).to_string(),
                domain: r.pick(&["", "example.net"]).to_string(),
            },
            _ => Capability::Unknown {
                code: *r.pick(&[0u8, 3, 66, 72, 128, 255]),
                bin: (0..r.below(5)).map(|i| i as u8).collect(),
            },
        };
        v.push(c);
    }
    v
}

fn encode(codec: &mut PeerCodec, m: &Message) -> Option<Vec<u8>> {
    let r = catch_unwind(AssertUnwindSafe(|| {
        let mut b = BytesMut::new();
        codec.encode_to(m, &mut b).ok().map(|_| b.to_vec())
    }));
    match r {
        Ok(Some(v)) if !v.is_empty() => Some(v),
        _ => None,
    }
}

/// One or more valid wire frames (the encoder may split) for a random message under `desc`.
pub fn gen_valid(r: &mut Rng, desc: &CodecDesc) -> Vec<u8> {
    let enh = r.chance(1, 8);
    let mut codec = build_enc_codec(desc, enh);
    for _ in 0..8 {
        let m = match r.below(20) {
            0 | 1 => Message::Open(Open {
                as_number: *r.pick(&ASNS),
                holdtime: HoldTime::new(*r.pick(&[0u16, 3, 90, 65535])).unwrap(),
                router_id: *r.pick(&[1u32, 0x0a000001, 0xdfffffff, 0xf0000001]),
                capability: gen_caps(r),
            }),
            2 => Message::Keepalive,
            3 => {
                let (c, s) = *r.pick(&[(1u8, 2u8), (2, 2), (3, 1), (3, 5), (4, 0), (4, 9), (5, 1), (6, 2), (6, 9), (7, 1), (9, 9), (0, 0)]);
                let data: Vec<u8> = (0..r.below(6)).map(|i| i as u8).collect();
                Message::Notification(Notification::from_notification(c, s, data))
            }
            4 => Message::RouteRefresh { family: if r.chance(1, 2) { Family::IPV4 } else { Family::IPV6 } },
            5 => Message::Update(Update::EndOfRib(*r.pick(&[Family::IPV4, Family::IPV6, Family::IPV4_MC]))),
            6 | 7 => Message::Update(Update::Unreach { family: Family::IPV4, entries: gen_entries(r, false) }),
            8 => Message::Update(Update::Unreach { family: Family::IPV6, entries: gen_entries(r, true) }),
            9..=14 => Message::Update(Update::Reach {
                family: if r.chance(9, 10) { Family::IPV4 } else { Family::IPV4_MC },
                entries: gen_entries(r, false),
                nexthop: if enh && r.chance(1, 2) {
                    Some(Nexthop::V6(Ipv6Addr::from(V6_POOL[4].0)))
                } else {
                    Some(Nexthop::V4(Ipv4Addr::new(10, 0, 0, *r.pick(&[1u8, 2]))))
                },
                attr: { let w = r.chance(19, 20); Arc::new(gen_attrs(r, w)) },
            }),
            _ => Message::Update(Update::Reach {
                family: if r.chance(9, 10) { Family::IPV6 } else { Family::IPV6_MC },
                entries: gen_entries(r, true),
                nexthop: Some(match r.below(3) {
                    0 => Nexthop::V6LinkLocal(Ipv6Addr::from(V6_POOL[4].0), Ipv6Addr::from(V6_POOL[5].0)),
                    _ => Nexthop::V6(Ipv6Addr::from(V6_POOL[4].0)),
                }),
                attr: { let w = r.chance(19, 20); Arc::new(gen_attrs(r, w)) },
            }),
        };
        if let Some(v) = encode(&mut codec, &m) {
            return v;
        }
    }
    // KEEPALIVE as a last resort
    let mut v = vec![0xff; 16];
    v.extend_from_slice(&[0, 19, 4]);
    v
}

// ------------------------------------------------------------------ raw builders (for things the encoder never emits)
pub fn raw_attr(flags: u8, code: u8, data: &[u8]) -> Vec<u8> {
    let mut v = vec![flags, code];
    if flags & 0x10 != 0 {
        v.extend_from_slice(&(data.len() as u16).to_be_bytes());
    } else {
        v.push(data.len() as u8);
    }
    v.extend_from_slice(data);
    v
}

pub fn raw_update(withdrawn: &[u8], attrs: &[u8], nlri: &[u8]) -> Vec<u8> {
    let total = 23 + withdrawn.len() + attrs.len() + nlri.len();
    let mut v = vec![0xff; 16];
    v.extend_from_slice(&(total as u16).to_be_bytes());
    v.push(2);
    v.extend_from_slice(&(withdrawn.len() as u16).to_be_bytes());
    v.extend_from_slice(withdrawn);
    v.extend_from_slice(&(attrs.len() as u16).to_be_bytes());
    v.extend_from_slice(attrs);
    v.extend_from_slice(nlri);
    v
}

pub fn raw_frame(typ: u8, body: &[u8]) -> Vec<u8> {
    let mut v = vec![0xff; 16];
    v.extend_from_slice(&((19 + body.len()) as u16).to_be_bytes());
    v.push(typ);
    v.extend_from_slice(body);
    v
}

fn v4_nlri_bytes(r: &mut Rng, addpath: bool, n: usize) -> Vec<u8> {
    let mut v = Vec::new();
    for _ in 0..n {
        if addpath {
            v.extend_from_slice(&(r.below(3) as u32).to_be_bytes());
        }
        let (a, m) = r.pick(&V4_POOL);
        v.push(*m);
        v.extend_from_slice(&a[..(*m as usize).div_ceil(8)]);
    }
    v
}

fn v6_nlri_bytes(r: &mut Rng, addpath: bool, n: usize) -> Vec<u8> {
    let mut v = Vec::new();
    for _ in 0..n {
        if addpath {
            v.extend_from_slice(&(r.below(3) as u32).to_be_bytes());
        }
        let (a, m) = r.pick(&V6_POOL);
        v.push(*m);
        v.extend_from_slice(&a[..(*m as usize).div_ceil(8)]);
    }
    v
}

fn as2_path(r: &mut Rng) -> Vec<u8> {
    let mut out = Vec::new();
    for _ in 0..r.below(3) {
        let c = r.below(4) as usize;
        out.push(*r.pick(&[2u8, 2, 1, 3]));
        out.push(c as u8);
        for _ in 0..c {
            out.extend_from_slice(&r.pick(&[1u16, 65001, 23456, 65535]).to_be_bytes());
        }
    }
    out
}

fn as4_path(r: &mut Rng) -> Vec<u8> {
    let mut out = Vec::new();
    for _ in 0..1 + r.below(2) {
        let c = 1 + r.below(3) as usize;
        out.push(*r.pick(&[2u8, 2, 1]));
        out.push(c as u8);
        for _ in 0..c {
            out.extend_from_slice(&r.pick(&ASNS).to_be_bytes());
        }
    }
    out
}

/// Hand-assembled UPDATE: attribute order, duplicates, AS4_*, MP_* next-hop lengths, both NLRI encodings at once.
pub fn gen_raw_update(r: &mut Rng, desc: &CodecDesc) -> Vec<u8> {
    let ap = |afi: u16, safi: u8| desc.fams.iter().find(|f| f.0 == afi && f.1 == safi).map(|f| f.2).unwrap_or(false);
    let mut attrs: Vec<Vec<u8>> = Vec::new();
    if r.chance(9, 10) {
        attrs.push(raw_attr(0x40, 1, &[r.below(3) as u8]));
    }
    if r.chance(9, 10) {
        let p = if desc.two { as2_path(r) } else { as_path_bin(r) };
        attrs.push(raw_attr(*r.pick(&[0x40u8, 0x40, 0x50]), 2, &p));
    }
    let has_nlri = r.chance(2, 3);
    if has_nlri && r.chance(9, 10) {
        attrs.push(raw_attr(0x40, 3, &[10, 0, 0, 1]));
    }
    if r.chance(1, 3) {
        attrs.push(raw_attr(0x80, 4, &[0, 0, 0, 5]));
    }
    if r.chance(1, 3) {
        attrs.push(raw_attr(0x40, 5, &[0, 0, 0, 100]));
    }
    if r.chance(1, 3) {
        // AGGREGATOR in 6- or 8-byte form, possibly AS_TRANS
        let asn = *r.pick(&[23456u32, 65001, 65536]);
        let mut d = if r.chance(1, 2) { (asn as u16).to_be_bytes().to_vec() } else { asn.to_be_bytes().to_vec() };
        d.extend_from_slice(&[10, 0, 0, 9]);
        attrs.push(raw_attr(0xc0, 7, &d));
    }
    if r.chance(1, 3) {
        attrs.push(raw_attr(0xc0, 17, &as4_path(r)));
    }
    if r.chance(1, 4) {
        let mut d = r.pick(&ASNS).to_be_bytes().to_vec();
        d.extend_from_slice(&[10, 0, 0, 9]);
        attrs.push(raw_attr(0xc0, 18, &d));
    }
    if r.chance(1, 4) {
        // MP_REACH for IPv6 / IPv4 with every next-hop length the code distinguishes
        let (afi, safi) = *r.pick(&[(2u16, 1u8), (2, 1), (1, 1), (2, 2), (1, 128), (3, 1)]);
        let nhl = *r.pick(&[16usize, 16, 32, 4, 12, 24, 0, 5, 255]);
        let mut d = afi.to_be_bytes().to_vec();
        d.push(safi);
        d.push(nhl as u8);
        let room = if r.chance(9, 10) { nhl } else { nhl / 2 };
        d.extend((0..room).map(|i| if i < 8 { 0 } else { 0x20u8.wrapping_add(i as u8) }));
        if r.chance(19, 20) {
            d.push(0);
        }
        let k = r.below(3) as usize;
        d.extend(if afi == 2 { v6_nlri_bytes(r, ap(afi, safi), k) } else { v4_nlri_bytes(r, ap(afi, safi), k) });
        attrs.push(raw_attr(*r.pick(&[0x80u8, 0x80, 0x90, 0xc0, 0x40]), 14, &d));
    }
    if r.chance(1, 4) {
        let (afi, safi) = *r.pick(&[(2u16, 1u8), (2, 1), (1, 1), (2, 2), (25, 70)]);
        let mut d = afi.to_be_bytes().to_vec();
        d.push(safi);
        let k = r.below(3) as usize;
        d.extend(if afi == 2 { v6_nlri_bytes(r, ap(afi, safi), k) } else { v4_nlri_bytes(r, ap(afi, safi), k) });
        attrs.push(raw_attr(*r.pick(&[0x80u8, 0x80, 0x90, 0xc0]), 15, &d));
    }
    if r.chance(1, 5) {
        // unknown attribute in each flag class
        let fl = *r.pick(&[0xc0u8, 0x80, 0x40, 0x00, 0xe0]);
        attrs.push(raw_attr(fl, *r.pick(&[99u8, 0, 255, 13]), &[1, 2, 3]));
    }
    if r.chance(1, 5) && !attrs.is_empty() {
        // duplicate one
        let i = r.below(attrs.len() as u64) as usize;
        let d = attrs[i].clone();
        let at = r.below(attrs.len() as u64 + 1) as usize;
        attrs.insert(at, d);
    }
    if r.chance(1, 6) {
        // shuffle order a little
        let n = attrs.len();
        if n >= 2 {
            let i = r.below(n as u64) as usize;
            let j = r.below(n as u64) as usize;
            attrs.swap(i, j);
        }
    }
    let attrs: Vec<u8> = attrs.concat();
    let wn = if r.chance(1, 3) { 1 + r.below(3) as usize } else { 0 };
    let withdrawn = v4_nlri_bytes(r, ap(1, 1), wn);
    let nn = if has_nlri { 1 + r.below(3) as usize } else { 0 };
    let nlri = v4_nlri_bytes(r, ap(1, 1), nn);
    raw_update(&withdrawn, &attrs, &nlri)
}

// ------------------------------------------------------------------ layout walker: where the length / flag fields are
#[derive(Default, Debug)]
pub struct Layout {
    /// (offset, width in bytes)
    pub lens: Vec<(usize, usize)>,
    pub flags: Vec<usize>,
    /// (start, end) of whole attributes / capabilities (for duplication / deletion)
    pub items: Vec<(usize, usize)>,
    /// prefix-length octets of NLRI entries
    pub plens: Vec<usize>,
}

fn walk_nlri(b: &[u8], mut p: usize, end: usize, addpath: bool, lay: &mut Layout) {
    while p < end {
        if addpath {
            p += 4;
        }
        if p >= end {
            break;
        }
        lay.plens.push(p);
        p += 1 + (b[p] as usize).div_ceil(8);
    }
}

pub fn layout(b: &[u8], addpath4: bool, addpath6: bool) -> Layout {
    let mut lay = Layout::default();
    if b.len() < 19 {
        return lay;
    }
    lay.lens.push((16, 2));
    match b[18] {
        1 => {
            if b.len() >= 29 {
                lay.lens.push((28, 1));
                let mut p = 29;
                while p + 2 <= b.len() {
                    lay.lens.push((p + 1, 1));
                    let oend = (p + 2 + b[p + 1] as usize).min(b.len());
                    let mut q = p + 2;
                    while q + 2 <= oend {
                        lay.lens.push((q + 1, 1));
                        let cend = (q + 2 + b[q + 1] as usize).min(oend);
                        lay.items.push((q, cend));
                        // inner length octets of the capability value: FQDN host / domain lengths
                        if b[q] == 73 && q + 3 <= cend {
                            lay.lens.push((q + 2, 1));
                            let d = q + 3 + b[q + 2] as usize;
                            if d < cend {
                                lay.lens.push((d, 1));
                            }
                        }
                        q = cend;
                    }
                    p = oend;
                }
            }
        }
        2 => {
            if b.len() >= 23 {
                lay.lens.push((19, 2));
                let wl = ((b[19] as usize) << 8) | b[20] as usize;
                walk_nlri(b, 21, (21 + wl).min(b.len()), addpath4, &mut lay);
                let ap = 21 + wl;
                if ap + 2 <= b.len() {
                    lay.lens.push((ap, 2));
                    let al = ((b[ap] as usize) << 8) | b[ap + 1] as usize;
                    let aend = (ap + 2 + al).min(b.len());
                    let mut p = ap + 2;
                    while p + 3 <= aend {
                        lay.flags.push(p);
                        let ext = b[p] & 0x10 != 0;
                        let (l, hdr) = if ext {
                            if p + 4 > aend {
                                break;
                            }
                            lay.lens.push((p + 2, 2));
                            (((b[p + 2] as usize) << 8) | b[p + 3] as usize, 4)
                        } else {
                            lay.lens.push((p + 2, 1));
                            (b[p + 2] as usize, 3)
                        };
                        let e = (p + hdr + l).min(aend);
                        lay.items.push((p, e));
                        if b[p + 1] == 14 && p + hdr + 4 <= e {
                            lay.lens.push((p + hdr + 3, 1));
                            let nh = b[p + hdr + 3] as usize;
                            let v6 = b[p + hdr + 1] == 2;
                            walk_nlri(b, (p + hdr + 5 + nh).min(e), e, if v6 { addpath6 } else { addpath4 }, &mut lay);
                        }
                        if b[p + 1] == 15 && p + hdr + 3 <= e {
                            let v6 = b[p + hdr + 1] == 2;
                            walk_nlri(b, p + hdr + 3, e, if v6 { addpath6 } else { addpath4 }, &mut lay);
                        }
                        if b[p + 1] == 26 && p + hdr + 3 <= e {
                            lay.lens.push((p + hdr + 1, 2));
                        }
                        if b[p + 1] == 2 || b[p + 1] == 17 {
                            // segment count octets
                            let mut q = p + hdr;
                            while q + 2 <= e {
                                lay.lens.push((q + 1, 1));
                                q += 2 + b[q + 1] as usize * 4;
                            }
                        }
                        p = e;
                    }
                    walk_nlri(b, aend, b.len(), addpath4, &mut lay);
                }
            }
        }
        _ => {}
    }
    lay
}

fn set_len(b: &mut [u8], off: usize, w: usize, v: usize) {
    if w == 1 {
        b[off] = v as u8;
    } else {
        b[off] = (v >> 8) as u8;
        b[off + 1] = v as u8;
    }
}

fn get_len(b: &[u8], off: usize, w: usize) -> usize {
    if w == 1 { b[off] as usize } else { ((b[off] as usize) << 8) | b[off + 1] as usize }
}

fn boundary(r: &mut Rng, cur: usize, w: usize) -> usize {
    let max = if w == 1 { 255 } else { 65535 };
    match r.below(12) {
        0 => 0,
        1 => cur.saturating_sub(1),
        2 => (cur + 1).min(max),
        3 => max,
        4 => max - 1,
        5 => cur.saturating_sub(2),
        6 => (cur + 2).min(max),
        7 => 1,
        8 => (cur * 2).min(max),
        9 => cur / 2,
        10 => max - 22, // makes `x + 23` wrap in 16 bits
        _ => r.below(max as u64 + 1) as usize,
    }
}

/// One structural mutation of a (mostly) valid BGP frame.
pub fn mutate_bgp(r: &mut Rng, msg: &[u8], ap4: bool, ap6: bool, ext: bool) -> Vec<u8> {
    let mut b = msg.to_vec();
    let lay = layout(&b, ap4, ap6);
    let fix_header = |b: &mut Vec<u8>| {
        if b.len() >= 19 {
            let l = b.len().min(65535);
            b[16] = (l >> 8) as u8;
            b[17] = l as u8;
        }
    };
    let pickm = if b.len() >= 29 && b[18] == 1 && r.chance(1, 3) { 15 } else { r.below(17) };
    match pickm {
        0..=4 if !lay.lens.is_empty() => {
            // boundary value in one length field
            let (off, w) = *r.pick(&lay.lens);
            if off + w <= b.len() {
                let cur = get_len(&b, off, w);
                let v = boundary(r, cur, w);
                set_len(&mut b, off, w, v);
            }
        }
        5 if lay.lens.len() >= 2 => {
            // two fields that disagree / sums that wrap
            for _ in 0..2 {
                let (off, w) = *r.pick(&lay.lens);
                if off + w <= b.len() {
                    let cur = get_len(&b, off, w);
                    let v = boundary(r, cur, w);
                    set_len(&mut b, off, w, v);
                }
            }
        }
        6 => {
            // truncate, keep the header length (need-more) or make the frame "complete"
            if b.len() > 1 {
                let cut = 1 + r.below(b.len() as u64 - 1) as usize;
                b.truncate(cut);
                if r.chance(2, 3) {
                    fix_header(&mut b);
                }
            }
        }
        7 => {
            // append bytes
            let n = 1 + r.below(8) as usize;
            for _ in 0..n {
                b.push(r.below(256) as u8);
            }
            if r.chance(2, 3) {
                fix_header(&mut b);
            }
        }
        8 if !lay.items.is_empty() => {
            // duplicate an attribute / capability (enclosing lengths fixed up when cheap)
            let (s, e) = *r.pick(&lay.items);
            let dup = b[s..e].to_vec();
            let at = r.pick(&lay.items).0;
            let grow = dup.len();
            b.splice(at..at, dup);
            if b[18] == 2 && b.len() >= 23 {
                let wl = get_len(&b, 19, 2);
                let ap = 21 + wl;
                if ap + 2 <= b.len() {
                    let al = get_len(&b, ap, 2);
                    set_len(&mut b, ap, 2, (al + grow).min(65535));
                }
            }
            fix_header(&mut b);
        }
        9 if !lay.items.is_empty() => {
            // delete an attribute / capability
            let (s, e) = *r.pick(&lay.items);
            let shrink = e - s;
            b.drain(s..e);
            if b[18] == 2 && b.len() >= 23 {
                let wl = get_len(&b, 19, 2);
                let ap = 21 + wl;
                if ap + 2 <= b.len() {
                    let al = get_len(&b, ap, 2);
                    set_len(&mut b, ap, 2, al.saturating_sub(shrink));
                }
            }
            fix_header(&mut b);
        }
        10 if !lay.flags.is_empty() => {
            // flip one attribute flag bit
            let off = *r.pick(&lay.flags);
            b[off] ^= 1 << (4 + r.below(4));
        }
        11 if !lay.plens.is_empty() => {
            let off = *r.pick(&lay.plens);
            b[off] = *r.pick(&[0u8, 1, 7, 8, 9, 24, 25, 32, 33, 64, 128, 129, 255]);
        }
        12 => {
            // message type
            if b.len() >= 19 {
                b[18] = *r.pick(&[0u8, 1, 2, 3, 4, 5, 6, 255]);
            }
        }
        13 => {
            // header length boundary values
            if b.len() >= 19 {
                let v = *r.pick(&[0usize, 18, 19, 20, 22, 23, 28, 29, 4095, 4096, 4097, 65535, b.len() + 1, b.len().saturating_sub(1)]);
                set_len(&mut b, 16, 2, v.min(65535));
            }
        }
        14 if r.chance(1, if ext { 12 } else { 3 }) => {
            // pad the frame up to just below / at / above the maximum message size
            let max = if ext { 65535 } else { 4096 };
            let target = *r.pick(&[max - 1, max, max + 1]);
            if b.len() < target && target <= 65535 + 1 {
                b.resize(target.min(70000), 0);
                fix_header(&mut b);
            }
        }
        15 if b.len() >= 29 && b[18] == 1 => {
            // OPEN fixed fields: version, hold time 1/2, unusable BGP identifiers, a non-capability optional parameter
            match r.below(4) {
                0 => b[19] = *r.pick(&[0u8, 3, 5, 255]),
                1 => {
                    b[22] = 0;
                    b[23] = *r.pick(&[1u8, 2]);
                }
                2 => {
                    let rid = *r.pick(&[0u32, 0xffffffff, 0xe0000001, 0xefffffff]);
                    b[24..28].copy_from_slice(&rid.to_be_bytes());
                }
                _ => {
                    if b.len() >= 31 {
                        b[29] = *r.pick(&[0u8, 1, 3, 255]);
                    }
                }
            }
        }
        _ => {
            // random byte pokes
            for _ in 0..1 + r.below(3) {
                if !b.is_empty() {
                    let i = r.below(b.len() as u64) as usize;
                    b[i] = r.below(256) as u8;
                }
            }
        }
    }
    b
}

pub fn fragment(r: &mut Rng, stream: &[u8]) -> Vec<Vec<u8>> {
    if stream.is_empty() {
        return vec![vec![]];
    }
    match r.below(6) {
        0 | 1 => vec![stream.to_vec()],
        2 if stream.len() <= 80 => stream.iter().map(|b| vec![*b]).collect(),
        _ => {
            let k = 1 + r.below(5) as usize;
            let mut cuts: Vec<usize> = (0..k)
                .map(|_| match r.below(4) {
                    0 => r.below(20.min(stream.len() as u64 + 1)) as usize, // inside the first header
                    _ => r.below(stream.len() as u64 + 1) as usize,
                })
                .collect();
            cuts.push(0);
            cuts.push(stream.len());
            cuts.sort();
            cuts.dedup();
            let mut out: Vec<Vec<u8>> = cuts.windows(2).map(|w| stream[w[0]..w[1]].to_vec()).collect();
            if r.chance(1, 6) {
                out.insert(r.below(out.len() as u64 + 1) as usize, vec![]); // an empty read
            }
            out
        }
    }
}

fn chunks_term(chunks: &[Vec<u8>]) -> String {
    let v: Vec<String> = chunks.iter().map(|c| hex(c)).collect();
    format!("(chunks {})", v.join(" "))
}

pub fn gen_bgp_case(r: &mut Rng) -> String {
    let desc = gen_codec(r);
    let ap4 = desc.fams.iter().any(|f| f.0 == 1 && f.1 == 1 && f.2);
    let ap6 = desc.fams.iter().any(|f| f.0 == 2 && f.1 == 1 && f.2);
    let nmsg = *r.pick(&[1usize, 1, 1, 2, 3, 4]);
    let mut stream = Vec::new();
    for _ in 0..nmsg {
        let base = if r.chance(1, 3) { gen_raw_update(r, &desc) } else { gen_valid(r, &desc) };
        let m = match r.below(10) {
            0..=3 => base,
            4..=8 => {
                // mutate the first frame of what the encoder produced
                mutate_bgp(r, &base, ap4, ap6, desc.ext)
            }
            _ => {
                let once = mutate_bgp(r, &base, ap4, ap6, desc.ext);
                mutate_bgp(r, &once, ap4, ap6, desc.ext)
            }
        };
        stream.extend_from_slice(&m);
        if stream.len() > 140000 {
            break;
        }
    }
    let chunks = fragment(r, &stream);
    format!("(bgp {} {})", desc.term(), chunks_term(&chunks))
}

// ------------------------------------------------------------------ exploration of the hypothesis-backed NLRI families
pub fn nlri_seeds() -> Vec<(u16, u8, String, Vec<u8>)> {
    let mut v = Vec::new();
    for l in NLRI_SEEDS.lines() {
        let l = l.split(';').next().unwrap().trim();
        if l.is_empty() || l.starts_with('#') {
            continue;
        }
        let f: Vec<&str> = l.split_whitespace().collect();
        if f.len() != 4 {
            continue;
        }
        if let (Ok(a), Ok(s), Some(b)) = (f[0].parse::<u16>(), f[1].parse::<u8>(), unhex(f[3])) {
            v.push((a, s, f[2].to_string(), b));
        }
    }
    v
}

fn mutate_nlri(r: &mut Rng, n: &[u8]) -> Vec<u8> {
    let mut b = n.to_vec();
    match r.below(10) {
        0 | 1 => {}
        2 => {
            if !b.is_empty() {
                let k = r.below(b.len() as u64) as usize;
                b.truncate(k);
            }
        }
        3 | 4 => {
            // poke one of the leading (length / type) octets with a boundary value
            if !b.is_empty() {
                let i = r.below(4.min(b.len() as u64)) as usize;
                b[i] = *r.pick(&[0u8, 1, 2, 3, 4, 5, 6, 7, 8, 23, 24, 25, 32, 33, 64, 87, 88, 89, 99, 120, 127, 128, 129, 216, 254, 255]);
            }
        }
        5 => {
            for _ in 0..1 + r.below(3) {
                if !b.is_empty() {
                    let i = r.below(b.len() as u64) as usize;
                    b[i] = r.below(256) as u8;
                }
            }
        }
        6 => {
            // clear bottom-of-stack bits / set all bits: long label stacks (S7)
            let k = *r.pick(&[1usize, 7, 8, 9, 10, 11, 31, 32, 33, 85, 86]);
            let head = b.first().copied().unwrap_or(0);
            let mut v = vec![*r.pick(&[head, 255, 0, 88, 216, 24])];
            for i in 0..k {
                v.extend_from_slice(&[0, 1, if i + 1 == k { 0x11 } else { 0x10 }]);
            }
            v.extend_from_slice(if b.len() > 4 { &b[4..] } else { &[] });
            b = v;
        }
        7 => {
            let n = 1 + r.below(6) as usize;
            for _ in 0..n {
                b.push(r.below(256) as u8);
            }
        }
        8 => {
            if b.len() >= 2 {
                let i = r.below(b.len() as u64 - 1) as usize;
                b.remove(i);
            }
        }
        _ => {
            if !b.is_empty() {
                let i = r.below(b.len() as u64) as usize;
                b[i] ^= 1 << r.below(8);
            }
        }
    }
    b
}

pub fn gen_xbgp_case(r: &mut Rng, seeds: &[(u16, u8, String, Vec<u8>)]) -> String {
    let (afi, safi, dir, nl) = r.pick(seeds).clone();
    let addpath = r.chance(1, 4);
    let desc = CodecDesc {
        ext: r.chance(1, 2),
        two: r.chance(1, 4),
        fams: if afi == 1 && safi == 1 { vec![(1, 1, addpath)] } else { vec![(1, 1, false), (afi, safi, addpath)] },
    };
    // sometimes more than one family besides IPv4 unicast is negotiated
    let mut desc = desc;
    if r.chance(1, 3) {
        for _ in 0..1 + r.below(2) {
            let o = r.pick(seeds);
            if !desc.fams.iter().any(|f| f.0 == o.0 && f.1 == o.1) {
                let oap = r.chance(1, 4);
                desc.fams.push((o.0, o.1, oap));
            }
        }
    }
    let reach = match dir.as_str() {
        "unreach" => false,
        "reach" => true,
        _ => r.chance(2, 3),
    };
    let k = *r.pick(&[1usize, 1, 2, 3]);
    let mut nlri = Vec::new();
    for i in 0..k {
        if addpath {
            nlri.extend_from_slice(&(i as u32).to_be_bytes());
        }
        let base = if i == 0 || r.chance(1, 2) {
            nl.clone()
        } else {
            // another seed of the same family
            let same: Vec<&(u16, u8, String, Vec<u8>)> = seeds.iter().filter(|s| s.0 == afi && s.1 == safi).collect();
            r.pick(&same).3.clone()
        };
        nlri.extend(if r.chance(1, 3) { base } else { mutate_nlri(r, &base) });
    }
    let mut attrs = Vec::new();
    attrs.extend(raw_attr(0x40, 1, &[0]));
    attrs.extend(raw_attr(0x40, 2, &[]));
    let mut d = afi.to_be_bytes().to_vec();
    d.push(safi);
    if reach {
        let nhl: usize = match (afi, safi) {
            (_, 133) | (_, 134) => 0,
            (1, 128) => 12,
            (2, 128) => 24,
            (2, _) => 16,
            (16388, _) | (25, _) => 4,
            _ => 4,
        };
        d.push(nhl as u8);
        d.extend((0..nhl).map(|i| if nhl >= 12 && nhl != 16 && i < 8 { 0 } else { 1 + i as u8 }));
        d.push(0);
        d.extend_from_slice(&nlri);
        let fl = if d.len() > 255 { 0x90 } else { 0x80 };
        attrs.extend(raw_attr(fl, 14, &d));
    } else {
        d.extend_from_slice(&nlri);
        let fl = if d.len() > 255 { 0x90 } else { 0x80 };
        attrs.extend(raw_attr(fl, 15, &d));
    }
    let mut stream = raw_update(&[], &attrs, &[]);
    if r.chance(1, 10) {
        stream.extend(raw_frame(4, &[]));
    }
    let chunks = if r.chance(3, 4) { vec![stream] } else { fragment(r, &stream) };
    // families whose NLRI decoder is transcribed (phase 2) are diffed against the model like any `bgp` case
    let tag = if desc.all_modelled() { "bgp" } else { "xbgp" };
    format!("({} {} {})", tag, desc.term(), chunks_term(&chunks))
}

// ------------------------------------------------------------------ RTR
fn rtr_valid(r: &mut Rng) -> Vec<u8> {
    use rpki::Message as M;
    let version = *r.pick(&[0u8, 1, 1, 2]);
    let m = match r.below(9) {
        0 => M::SerialNotify { session_id: 7, serial_number: *r.pick(&[0u32, 1, 4294967295]) },
        1 => M::SerialQuery { session_id: 7, serial_number: 3 },
        2 => M::ResetQuery,
        3 => M::CacheResponse { session_id: *r.pick(&[0u16, 7, 65535]) },
        4 => M::IpPrefix(rpki::Prefix {
            net: rustybgp_packet::IpNet::V4(Ipv4Net { addr: Ipv4Addr::new(10, 1, 0, 0), mask: *r.pick(&[16u8, 24, 0, 32, 33]) }),
            flags: r.below(2) as u8,
            max_length: *r.pick(&[16u8, 24, 32]),
            as_number: *r.pick(&ASNS),
        }),
        5 => M::IpPrefix(rpki::Prefix {
            net: rustybgp_packet::IpNet::V6(Ipv6Net { addr: Ipv6Addr::from(V6_POOL[0].0), mask: *r.pick(&[32u8, 48, 128]) }),
            flags: r.below(2) as u8,
            max_length: *r.pick(&[32u8, 64, 128]),
            as_number: *r.pick(&ASNS),
        }),
        6 => M::EndOfData { session_id: 7, serial_number: 9, refresh_interval: 3600, retry_interval: 600, expire_interval: 7200 },
        7 => M::CacheReset,
        _ => M::ErrorReport { error_code: *r.pick(&[0u16, 2, 8]) },
    };
    let mut codec = rpki::RtrCodec::with_version(version);
    let mut b = BytesMut::new();
    codec.encode(&m, &mut b).unwrap();
    b.to_vec()
}

fn rtr_mutate(r: &mut Rng, p: &[u8]) -> Vec<u8> {
    let mut b = p.to_vec();
    let put_len = |b: &mut Vec<u8>, v: u32| {
        if b.len() >= 8 {
            b[4..8].copy_from_slice(&v.to_be_bytes());
        }
    };
    let n = b.len() as u32;
    match r.below(12) {
        0 => put_len(&mut b, 0),
        1 => put_len(&mut b, *r.pick(&[1u32, 4, 7])),
        2 => put_len(&mut b, 8),
        3 => put_len(&mut b, n.saturating_sub(1)),
        4 => put_len(&mut b, n + 1),
        5 => put_len(&mut b, *r.pick(&[65536u32, 0x7fffffff, 0xffffffff])),
        6 => {
            if b.len() >= 2 {
                b[1] = *r.pick(&[5u8, 9, 11, 12, 255, 4, 6, 7, 0]);
            }
        }
        7 => {
            if b.len() > 1 {
                let k = 1 + r.below(b.len() as u64 - 1) as usize;
                b.truncate(k);
            }
        }
        8 => {
            // body longer than declared
            for _ in 0..1 + r.below(6) {
                b.push(r.below(256) as u8);
            }
        }
        9 => {
            // error report with an encapsulated PDU and text (RFC 8210 5.11): longer than 8 bytes
            b = vec![1, 10, 0, 2, 0, 0, 0, 24, 0, 0, 0, 8, 1, 2, 0, 0, 0, 0, 0, 8, 0, 0, 0, 0];
        }
        10 => {
            if !b.is_empty() {
                b[0] = *r.pick(&[0u8, 1, 2, 255]);
            }
        }
        _ => {
            if !b.is_empty() {
                let i = r.below(b.len() as u64) as usize;
                b[i] = r.below(256) as u8;
            }
        }
    }
    b
}

pub fn gen_rtr_case(r: &mut Rng) -> String {
    let n = *r.pick(&[1usize, 1, 2, 3, 5]);
    let mut stream = Vec::new();
    for _ in 0..n {
        let v = rtr_valid(r);
        let v = if r.chance(1, 2) { v } else { rtr_mutate(r, &v) };
        stream.extend(v);
    }
    let chunks = fragment(r, &stream);
    format!("(rtr {})", chunks_term(&chunks))
}

// ------------------------------------------------------------------ BFD
pub fn gen_bfd_case(r: &mut Rng) -> String {
    let m = bfd::Message {
        diagnostic: bfd::Diagnostic(r.below(32) as u8),
        state: *r.pick(&[bfd::State::AdminDown, bfd::State::Down, bfd::State::Init, bfd::State::Up]),
        poll: r.chance(1, 2),
        final_: r.chance(1, 2),
        control_plane_independent: r.chance(1, 2),
        demand: r.chance(1, 2),
        detect_multiplier: *r.pick(&[0u8, 3, 255]),
        my_discriminator: *r.pick(&[0u32, 1, 0x12345678, 0xffffffff]),
        your_discriminator: *r.pick(&[0u32, 1, 0xabcdef12]),
        desired_min_tx_interval: *r.pick(&[0u32, 100000, 0xffffffff]),
        required_min_rx_interval: 200000,
        required_min_echo_rx_interval: 0,
    };
    let mut b = m.encode().unwrap();
    match r.below(10) {
        0..=2 => {}
        3 => b[3] = *r.pick(&[0u8, 23, 25, 26, 255]),
        4 => b[0] = (b[0] & 0x1f) | ((r.below(8) as u8) << 5),
        5 => {
            let k = r.below(b.len() as u64 + 1) as usize;
            b.truncate(k);
        }
        6 => {
            // authentication section present (A bit) with a longer packet and matching length octet
            b[1] |= 0x04;
            let extra = 1 + r.below(8) as usize;
            b.extend((0..extra).map(|i| i as u8));
            if r.chance(3, 4) {
                b[3] = b.len() as u8;
            }
        }
        7 => {
            b = (0..*r.pick(&[0usize, 1, 3, 4, 23, 24, 25, 255, 256, 300])).map(|_| r.below(256) as u8).collect();
            if b.len() >= 4 && r.chance(1, 2) {
                b[3] = b.len() as u8;
                b[0] = 0x20 | (b[0] & 0x1f);
            }
        }
        8 => b[1] = r.below(256) as u8,
        _ => {
            let i = r.below(b.len() as u64) as usize;
            b[i] = r.below(256) as u8;
        }
    }
    format!("(bfd {})", hex(&b))
}

// ------------------------------------------------------------------ C03 stream
pub fn gen_c03(seed: u64, n: usize, tier: &str) -> Vec<String> {
    let mut r = Rng(seed.wrapping_mul(0x9E3779B97F4A7C15) ^ 0xC03);
    let seeds = nlri_seeds();
    let mut out = Vec::new();
    // n counts the model-backed cases; the hypothesis-backed exploration stream gets `xf` times as many
    let xf = if tier == "thorough" { 10 } else { 10 };
    let n_bgp = n * 70 / 100;
    let n_rtr = n * 20 / 100;
    let n_bfd = n - n_bgp - n_rtr;
    for _ in 0..n_bgp {
        out.push(gen_bgp_case(&mut r));
    }
    for _ in 0..n_rtr {
        out.push(gen_rtr_case(&mut r));
    }
    for _ in 0..n_bfd {
        out.push(gen_bfd_case(&mut r));
    }
    if !seeds.is_empty() {
        for _ in 0..n_bgp * xf {
            out.push(gen_xbgp_case(&mut r, &seeds));
        }
    }
    // the lazily-run attribute-body parsers (impl-only)
    for _ in 0..n_bgp * 2 {
        out.push(crate::wireattr::gen_attr_case(&mut r));
    }
    out
}

// ------------------------------------------------------------------ C05: valid UPDATE + RFC 7606 corruptions
fn pfx_term(id: u32, mask: u8, addr: &[u8]) -> String {
    format!("({} {} {})", id, mask, Term::bytes(&addr[..(mask as usize).div_ceil(8)]))
}

fn c05_v4(r: &mut Rng, addpath: bool, n: usize) -> Vec<String> {
    (0..n)
        .map(|_| {
            let (a, m) = r.pick(&V4_POOL);
            pfx_term(if addpath { *r.pick(&[0u32, 1, 7]) } else { 0 }, *m, a)
        })
        .collect()
}

fn c05_v6(r: &mut Rng, addpath: bool, n: usize) -> Vec<String> {
    (0..n)
        .map(|_| {
            let (a, m) = r.pick(&V6_POOL);
            pfx_term(if addpath { *r.pick(&[0u32, 1, 7]) } else { 0 }, *m, a)
        })
        .collect()
}

/// a syntactically INVALID value for `code` (RFC 7606 length / value errors)
fn c05_bad_value(r: &mut Rng, code: u8, two: bool, old: &[u8]) -> Vec<u8> {
    let lens = |r: &mut Rng, ls: &[usize]| -> Vec<u8> {
        let l = *r.pick(ls);
        (0..l).map(|i| old.get(i).copied().unwrap_or(i as u8)).collect()
    };
    match code {
        1 => r.pick(&[vec![3u8], vec![255], vec![], vec![0, 0]]).clone(),
        2 => {
            let w = if two { 2 } else { 4 };
            match r.below(4) {
                0 => {
                    let mut v = vec![*r.pick(&[0u8, 5, 255]), 1];
                    v.extend(std::iter::repeat(1).take(w));
                    v
                }
                1 => {
                    // count runs past the end
                    let mut v = vec![2, 3];
                    v.extend(std::iter::repeat(1).take(w * 2));
                    v
                }
                2 => {
                    let mut v = old.to_vec();
                    v.push(2);
                    v
                }
                _ => {
                    let mut v = vec![2, 1];
                    v.extend(std::iter::repeat(1).take(w - 1));
                    v
                }
            }
        }
        3 => lens(r, &[0, 3, 5, 16, 32]),
        4 | 5 | 9 => lens(r, &[0, 3, 5, 8]),
        6 => lens(r, &[1, 4]),
        7 => lens(r, &[0, 5, 7, 9]),
        8 | 10 => lens(r, &[1, 3, 5, 6]),
        16 => lens(r, &[7, 9, 4]),
        32 => lens(r, &[11, 13, 4]),
        17 => r.pick(&[vec![2u8, 1, 0, 0], vec![2, 0, 0, 0, 0, 0], vec![2, 1, 0, 0, 0, 1, 9], vec![0, 1, 0, 0, 0, 1], vec![2, 2, 0, 0, 0, 1]]).clone(),
        18 => lens(r, &[0, 7, 9, 6]),
        26 => r.pick(&[vec![1u8, 0, 2], vec![1, 0, 11, 0, 0], vec![1, 0, 0], vec![1, 0]]).clone(),
        _ => lens(r, &[0, 1]),
    }
}

pub fn gen_c05_case(r: &mut Rng) -> String {
    // codec: IPv4 unicast nearly always, IPv6 unicast often
    let mut fams = vec![];
    let v4 = r.chance(19, 20);
    let v6 = r.chance(2, 3);
    if v4 {
        fams.push((1u16, 1u8, r.chance(1, 4)));
    }
    // the IPv6 family of the MP attributes: unicast mostly, multicast sometimes; IPv4 multicast for IPv4-in-MP
    let s6: u8 = if r.chance(1, 5) { 2 } else { 1 };
    let s4: u8 = if r.chance(1, 4) { 2 } else { 1 };
    if v6 {
        fams.push((2u16, s6, r.chance(1, 4)));
    }
    if fams.is_empty() {
        fams.push((1, 1, false));
    }
    if v4 && s4 == 2 {
        fams.push((1, 2, r.chance(1, 4)));
    }
    let desc = CodecDesc { ext: r.chance(1, 4), two: r.chance(1, 3), fams };
    let has4 = desc.fams.iter().any(|f| f.0 == 1);
    let has6 = desc.fams.iter().any(|f| f.0 == 2);
    let ap4 = desc.fams.iter().any(|f| f.0 == 1 && f.1 == 1 && f.2);
    let ap4m = desc.fams.iter().any(|f| f.0 == 1 && f.1 == s4 && f.2);
    let ap6 = desc.fams.iter().any(|f| f.0 == 2 && f.2);
    let ebgp = r.chance(1, 2);
    let two = desc.two;

    let legacy_nlri = has4 && r.chance(3, 5);
    let mp_reach = if has6 && r.chance(2, 5) { 6 } else if has4 && !legacy_nlri && r.chance(1, 6) { 4 } else { 0 };
    let announces = legacy_nlri || mp_reach != 0;
    let wd_n = if has4 && (r.chance(1, 3) || !announces) { 1 + r.below(2) as usize } else { 0 };
    let mp_unreach = has6 && (r.chance(1, 5) || (!announces && wd_n == 0));
    let wd = c05_v4(r, ap4, wd_n);
    let nn = 1 + r.below(3) as usize;
    let nlri = if legacy_nlri { c05_v4(r, ap4, nn) } else { vec![] };
    let mpr = match mp_reach {
        6 => {
            let nh: Vec<u8> = if r.chance(2, 3) { V6_POOL[4].0.to_vec() } else { [V6_POOL[4].0, V6_POOL[5].0].concat() };
            let k = 1 + r.below(2) as usize;
            format!("(mpr 2 {} {} {})", s6, Term::bytes(&nh), c05_v6(r, ap6, k).join(" "))
        }
        4 => {
            let k = 1 + r.below(2) as usize;
            format!("(mpr 1 {} x0a000001 {})", s4, c05_v4(r, ap4m, k).join(" "))
        }
        _ => "none".to_string(),
    };
    let ku = 1 + r.below(2) as usize;
    let mpu = if mp_unreach { format!("(mpu 2 {} {})", s6, c05_v6(r, ap6, ku).join(" ")) } else { "none".to_string() };
    let anything = announces || wd_n > 0 || mp_unreach;

    // attributes (flags, code, data)
    let mut attrs: Vec<(u8, u8, Vec<u8>)> = Vec::new();
    if announces || r.chance(1, 3) {
        attrs.push((0x40, 1, vec![r.below(3) as u8]));
        // RFC 7606 7.2: no empty segments in a valid path
        let mut p = Vec::new();
        for _ in 0..r.below(3) {
            let c = 1 + r.below(3) as usize;
            p.push(*r.pick(&[2u8, 2, 1, 3, 4]));
            p.push(c as u8);
            for _ in 0..c {
                if two {
                    p.extend_from_slice(&r.pick(&[1u16, 65001, 23456, 65535]).to_be_bytes());
                } else {
                    p.extend_from_slice(&r.pick(&ASNS).to_be_bytes());
                }
            }
        }
        attrs.push((0x40, 2, p));
    }
    if legacy_nlri {
        attrs.push((0x40, 3, vec![10, 0, 0, 1]));
    }
    if announces {
        if r.chance(1, 2) {
            attrs.push((0x80, 4, vec![0, 0, 0, *r.pick(&[0u8, 5, 100])]));
        }
        if r.chance(1, 2) {
            attrs.push((0x40, 5, vec![0, 0, 0, *r.pick(&[100u8, 200])]));
        }
        if r.chance(1, 6) {
            attrs.push((0x40, 6, vec![]));
        }
        if r.chance(1, 4) {
            let d = if r.chance(1, 2) { vec![0xfd, 0xe9, 10, 0, 0, 9] } else { vec![0, 0, 0xfd, 0xe9, 10, 0, 0, 9] };
            attrs.push((0xc0, 7, d));
        }
        if r.chance(1, 3) {
            attrs.push((0xc0, 8, vec![0xff, 0xff, 0xff, 0x01]));
        }
        if r.chance(1, 5) {
            attrs.push((0x80, 9, vec![10, 0, 0, 7]));
        }
        if r.chance(1, 5) {
            attrs.push((0x80, 10, vec![10, 0, 0, 8, 10, 0, 0, 9]));
        }
        if r.chance(1, 6) {
            attrs.push((0xc0, 16, vec![0, 2, 0xfd, 0xe8, 0, 0, 0, 100]));
        }
        if r.chance(1, 6) {
            attrs.push((0xc0, 32, vec![0, 0, 0xfd, 0xe8, 0, 0, 0, 1, 0, 0, 0, 2]));
        }
        if r.chance(1, 5) {
            attrs.push((0x80, 26, vec![1, 0, 11, 0, 0, 0, 0, 0, 0, 0, 100]));
        }
        if r.chance(1, 4) {
            attrs.push((0xc0, 17, as4_path(r)));
        }
        if r.chance(1, 5) {
            attrs.push((0xc0, 18, vec![0, 1, 0, 0, 10, 0, 0, 9]));
        }
        if r.chance(1, 8) {
            attrs.push((0xc0, 40, vec![5, 0, 3, 0, 0, 0]));
        }
        // the types with canonical flags whose bodies are opaque at this layer: TUNNEL_ENCAP, BGP-LS
        if r.chance(1, 6) {
            attrs.push((0xc0, 23, vec![0, 8, 0, 6, 6, 4, 10, 0, 0, 1]));
        }
        if r.chance(1, 6) {
            // sometimes longer than 255 bytes: extended length
            if r.chance(1, 3) {
                let mut v = vec![4u8, 2, 1, 0];
                v.extend(std::iter::repeat(0x41u8).take(256));
                attrs.push((0x90, 29, v));
            } else {
                attrs.push((0x80, 29, vec![4, 2, 0, 2, b'r', b'1']));
            }
        }
        // a long value on an ordinary attribute (extended-length branch of the attribute loop)
        if r.chance(1, 10) && !attrs.iter().any(|a| a.1 == 8) {
            let v: Vec<u8> = (0..260).map(|i| if i % 4 == 3 { (i / 4) as u8 } else { 0xff }).collect();
            attrs.push((0xd0, 8, v));
        }
    }
    if !anything {
        // never emit an empty case
        return gen_c05_case(r);
    }
    let nr = attrs.len() + (mp_reach != 0) as usize + mp_unreach as usize;
    let code_at = |i: usize| -> u8 {
        if i < attrs.len() {
            attrs[i].1
        } else if mp_reach != 0 && i == attrs.len() {
            14
        } else {
            15
        }
    };
    let canon = |c: u8| Attribute::canonical_flags(c).unwrap_or(0xc0);

    let ncorr = match r.below(20) {
        0 | 1 => 0,
        2..=12 => 1,
        13..=17 => 2,
        _ => 3,
    };
    let mut corr: Vec<String> = Vec::new();
    for _ in 0..ncorr {
        let i = if nr > 0 { r.below(nr as u64) as usize } else { 0 };
        let code = if nr > 0 { code_at(i) } else { 0 };
        let old: Vec<u8> = if i < attrs.len() { attrs[i].2.clone() } else { vec![0, 2, 1, 16] };
        let c = match r.below(20) {
            0..=4 if nr > 0 => {
                let f = match r.below(6) {
                    0 => canon(code) ^ 0x80,
                    1 => canon(code) ^ 0x40,
                    2 => canon(code) ^ 0xc0,
                    3 => canon(code) | 0x20,
                    4 => canon(code) | 0x10,
                    _ => canon(code) | 0x0f,
                };
                format!("(flags {} {})", i, f)
            }
            5..=10 if nr > 0 => {
                let d = if r.chance(1, 8) { old.clone() } else { c05_bad_value(r, code, two, &old) };
                format!("(data {} {})", i, Term::bytes(&d))
            }
            11 if nr > 0 => format!("(lenfield {} {})", i, *r.pick(&[0usize, old.len() + 1, old.len().saturating_sub(1), 255, old.len()])),
            12 | 13 if nr > 0 => {
                let d = if r.chance(1, 2) { old.clone() } else { let mut v = old.clone(); if let Some(x) = v.last_mut() { *x ^= 1 } else { v.push(1) }; v };
                format!("(dup {} {})", i, Term::bytes(&d))
            }
            14 | 15 if nr > 0 => format!("(omit {})", i),
            16 => format!("(trunc {})", *r.pick(&[1usize, 2, 3, 4, 5, 7, 8, 0])),
            17 | 18 => format!(
                "(unknown {} {} {})",
                *r.pick(&[0x40u8, 0x00, 0x80, 0xc0, 0xe0, 0x50]),
                *r.pick(&[99u8, 200, 13, 0, 255]),
                Term::bytes(&[1, 2, 3][..r.below(4) as usize])
            ),
            _ => format!("(nlribad {})", *r.pick(&[33u8, 255, 0, 32])),
        };
        corr.push(c);
    }
    let attrs_t: Vec<String> = attrs.iter().map(|a| format!("(a {} {} {})", a.0, a.1, Term::bytes(&a.2))).collect();
    format!(
        "(c05 {} {} (upd (wd {}) (attrs {}) {} {} (nlri {})) (corr {}))",
        desc.term(),
        if ebgp { "t" } else { "f" },
        wd.join(" "),
        attrs_t.join(" "),
        mpr,
        mpu,
        nlri.join(" "),
        corr.join(" ")
    )
    .replace("( ", "(")
    .replace(" )", ")")
    .replace("(wd)", "(wd)")
}

pub fn gen_c05(seed: u64, n: usize, _tier: &str) -> Vec<String> {
    let mut r = Rng(seed.wrapping_mul(0x9E3779B97F4A7C15) ^ 0xC05);
    (0..n).map(|_| gen_c05_case(&mut r)).collect()
}
