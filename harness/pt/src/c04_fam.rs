// Deterministic constructors of NLRI values for the families OUTSIDE the C04 Lean model
// (impl-only exploration: structural oracle + decode-back with the real decoder).
// `mk_nlri(family, kind, seed)` must stay a pure function of its arguments: corpus cases refer to it.
use std::net::{IpAddr, Ipv4Addr, Ipv6Addr};

use rustybgp_packet::bgp::{Family, Ipv4Net, Ipv6Net, Nlri};
use rustybgp_packet::evpn::{
    Esi, EthernetAutoDiscoveryRoute, EthernetIpPrefixRoute, EthernetSegmentRoute, EvpnNlri, InclusiveMulticastEthernetTag,
    MacIpAdvertisement,
};
use rustybgp_packet::flowspec::{
    FlowspecV4Component, FlowspecV4Nlri, FlowspecV6Component, FlowspecV6Nlri, FlowspecVpnV4Nlri, FlowspecVpnV6Nlri, Op,
};
use rustybgp_packet::labeled::{LabeledV4Nlri, LabeledV6Nlri};
use rustybgp_packet::ls::{BgpLsLinkNlri, BgpLsNlri, BgpLsNodeNlri, BgpLsPrefixNlri, LinkDescTlv, NodeDescriptor, PrefixDescTlv};
use rustybgp_packet::mpls::{MplsLabel, MplsLabelStack};
use rustybgp_packet::mup::{
    MupDirectSegmentDiscoveryRoute, MupInterworkSegmentDiscoveryRoute, MupNlri, MupType1SessionTransformedRoute,
    MupType2SessionTransformedRoute,
};
use rustybgp_packet::rd::RouteDistinguisher;
use rustybgp_packet::rtc::{MatchType, RtcNlri};
use rustybgp_packet::sr_policy::SrPolicyNlri;
use rustybgp_packet::vpn::{VpnV4Nlri, VpnV6Nlri};
use verif_pt::sexp::Rng;

fn v4net(r: &mut Rng, mask: u8) -> Ipv4Net {
    // canonical: bits beyond the mask are zero (what a decoder returns up to the last byte; masked fully here)
    let raw = r.next() as u32;
    let m: u32 = if mask == 0 { 0 } else { u32::MAX << (32 - mask as u32) };
    Ipv4Net { addr: Ipv4Addr::from(raw & m), mask }
}

fn v6net(r: &mut Rng, mask: u8) -> Ipv6Net {
    let raw = ((r.next() as u128) << 64) | r.next() as u128;
    let m: u128 = if mask == 0 { 0 } else { u128::MAX << (128 - mask as u32) };
    Ipv6Net { addr: Ipv6Addr::from((raw & m).to_be_bytes()), mask }
}

fn rd(r: &mut Rng) -> RouteDistinguisher {
    match r.below(3) {
        0 => RouteDistinguisher::TwoOctetAs { admin: r.next() as u16, assigned: r.next() as u32 },
        1 => RouteDistinguisher::Ipv4 { admin: Ipv4Addr::from(r.next() as u32), assigned: r.next() as u16 },
        _ => RouteDistinguisher::FourOctetAs { admin: r.next() as u32, assigned: r.next() as u16 },
    }
}

fn labels(r: &mut Rng, n: u64) -> MplsLabelStack {
    MplsLabelStack::new((0..n).map(|_| MplsLabel::new(16 + (r.next() as u32 % 1000))).collect())
}

fn ip4(r: &mut Rng) -> IpAddr {
    IpAddr::V4(Ipv4Addr::from(r.next() as u32))
}
fn ip6(r: &mut Rng) -> IpAddr {
    IpAddr::V6(Ipv6Addr::from((((r.next() as u128) << 64) | r.next() as u128).to_be_bytes()))
}

fn esi(r: &mut Rng) -> Esi {
    let mut b = [0u8; 10];
    for x in b.iter_mut() {
        *x = r.next() as u8;
    }
    Esi(b)
}

fn ops(r: &mut Rng, n: u64, wide: bool) -> Vec<Op> {
    (0..n)
        .map(|i| Op {
            bits: (if i + 1 == n { Op::END } else { 0 }) | Op::EQ,
            value: if wide { 0x1_0000 + (r.next() & 0xffff) } else { r.next() & 0xff },
        })
        .collect()
}

fn flow_v4(r: &mut Rng, kind: u64) -> Vec<FlowspecV4Component> {
    // kind 0: dst prefix only; 1: dst+src+proto+port; 2: long (many operators)
    let mut v = vec![FlowspecV4Component::DstPrefix(v4net(r, 24))];
    if kind >= 1 {
        v.push(FlowspecV4Component::SrcPrefix(v4net(r, 32)));
        v.push(FlowspecV4Component::Protocol(ops(r, 1, false)));
        v.push(FlowspecV4Component::DstPort(ops(r, 2, true)));
    }
    if kind >= 2 {
        v.push(FlowspecV4Component::SrcPort(ops(r, 12, true)));
        v.push(FlowspecV4Component::PacketLen(ops(r, 12, true)));
    }
    if kind >= 3 {
        // more than 240 bytes: two-byte NLRI length
        v.push(FlowspecV4Component::Dscp(ops(r, 60, true)));
    }
    v
}

fn flow_v6(r: &mut Rng, kind: u64) -> Vec<FlowspecV6Component> {
    let mut v = vec![FlowspecV6Component::DstPrefix { prefix: v6net(r, 64), offset: 0 }];
    if kind >= 1 {
        v.push(FlowspecV6Component::SrcPrefix { prefix: v6net(r, 128), offset: 0 });
        v.push(FlowspecV6Component::NextHeader(ops(r, 1, false)));
        v.push(FlowspecV6Component::DstPort(ops(r, 2, true)));
    }
    if kind >= 2 {
        v.push(FlowspecV6Component::SrcPort(ops(r, 12, true)));
        v.push(FlowspecV6Component::FlowLabel(ops(r, 12, true)));
    }
    if kind >= 3 {
        v.push(FlowspecV6Component::Dscp(ops(r, 60, true)));
    }
    v
}

/// Flowspec rule bodies of an EXACT length (kind 4): the NLRI length field has a one-octet form (< 240) and a two-octet
/// form (240 ..= 4095, RFC 8955 §4); `seed % 12` selects the body length, the rest of the seed the content.
pub const FLOW_BODY_TARGETS: [usize; 12] = [238, 239, 240, 241, 242, 254, 255, 256, 257, 4094, 4095, 4096];

/// `fill` octets of numeric operators: `fill = 2a + 3b` (a one-octet values, b in {0, 1} two-octet values), END on the last
fn ops_exact(r: &mut Rng, fill: usize) -> Vec<Op> {
    let (a, b) = if fill % 2 == 0 { (fill / 2, 0) } else { ((fill - 3) / 2, 1) };
    let mut v: Vec<Op> = (0..a).map(|_| Op { bits: Op::EQ, value: r.next() & 0xff }).collect();
    if b == 1 {
        v.push(Op { bits: Op::EQ, value: 0x100 + (r.next() & 0xfeff) });
    }
    if let Some(last) = v.last_mut() {
        last.bits |= Op::END;
    }
    v
}

/// operator values at the width boundaries of the value encoding (1 / 2 / 4 / 8 octets)
fn ops_edge(r: &mut Rng) -> Vec<Op> {
    let vals = [0xffu64, 0x100, 0xffff, 0x1_0000, 0xffff_ffff, 0x1_0000_0000, u64::MAX, 0];
    let n = 1 + (r.next() % 4) as usize;
    let mut v: Vec<Op> = (0..n).map(|_| Op { bits: Op::EQ, value: vals[(r.next() % 8) as usize] }).collect();
    v.last_mut().unwrap().bits |= Op::END;
    v
}

/// kind 4 / 5 for IPv4 flowspec; `extra` = octets of the body that precede the components (the RD of the VPN form)
fn flow_v4_special(r: &mut Rng, kind: u64, seed: u64, extra: usize) -> Option<Vec<FlowspecV4Component>> {
    let mut v = vec![FlowspecV4Component::DstPrefix(v4net(r, 24))]; // 5 octets
    match kind {
        4 => {
            let target = FLOW_BODY_TARGETS[(seed % 12) as usize];
            v.push(FlowspecV4Component::Protocol(ops_exact(r, target - extra - 5 - 1)));
        }
        5 => v.push(FlowspecV4Component::DstPort(ops_edge(r))),
        _ => return None,
    }
    Some(v)
}

fn flow_v6_special(r: &mut Rng, kind: u64, seed: u64, extra: usize) -> Option<Vec<FlowspecV6Component>> {
    let mut v = vec![FlowspecV6Component::DstPrefix { prefix: v6net(r, 64), offset: 0 }]; // 11 octets
    match kind {
        4 => {
            let target = FLOW_BODY_TARGETS[(seed % 12) as usize];
            v.push(FlowspecV6Component::NextHeader(ops_exact(r, target - extra - 11 - 1)));
        }
        5 => v.push(FlowspecV6Component::DstPort(ops_edge(r))),
        _ => return None,
    }
    Some(v)
}

fn node(r: &mut Rng, full: bool) -> NodeDescriptor {
    NodeDescriptor {
        asn: Some(r.next() as u32),
        bgp_ls_id: if full { Some(r.next() as u32) } else { None },
        ospf_area_id: if full { Some(r.next() as u32) } else { None },
        igp_router_id: Some((0..if full { 6 } else { 4 }).map(|_| r.next() as u8).collect()),
        bgp_router_id: None,
        bgp_confederation_member: None,
    }
}

/// kind: family specific.  For VPN / labeled families `kind` = number of labels (1 = the ordinary case);
/// the prefix length is derived from the seed (seed % (max+1)), so seed = max gives the longest NLRI.
pub fn mk_nlri(fam: Family, kind: u64, seed: u64) -> Option<Nlri> {
    let mut r = Rng(seed.wrapping_mul(0x9E37_79B9).wrapping_add(kind));
    let afi = fam.afi();
    let safi = fam.safi();
    match (afi, safi) {
        (1, 128) => {
            if kind == 0 || kind > 64 {
                return None;
            }
            let mask = (seed % 33) as u8;
            Some(Nlri::VpnV4(VpnV4Nlri { labels: labels(&mut r, kind), rd: rd(&mut r), prefix: v4net(&mut r, mask) }))
        }
        (2, 128) => {
            if kind == 0 || kind > 64 {
                return None;
            }
            let mask = (seed % 129) as u8;
            Some(Nlri::VpnV6(VpnV6Nlri { labels: labels(&mut r, kind), rd: rd(&mut r), prefix: v6net(&mut r, mask) }))
        }
        (1, 4) => {
            if kind == 0 || kind > 64 {
                return None;
            }
            let mask = (seed % 33) as u8;
            Some(Nlri::LabeledV4(LabeledV4Nlri { labels: labels(&mut r, kind), prefix: v4net(&mut r, mask) }))
        }
        (2, 4) => {
            if kind == 0 || kind > 64 {
                return None;
            }
            let mask = (seed % 129) as u8;
            Some(Nlri::LabeledV6(LabeledV6Nlri { labels: labels(&mut r, kind), prefix: v6net(&mut r, mask) }))
        }
        (1, 132) => Some(Nlri::Rtc(RtcNlri {
            match_type: match kind {
                0 => MatchType::Wildcard,
                1 => MatchType::AsWildcard { origin_as: r.next() as u32 },
                2 => {
                    let mut rt = [0u8; 8];
                    for b in rt.iter_mut() {
                        *b = r.next() as u8;
                    }
                    MatchType::ExactMatch { origin_as: r.next() as u32, route_target: rt }
                }
                _ => return None,
            },
        })),
        (1, 73) | (2, 73) => Some(Nlri::SrPolicy(SrPolicyNlri {
            distinguisher: r.next() as u32,
            color: r.next() as u32,
            endpoint: match kind {
                0 => ip4(&mut r),
                1 => ip6(&mut r),
                _ => return None,
            },
        })),
        (1, 85) | (2, 85) => {
            let v6 = afi == 2;
            let ip = |r: &mut Rng| if v6 { ip6(r) } else { ip4(r) };
            let maxlen: u64 = if v6 { 128 } else { 32 };
            Some(Nlri::Mup(match kind {
                0 => {
                    let plen = (seed % (maxlen + 1)) as u8;
                    let addr = if v6 { IpAddr::V6(v6net(&mut r, plen).addr) } else { IpAddr::V4(v4net(&mut r, plen).addr) };
                    MupNlri::InterworkSegmentDiscovery(MupInterworkSegmentDiscoveryRoute {
                        rd: rd(&mut r),
                        prefix_addr: addr,
                        prefix_len: plen,
                    })
                }
                1 => MupNlri::DirectSegmentDiscovery(MupDirectSegmentDiscoveryRoute { rd: rd(&mut r), address: ip(&mut r) }),
                2 | 3 => {
                    let plen = maxlen as u8;
                    MupNlri::Type1SessionTransformed(MupType1SessionTransformedRoute {
                        rd: rd(&mut r),
                        prefix_addr: ip(&mut r),
                        prefix_len: plen,
                        teid: r.next() as u32,
                        qfi: r.next() as u8 & 0x3f,
                        endpoint_address: ip(&mut r),
                        source_address: if kind == 3 { Some(ip(&mut r)) } else { None },
                    })
                }
                4 => MupNlri::Type2SessionTransformed(MupType2SessionTransformedRoute {
                    rd: rd(&mut r),
                    endpoint_address_length: (maxlen + 32) as u8,
                    endpoint_address: ip(&mut r),
                    teid: r.next() as u32,
                }),
                _ => return None,
            }))
        }
        (1, 133) => {
            let components = if kind > 3 { flow_v4_special(&mut r, kind, seed, 0)? } else { flow_v4(&mut r, kind) };
            Some(Nlri::FlowspecV4(FlowspecV4Nlri { components }))
        }
        (2, 133) => {
            let components = if kind > 3 { flow_v6_special(&mut r, kind, seed, 0)? } else { flow_v6(&mut r, kind) };
            Some(Nlri::FlowspecV6(FlowspecV6Nlri { components }))
        }
        (1, 134) => {
            let rd = rd(&mut r);
            let components = if kind > 3 { flow_v4_special(&mut r, kind, seed, 8)? } else { flow_v4(&mut r, kind) };
            Some(Nlri::FlowspecVpnV4(FlowspecVpnV4Nlri { rd, components }))
        }
        (2, 134) => {
            let rd = rd(&mut r);
            let components = if kind > 3 { flow_v6_special(&mut r, kind, seed, 8)? } else { flow_v6(&mut r, kind) };
            Some(Nlri::FlowspecVpnV6(FlowspecVpnV6Nlri { rd, components }))
        }
        (25, 70) => Some(Nlri::Evpn(match kind {
            1 => EvpnNlri::EthernetAutoDiscovery(EthernetAutoDiscoveryRoute {
                rd: rd(&mut r),
                esi: esi(&mut r),
                etag: r.next() as u32,
                label: r.next() as u32 & 0xff_ffff,
            }),
            2 | 12 | 22 => {
                let mut mac = [0u8; 6];
                for b in mac.iter_mut() {
                    *b = r.next() as u8;
                }
                EvpnNlri::MacIpAdvertisement(MacIpAdvertisement {
                    rd: rd(&mut r),
                    esi: esi(&mut r),
                    etag: r.next() as u32,
                    mac,
                    ip: match kind {
                        2 => None,
                        12 => Some(ip4(&mut r)),
                        _ => Some(ip6(&mut r)),
                    },
                    label1: r.next() as u32 & 0xff_ffff,
                    label2: if kind == 22 { Some(r.next() as u32 & 0xff_ffff) } else { None },
                })
            }
            3 | 13 => EvpnNlri::InclusiveMulticastEthernetTag(InclusiveMulticastEthernetTag {
                rd: rd(&mut r),
                etag: r.next() as u32,
                originating_router_ip: if kind == 3 { ip4(&mut r) } else { ip6(&mut r) },
            }),
            4 | 14 => EvpnNlri::EthernetSegment(EthernetSegmentRoute {
                rd: rd(&mut r),
                esi: esi(&mut r),
                originating_router_ip: if kind == 4 { ip4(&mut r) } else { ip6(&mut r) },
            }),
            5 => EvpnNlri::EthernetIpPrefix(EthernetIpPrefixRoute {
                rd: rd(&mut r),
                esi: esi(&mut r),
                etag: r.next() as u32,
                ip_prefix: IpAddr::V4(v4net(&mut r, 24).addr),
                prefix_len: 24,
                gateway_ip: ip4(&mut r),
                label: r.next() as u32 & 0xff_ffff,
            }),
            15 => EvpnNlri::EthernetIpPrefix(EthernetIpPrefixRoute {
                rd: rd(&mut r),
                esi: esi(&mut r),
                etag: r.next() as u32,
                ip_prefix: IpAddr::V6(v6net(&mut r, 64).addr),
                prefix_len: 64,
                gateway_ip: ip6(&mut r),
                label: r.next() as u32 & 0xff_ffff,
            }),
            _ => return None,
        })),
        (16388, 71) => Some(Nlri::Ls(match kind {
            0 => BgpLsNlri::Node(BgpLsNodeNlri { protocol_id: 3, identifier: r.next(), local_node: node(&mut r, false) }),
            1 => BgpLsNlri::Node(BgpLsNodeNlri { protocol_id: 2, identifier: r.next(), local_node: node(&mut r, true) }),
            2 => BgpLsNlri::Link(BgpLsLinkNlri {
                protocol_id: 2,
                identifier: r.next(),
                local_node: node(&mut r, true),
                remote_node: node(&mut r, true),
                link_desc: vec![
                    LinkDescTlv::LinkId { local: r.next() as u32, remote: r.next() as u32 },
                    LinkDescTlv::Ipv4InterfaceAddr((r.next() as u32).to_be_bytes()),
                    LinkDescTlv::Ipv4NeighborAddr((r.next() as u32).to_be_bytes()),
                ],
            }),
            3 => BgpLsNlri::PrefixV4(BgpLsPrefixNlri {
                protocol_id: 3,
                identifier: r.next(),
                local_node: node(&mut r, false),
                prefix_desc: vec![PrefixDescTlv::IpReachability { prefix_len: 24, addr: vec![10, r.next() as u8, r.next() as u8] }],
            }),
            4 => BgpLsNlri::PrefixV6(BgpLsPrefixNlri {
                protocol_id: 2,
                identifier: r.next(),
                local_node: node(&mut r, true),
                prefix_desc: vec![
                    PrefixDescTlv::OspfRouteType(1),
                    PrefixDescTlv::IpReachability { prefix_len: 64, addr: (0..8).map(|_| r.next() as u8).collect() },
                ],
            }),
            _ => return None,
        })),
        _ => None,
    }
}
