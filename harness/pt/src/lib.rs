// Shared helpers for the packet/table-level harness binaries.
#[path = "/verif/harness/common/sexp.rs"]
pub mod sexp;
