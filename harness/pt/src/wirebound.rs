// Systematic boundary stream for C03 (deterministic; emitted in front of the random stream on every run).
// For every attribute / sub-structure the model knows, the value is cut at EVERY internal field boundary and at
// boundary +-1 while the enclosing length fields are made consistent, so that the truncation reaches the
// sub-decoder instead of being caught by an outer length check.  Variants keep one inner length field at its
// original value (lengths that disagree).  Repeated for a set of codec settings and every family.
#![allow(dead_code)]

use crate::wire::*;
use crate::wiregen::{hex, nlri_seeds, raw_attr, raw_frame, raw_update};

/// all cut points: each field boundary b, b-1, b+1 (within 0..=total)
fn cuts(fields: &[Vec<u8>]) -> Vec<usize> {
    let total: usize = fields.iter().map(|f| f.len()).sum();
    let mut v = vec![0usize, total];
    let mut b = 0usize;
    for f in fields {
        b += f.len();
        for k in [b.saturating_sub(1), b, b + 1] {
            if k <= total {
                v.push(k);
            }
        }
    }
    v.sort();
    v.dedup();
    v
}

fn cat(fields: &[Vec<u8>]) -> Vec<u8> {
    fields.concat()
}

fn codecs() -> Vec<CodecDesc> {
    let f = |ap4: bool, ap6: bool| vec![(1u16, 1u8, ap4), (2, 1, ap6), (1, 2, false), (2, 2, false)];
    vec![
        CodecDesc { ext: false, two: false, fams: f(false, false) },
        CodecDesc { ext: false, two: true, fams: f(true, true) },
        CodecDesc { ext: true, two: false, fams: f(true, false) },
    ]
}

fn case(kind: &str, desc: &CodecDesc, frame: &[u8]) -> String {
    format!("({} {} (chunks {}))", kind, desc.term(), hex(frame))
}

/// UPDATE = ORIGIN, AS_PATH(empty) [, NEXT_HOP], the attribute under test, optional legacy NLRI
fn upd_with(flags: u8, code: u8, value: &[u8], declared_len: Option<usize>, with_nlri: bool) -> Vec<u8> {
    let mut attrs = Vec::new();
    if code != 1 {
        attrs.extend(raw_attr(0x40, 1, &[0]));
    }
    if code != 2 {
        attrs.extend(raw_attr(0x40, 2, &[]));
    }
    if with_nlri && code != 3 {
        attrs.extend(raw_attr(0x40, 3, &[10, 0, 0, 1]));
    }
    let fl = if value.len() > 255 || declared_len.is_some_and(|l| l > 255) { flags | 0x10 } else { flags };
    let mut a = raw_attr(fl, code, value);
    if let Some(l) = declared_len {
        // the attribute's own length field keeps another value; the block length stays consistent with the bytes
        if fl & 0x10 != 0 {
            a[2] = (l >> 8) as u8;
            a[3] = l as u8;
        } else {
            a[2] = l as u8;
        }
    }
    attrs.extend(a);
    let nlri: &[u8] = if with_nlri { &[8, 10] } else { &[] };
    raw_update(&[], &attrs, nlri)
}

fn attr_boundaries(out: &mut Vec<String>, kind: &str, desc: &CodecDesc, flags: u8, code: u8, fields: &[Vec<u8>], with_nlri: bool) {
    let v = cat(fields);
    for k in cuts(fields) {
        out.push(case(kind, desc, &upd_with(flags, code, &v[..k], None, with_nlri)));
        if k != v.len() {
            // inner length says "whole value", the block ends early
            out.push(case(kind, desc, &upd_with(flags, code, &v[..k], Some(v.len()), with_nlri)));
        }
    }
    // one byte more than the structure needs
    let mut w = v.clone();
    w.push(0);
    out.push(case(kind, desc, &upd_with(flags, code, &w, None, with_nlri)));
}

fn v4(ap: bool, id: u32, mask: u8, addr: &[u8]) -> Vec<Vec<u8>> {
    let mut f = Vec::new();
    if ap {
        f.push(id.to_be_bytes().to_vec());
    }
    f.push(vec![mask]);
    f.push(addr[..(mask as usize).div_ceil(8)].to_vec());
    f
}

fn nh_bytes(n: usize) -> Vec<u8> {
    (0..n).map(|i| if (n == 12 || n == 24 || n == 48) && (i < 8 || (24..32).contains(&i)) { 0 } else { 0x20 + i as u8 }).collect()
}

fn open_frame(body_fixed: &[u8], caps: &[u8], op_len: Option<usize>, param_len: Option<usize>) -> Vec<u8> {
    // body_fixed = version .. router id (9 bytes)
    let mut b = body_fixed.to_vec();
    let opl = op_len.unwrap_or(caps.len());
    let pl = param_len.unwrap_or(caps.len() + 2);
    b.push(pl as u8);
    b.push(2);
    b.push(opl as u8);
    b.extend_from_slice(caps);
    raw_frame(1, &b)
}

pub fn boundary_cases() -> Vec<String> {
    let mut out: Vec<String> = Vec::new();
    let seeds = nlri_seeds();
    let v6a: [u8; 16] = [0x20, 1, 0x0d, 0xb8, 0, 1, 0, 2, 0, 0, 0, 0, 0, 0, 0, 1];
    for desc in codecs() {
        let ap = |afi: u16, safi: u8| desc.fams.iter().find(|f| f.0 == afi && f.1 == safi).map(|f| f.2).unwrap_or(false);
        // ---- MP_REACH_NLRI: afi / safi / nh-len / next hop / reserved / NLRI, every next-hop length the code knows
        for (afi, safi) in [(1u16, 1u8), (2, 1), (1, 2), (2, 2)] {
            for nhl in [4usize, 16, 32, 12, 24, 48, 0, 5] {
                let mut f: Vec<Vec<u8>> = vec![afi.to_be_bytes().to_vec(), vec![safi], vec![nhl as u8], nh_bytes(nhl), vec![0]];
                if afi == 1 {
                    f.extend(v4(ap(afi, safi), 1, 24, &[10, 1, 1, 0]));
                    f.extend(v4(ap(afi, safi), 2, 0, &[0, 0, 0, 0]));
                } else {
                    let mut e = Vec::new();
                    if ap(afi, safi) {
                        e.push(1u32.to_be_bytes().to_vec());
                    }
                    e.push(vec![64]);
                    e.push(v6a[..8].to_vec());
                    f.extend(e);
                }
                attr_boundaries(&mut out, "bgp", &desc, 0x80, 14, &f, false);
            }
        }
        // ---- MP_UNREACH_NLRI
        for (afi, safi) in [(1u16, 1u8), (2, 1), (2, 2)] {
            let mut f: Vec<Vec<u8>> = vec![afi.to_be_bytes().to_vec(), vec![safi]];
            if afi == 1 {
                f.extend(v4(ap(afi, safi), 7, 32, &[1, 2, 3, 4]));
            } else {
                if ap(afi, safi) {
                    f.push(7u32.to_be_bytes().to_vec());
                }
                f.push(vec![128]);
                f.push(v6a.to_vec());
            }
            attr_boundaries(&mut out, "bgp", &desc, 0x80, 15, &f, false);
        }
        // ---- AS_PATH (width per session), AS4_PATH, AGGREGATOR, AS4_AGGREGATOR and the fixed-size attributes
        let w = if desc.two { 2 } else { 4 };
        let asn = |n: u32| if w == 2 { (n as u16).to_be_bytes().to_vec() } else { n.to_be_bytes().to_vec() };
        let path: Vec<Vec<u8>> = vec![vec![2], vec![2], asn(65001), asn(23456), vec![1], vec![1], asn(1), vec![3], vec![0]];
        attr_boundaries(&mut out, "bgp", &desc, 0x40, 2, &path, true);
        let path4: Vec<Vec<u8>> = vec![vec![2], vec![2], 65536u32.to_be_bytes().to_vec(), 1u32.to_be_bytes().to_vec(), vec![1], vec![1], 7u32.to_be_bytes().to_vec()];
        attr_boundaries(&mut out, "bgp", &desc, 0xc0, 17, &path4, true);
        attr_boundaries(&mut out, "bgp", &desc, 0xc0, 7, &[vec![0x5b, 0xa0], vec![10, 0, 0, 9]], true);
        attr_boundaries(&mut out, "bgp", &desc, 0xc0, 7, &[vec![0, 0, 0x5b, 0xa0], vec![10, 0, 0, 9]], true);
        attr_boundaries(&mut out, "bgp", &desc, 0xc0, 18, &[vec![0, 1, 0, 0], vec![10, 0, 0, 9]], true);
        attr_boundaries(&mut out, "bgp", &desc, 0x40, 1, &[vec![2]], true);
        attr_boundaries(&mut out, "bgp", &desc, 0x40, 3, &[vec![10, 0, 0, 1]], true);
        attr_boundaries(&mut out, "bgp", &desc, 0x80, 4, &[vec![0, 0, 0, 5]], true);
        attr_boundaries(&mut out, "bgp", &desc, 0x40, 5, &[vec![0, 0, 0, 100]], true);
        attr_boundaries(&mut out, "bgp", &desc, 0x40, 6, &[], true);
        attr_boundaries(&mut out, "bgp", &desc, 0xc0, 8, &[vec![255, 255, 255, 1], vec![255, 255, 255, 2]], true);
        attr_boundaries(&mut out, "bgp", &desc, 0x80, 9, &[vec![10, 0, 0, 7]], true);
        attr_boundaries(&mut out, "bgp", &desc, 0x80, 10, &[vec![10, 0, 0, 8], vec![10, 0, 0, 9]], true);
        attr_boundaries(&mut out, "bgp", &desc, 0xc0, 16, &[vec![0, 2, 0xfd, 0xe8, 0, 0, 0, 100]], true);
        attr_boundaries(&mut out, "bgp", &desc, 0xc0, 32, &[vec![0, 0, 0xfd, 0xe8], vec![0, 0, 0, 1], vec![0, 0, 0, 2]], true);
        attr_boundaries(&mut out, "bgp", &desc, 0x80, 26, &[vec![1], vec![0, 11], vec![0, 0, 0, 0, 0, 0, 0, 100], vec![2], vec![0, 3]], true);
        attr_boundaries(&mut out, "bgp", &desc, 0xc0, 99, &[vec![1, 2, 3]], true);
        // ---- legacy NLRI and withdrawn routes: id / length / address
        let ap4 = ap(1, 1);
        let ent: Vec<Vec<u8>> = [v4(ap4, 1, 24, &[10, 1, 1, 0]), v4(ap4, 2, 32, &[1, 2, 3, 4]), v4(ap4, 3, 0, &[0; 4])].concat();
        let full = cat(&ent);
        let mut attrs = Vec::new();
        attrs.extend(raw_attr(0x40, 1, &[0]));
        attrs.extend(raw_attr(0x40, 2, &[]));
        attrs.extend(raw_attr(0x40, 3, &[10, 0, 0, 1]));
        for k in cuts(&ent) {
            out.push(case("bgp", &desc, &raw_update(&[], &attrs, &full[..k])));
            out.push(case("bgp", &desc, &raw_update(&full[..k], &[], &[])));
            // withdrawn length field one off in both directions, frame length consistent with the bytes
            for d in [-1i32, 1] {
                let mut m = raw_update(&full[..k], &attrs, &full[..k]);
                let wl = (k as i32 + d).max(0) as usize;
                m[19] = (wl >> 8) as u8;
                m[20] = wl as u8;
                out.push(case("bgp", &desc, &m));
            }
        }
        // ---- the fixed parts: header, UPDATE section lengths, OPEN, NOTIFICATION, ROUTE-REFRESH
        let hdr: Vec<Vec<u8>> = vec![vec![0xff; 16], vec![0, 19], vec![4]];
        let h = cat(&hdr);
        for k in cuts(&hdr) {
            out.push(format!("(bgp {} (chunks {}))", desc.term(), hex(&h[..k])));
        }
        for typ in [1u8, 2, 3, 4, 5] {
            for blen in 0usize..=12 {
                out.push(case("bgp", &desc, &raw_frame(typ, &vec![0u8; blen])));
            }
        }
        let upd = raw_update(&full[..0], &attrs, &[]);
        for k in 19..=upd.len() {
            // UPDATE truncated everywhere with the header length fixed up
            let mut m = upd[..k].to_vec();
            m[16] = (k >> 8) as u8;
            m[17] = k as u8;
            out.push(case("bgp", &desc, &m));
        }
        out.push(case("bgp", &desc, &raw_frame(3, &[6, 2])));
        out.push(case("bgp", &desc, &raw_frame(3, &[6])));
        out.push(case("bgp", &desc, &raw_frame(3, &[6, 2, 1, 2, 3])));
        for k in 0..=5 {
            out.push(case("bgp", &desc, &raw_frame(5, &[0, 1, 0, 1, 9][..k])));
        }
        // OPEN: fixed fields, then every capability kind cut at every field boundary with cap / parameter lengths consistent
        let fixed: Vec<Vec<u8>> = vec![vec![4], vec![0xfd, 0xe9], vec![0, 90], vec![10, 0, 0, 1]];
        let fx = cat(&fixed);
        for k in cuts(&fixed) {
            out.push(case("bgp", &desc, &raw_frame(1, &fx[..k])));
        }
        out.push(case("bgp", &desc, &raw_frame(1, &[fx.clone(), vec![0]].concat())));
        out.push(case("bgp", &desc, &raw_frame(1, &[fx.clone(), vec![2, 2]].concat())));
        out.push(case("bgp", &desc, &raw_frame(1, &[fx.clone(), vec![1, 2]].concat())));
        let caps: Vec<(u8, Vec<Vec<u8>>)> = vec![
            (1, vec![vec![0, 1], vec![0], vec![1]]),
            (2, vec![]),
            (5, vec![vec![0, 1, 0, 1], vec![0, 2], vec![0, 1, 0, 128], vec![0, 2]]),
            (6, vec![]),
            (64, vec![vec![0x80, 120], vec![0, 1], vec![1], vec![0x80], vec![0, 2], vec![1], vec![0]]),
            (65, vec![vec![0, 1, 0, 0]]),
            (69, vec![vec![0, 1], vec![1], vec![3], vec![0, 2], vec![1], vec![0]]),
            (70, vec![]),
            (71, vec![vec![0, 1], vec![1], vec![0x80], vec![0, 0x0e, 0x10]]),
            (73, vec![vec![2], b"r1".to_vec(), vec![3], b"net".to_vec()]),
            (200, vec![vec![1, 2, 3]]),
        ];
        for (code, fields) in &caps {
            let v = cat(fields);
            let mut ks = cuts(fields);
            ks.push(v.len() + 1);
            for k in ks {
                let mut val = v.clone();
                val.resize(k.max(v.len()), 0);
                let val = &val[..k];
                // consistent cap_len
                let mut c = vec![*code, k as u8];
                c.extend_from_slice(val);
                out.push(case("bgp", &desc, &open_frame(&fx, &c, None, None)));
                // cap_len says "whole value", optional parameter ends early
                let mut c2 = vec![*code, v.len() as u8];
                c2.extend_from_slice(val);
                out.push(case("bgp", &desc, &open_frame(&fx, &c2, None, None)));
                // parameter lengths one short / one long
                out.push(case("bgp", &desc, &open_frame(&fx, &c, Some(c.len().saturating_sub(1)), None)));
                out.push(case("bgp", &desc, &open_frame(&fx, &c, Some(c.len() + 1), None)));
                out.push(case("bgp", &desc, &open_frame(&fx, &c, None, Some(c.len() + 1))));
                out.push(case("bgp", &desc, &open_frame(&fx, &c, None, Some(c.len() + 3))));
                // followed by a second capability
                let mut c3 = c.clone();
                c3.extend_from_slice(&[2, 0]);
                out.push(case("bgp", &desc, &open_frame(&fx, &c3, None, None)));
            }
        }
    }
    // ---- the other families (hypothesis-backed decoders, impl-only): header boundaries and every byte of each seed NLRI
    let d0 = CodecDesc { ext: false, two: false, fams: vec![] };
    for (afi, safi, dir, nl) in &seeds {
        for addpath in [false, true] {
            let desc = CodecDesc { fams: vec![(1, 1, false), (*afi, *safi, addpath)], ..d0.clone() };
            // phase 2 families are in the model: diffed like any `bgp` case
            let xtag = if modelled_family(*afi, *safi) { "bgp" } else { "xbgp" };
            let nhl: usize = match (*afi, *safi) {
                (_, 133) | (_, 134) => 0,
                (1, 128) => 12,
                (2, 128) => 24,
                (2, _) => 16,
                _ => 4,
            };
            let mut nlri = Vec::new();
            if addpath {
                nlri.extend_from_slice(&1u32.to_be_bytes());
            }
            nlri.extend_from_slice(nl);
            if dir != "unreach" {
                let f: Vec<Vec<u8>> = vec![afi.to_be_bytes().to_vec(), vec![*safi], vec![nhl as u8], nh_bytes(nhl), vec![0]];
                let head = cat(&f);
                for k in cuts(&f) {
                    out.push(case(xtag, &desc, &upd_with(0x80, 14, &head[..k], None, false)));
                }
                for k in 0..=nlri.len() {
                    let mut v = head.clone();
                    v.extend_from_slice(&nlri[..k]);
                    out.push(case(xtag, &desc, &upd_with(0x80, 14, &v, None, false)));
                }
            }
            if dir != "reach" {
                let f: Vec<Vec<u8>> = vec![afi.to_be_bytes().to_vec(), vec![*safi]];
                let head = cat(&f);
                for k in 0..=nlri.len() {
                    let mut v = head.clone();
                    v.extend_from_slice(&nlri[..k]);
                    out.push(case(xtag, &desc, &upd_with(0x80, 15, &v, None, false)));
                }
            }
        }
    }
    // ---- RTR: every PDU type, cut at every field boundary; declared length consistent with the bytes, or original
    let rtr: Vec<Vec<Vec<u8>>> = vec![
        vec![vec![1], vec![0], vec![0, 7], vec![0, 0, 0, 12], vec![0, 0, 0, 9]],
        vec![vec![1], vec![1], vec![0, 7], vec![0, 0, 0, 12], vec![0, 0, 0, 9]],
        vec![vec![1], vec![2], vec![0, 0], vec![0, 0, 0, 8]],
        vec![vec![1], vec![3], vec![0, 7], vec![0, 0, 0, 8]],
        vec![vec![1], vec![4], vec![0, 0], vec![0, 0, 0, 20], vec![1], vec![24], vec![24], vec![0], vec![10, 1, 1, 0], vec![0, 0, 0xfd, 0xe9]],
        vec![vec![1], vec![6], vec![0, 0], vec![0, 0, 0, 32], vec![1], vec![48], vec![64], vec![0], vec![0x20, 1, 0x0d, 0xb8, 0, 0, 0, 0, 0, 0, 0, 0, 0, 0, 0, 0], vec![0, 0, 0xfd, 0xe9]],
        vec![vec![1], vec![7], vec![0, 7], vec![0, 0, 0, 24], vec![0, 0, 0, 9], vec![0, 0, 0x0e, 0x10], vec![0, 0, 2, 0x58], vec![0, 0, 0x1c, 0x20]],
        vec![vec![0], vec![7], vec![0, 7], vec![0, 0, 0, 12], vec![0, 0, 0, 9]],
        vec![vec![1], vec![8], vec![0, 0], vec![0, 0, 0, 8]],
        vec![vec![1], vec![10], vec![0, 2], vec![0, 0, 0, 20], vec![0, 0, 0, 8], vec![1, 2, 0, 0, 0, 0, 0, 8]],
        vec![vec![1], vec![9], vec![0, 0], vec![0, 0, 0, 12], vec![1, 2, 3, 4]],
    ];
    for f in &rtr {
        let v = cat(f);
        for k in cuts(f) {
            out.push(format!("(rtr (chunks {}))", hex(&v[..k])));
            if k >= 8 {
                let mut m = v[..k].to_vec();
                m[4..8].copy_from_slice(&(k as u32).to_be_bytes());
                out.push(format!("(rtr (chunks {}))", hex(&m)));
                // followed by a complete Reset Query: the stream must go on or end with an error
                m.extend_from_slice(&[1, 2, 0, 0, 0, 0, 0, 8]);
                out.push(format!("(rtr (chunks {}))", hex(&m)));
            }
        }
    }
    // ---- BFD: fixed header fields; length octet consistent with the datagram, or 24
    let bfd: Vec<Vec<u8>> = vec![vec![0x20], vec![0xc0], vec![3], vec![24], vec![0, 0, 0, 1], vec![0, 0, 0, 2], vec![0, 1, 0x86, 0xa0], vec![0, 3, 0x0d, 0x40], vec![0, 0, 0, 0]];
    let v = cat(&bfd);
    let mut ks = cuts(&bfd);
    ks.extend([25usize, 26, 30]);
    for k in ks {
        let mut m = v.clone();
        m.resize(k.max(v.len()), 0);
        let m = m[..k].to_vec();
        out.push(format!("(bfd {})", hex(&m)));
        if k >= 4 {
            let mut m2 = m.clone();
            m2[3] = k as u8;
            out.push(format!("(bfd {})", hex(&m2)));
        }
    }
    for l in [0u8, 1, 3, 4, 23, 24, 25, 255] {
        // a datagram whose length octet agrees with its (short) size
        let mut m = vec![0x20u8, 0xc0, 3, l];
        m.resize((l as usize).max(4), 0);
        m.truncate((l as usize).max(4));
        out.push(format!("(bfd {})", hex(&m)));
        out.push(format!("(bfd {})", hex(&m[..(l as usize).min(m.len())])));
    }
    out
}
