// Systematic boundary stream for C03 (deterministic; emitted in front of the random stream on every run).
// For every attribute / sub-structure the model knows, the value is cut at EVERY internal field boundary and at
// boundary +-1 while the enclosing length fields are made consistent, so that the truncation reaches the
// sub-decoder instead of being caught by an outer length check.  Variants keep one inner length field at its
// original value (lengths that disagree).  Repeated for a set of codec settings and every family.
#![allow(dead_code)]

use crate::wire::*;
use crate::wiregen::{hex, nlri_seeds, raw_attr, raw_frame, raw_update};

/// all cut points: each field boundary b, b-1, b+1 (within 0..=total)
fn cuts(fields: &[Vec<u8>]) -> Vec<usize> {
    let total: usize = fields.iter().map(|f| f.len()).sum();
    let mut v = vec![0usize, total];
    let mut b = 0usize;
    for f in fields {
        b += f.len();
        for k in [b.saturating_sub(1), b, b + 1] {
            if k <= total {
                v.push(k);
            }
        }
    }
    v.sort();
    v.dedup();
    v
}

fn cat(fields: &[Vec<u8>]) -> Vec<u8> {
    fields.concat()
}

fn codecs() -> Vec<CodecDesc> {
    let f = |ap4: bool, ap6: bool| vec![(1u16, 1u8, ap4), (2, 1, ap6), (1, 2, false), (2, 2, false)];
    vec![
        CodecDesc { ext: false, two: false, fams: f(false, false) },
        CodecDesc { ext: false, two: true, fams: f(true, true) },
        CodecDesc { ext: true, two: false, fams: f(true, false) },
    ]
}

/// one frame as a case; so that the boundary stream is not single-chunk only, every 5th case arrives in two reads
/// (split in the middle, or inside the header) and every 11th byte by byte (short frames)
fn case(kind: &str, desc: &CodecDesc, frame: &[u8]) -> String {
    use std::sync::atomic::{AtomicUsize, Ordering};
    static N: AtomicUsize = AtomicUsize::new(0);
    let n = N.fetch_add(1, Ordering::Relaxed);
    let chunks: Vec<Vec<u8>> = if n % 11 == 10 && frame.len() <= 48 {
        frame.iter().map(|b| vec![*b]).collect()
    } else if n % 5 == 4 && frame.len() >= 2 {
        let k = if n % 10 == 4 { frame.len() / 2 } else { 18.min(frame.len() - 1) };
        vec![frame[..k].to_vec(), frame[k..].to_vec()]
    } else {
        vec![frame.to_vec()]
    };
    let v: Vec<String> = chunks.iter().map(|c| hex(c)).collect();
    format!("({} {} (chunks {}))", kind, desc.term(), v.join(" "))
}

/// UPDATE = ORIGIN, AS_PATH(empty) [, NEXT_HOP], the attribute under test, optional legacy NLRI
fn upd_with(flags: u8, code: u8, value: &[u8], declared_len: Option<usize>, with_nlri: bool) -> Vec<u8> {
    let mut attrs = Vec::new();
    if code != 1 {
        attrs.extend(raw_attr(0x40, 1, &[0]));
    }
    if code != 2 {
        attrs.extend(raw_attr(0x40, 2, &[]));
    }
    if with_nlri && code != 3 {
        attrs.extend(raw_attr(0x40, 3, &[10, 0, 0, 1]));
    }
    let fl = if value.len() > 255 || declared_len.is_some_and(|l| l > 255) { flags | 0x10 } else { flags };
    let mut a = raw_attr(fl, code, value);
    if let Some(l) = declared_len {
        // the attribute's own length field keeps another value; the block length stays consistent with the bytes
        if fl & 0x10 != 0 {
            a[2] = (l >> 8) as u8;
            a[3] = l as u8;
        } else {
            a[2] = l as u8;
        }
    }
    attrs.extend(a);
    let nlri: &[u8] = if with_nlri { &[8, 10] } else { &[] };
    raw_update(&[], &attrs, nlri)
}

fn attr_boundaries(out: &mut Vec<String>, kind: &str, desc: &CodecDesc, flags: u8, code: u8, fields: &[Vec<u8>], with_nlri: bool) {
    let v = cat(fields);
    for k in cuts(fields) {
        out.push(case(kind, desc, &upd_with(flags, code, &v[..k], None, with_nlri)));
        if k != v.len() {
            // inner length says "whole value", the block ends early
            out.push(case(kind, desc, &upd_with(flags, code, &v[..k], Some(v.len()), with_nlri)));
        }
    }
    // one byte more than the structure needs
    let mut w = v.clone();
    w.push(0);
    out.push(case(kind, desc, &upd_with(flags, code, &w, None, with_nlri)));
}

fn v4(ap: bool, id: u32, mask: u8, addr: &[u8]) -> Vec<Vec<u8>> {
    let mut f = Vec::new();
    if ap {
        f.push(id.to_be_bytes().to_vec());
    }
    f.push(vec![mask]);
    f.push(addr[..(mask as usize).div_ceil(8)].to_vec());
    f
}

fn nh_bytes(n: usize) -> Vec<u8> {
    (0..n).map(|i| if (n == 12 || n == 24 || n == 48) && (i < 8 || (24..32).contains(&i)) { 0 } else { 0x20 + i as u8 }).collect()
}

fn open_frame(body_fixed: &[u8], caps: &[u8], op_len: Option<usize>, param_len: Option<usize>) -> Vec<u8> {
    // body_fixed = version .. router id (9 bytes)
    let mut b = body_fixed.to_vec();
    let opl = op_len.unwrap_or(caps.len());
    let pl = param_len.unwrap_or(caps.len() + 2);
    b.push(pl as u8);
    b.push(2);
    b.push(opl as u8);
    b.extend_from_slice(caps);
    raw_frame(1, &b)
}

pub fn boundary_cases() -> Vec<String> {
    let mut out: Vec<String> = Vec::new();
    let seeds = nlri_seeds();
    let v6a: [u8; 16] = [0x20, 1, 0x0d, 0xb8, 0, 1, 0, 2, 0, 0, 0, 0, 0, 0, 0, 1];
    for desc in codecs() {
        let ap = |afi: u16, safi: u8| desc.fams.iter().find(|f| f.0 == afi && f.1 == safi).map(|f| f.2).unwrap_or(false);
        // ---- MP_REACH_NLRI: afi / safi / nh-len / next hop / reserved / NLRI, every next-hop length the code knows
        for (afi, safi) in [(1u16, 1u8), (2, 1), (1, 2), (2, 2)] {
            for nhl in [4usize, 16, 32, 12, 24, 48, 0, 5] {
                let mut f: Vec<Vec<u8>> = vec![afi.to_be_bytes().to_vec(), vec![safi], vec![nhl as u8], nh_bytes(nhl), vec![0]];
                if afi == 1 {
                    f.extend(v4(ap(afi, safi), 1, 24, &[10, 1, 1, 0]));
                    f.extend(v4(ap(afi, safi), 2, 0, &[0, 0, 0, 0]));
                } else {
                    let mut e = Vec::new();
                    if ap(afi, safi) {
                        e.push(1u32.to_be_bytes().to_vec());
                    }
                    e.push(vec![64]);
                    e.push(v6a[..8].to_vec());
                    f.extend(e);
                }
                attr_boundaries(&mut out, "bgp", &desc, 0x80, 14, &f, false);
            }
        }
        // ---- MP_UNREACH_NLRI
        for (afi, safi) in [(1u16, 1u8), (2, 1), (2, 2)] {
            let mut f: Vec<Vec<u8>> = vec![afi.to_be_bytes().to_vec(), vec![safi]];
            if afi == 1 {
                f.extend(v4(ap(afi, safi), 7, 32, &[1, 2, 3, 4]));
            } else {
                if ap(afi, safi) {
                    f.push(7u32.to_be_bytes().to_vec());
                }
                f.push(vec![128]);
                f.push(v6a.to_vec());
            }
            attr_boundaries(&mut out, "bgp", &desc, 0x80, 15, &f, false);
        }
        // ---- AS_PATH (width per session), AS4_PATH, AGGREGATOR, AS4_AGGREGATOR and the fixed-size attributes
        let w = if desc.two { 2 } else { 4 };
        let asn = |n: u32| if w == 2 { (n as u16).to_be_bytes().to_vec() } else { n.to_be_bytes().to_vec() };
        let path: Vec<Vec<u8>> = vec![vec![2], vec![2], asn(65001), asn(23456), vec![1], vec![1], asn(1), vec![3], vec![0]];
        attr_boundaries(&mut out, "bgp", &desc, 0x40, 2, &path, true);
        let path4: Vec<Vec<u8>> = vec![vec![2], vec![2], 65536u32.to_be_bytes().to_vec(), 1u32.to_be_bytes().to_vec(), vec![1], vec![1], 7u32.to_be_bytes().to_vec()];
        attr_boundaries(&mut out, "bgp", &desc, 0xc0, 17, &path4, true);
        attr_boundaries(&mut out, "bgp", &desc, 0xc0, 7, &[vec![0x5b, 0xa0], vec![10, 0, 0, 9]], true);
        attr_boundaries(&mut out, "bgp", &desc, 0xc0, 7, &[vec![0, 0, 0x5b, 0xa0], vec![10, 0, 0, 9]], true);
        attr_boundaries(&mut out, "bgp", &desc, 0xc0, 18, &[vec![0, 1, 0, 0], vec![10, 0, 0, 9]], true);
        attr_boundaries(&mut out, "bgp", &desc, 0x40, 1, &[vec![2]], true);
        attr_boundaries(&mut out, "bgp", &desc, 0x40, 3, &[vec![10, 0, 0, 1]], true);
        attr_boundaries(&mut out, "bgp", &desc, 0x80, 4, &[vec![0, 0, 0, 5]], true);
        attr_boundaries(&mut out, "bgp", &desc, 0x40, 5, &[vec![0, 0, 0, 100]], true);
        attr_boundaries(&mut out, "bgp", &desc, 0x40, 6, &[], true);
        attr_boundaries(&mut out, "bgp", &desc, 0xc0, 8, &[vec![255, 255, 255, 1], vec![255, 255, 255, 2]], true);
        attr_boundaries(&mut out, "bgp", &desc, 0x80, 9, &[vec![10, 0, 0, 7]], true);
        attr_boundaries(&mut out, "bgp", &desc, 0x80, 10, &[vec![10, 0, 0, 8], vec![10, 0, 0, 9]], true);
        attr_boundaries(&mut out, "bgp", &desc, 0xc0, 16, &[vec![0, 2, 0xfd, 0xe8, 0, 0, 0, 100]], true);
        attr_boundaries(&mut out, "bgp", &desc, 0xc0, 32, &[vec![0, 0, 0xfd, 0xe8], vec![0, 0, 0, 1], vec![0, 0, 0, 2]], true);
        attr_boundaries(&mut out, "bgp", &desc, 0x80, 26, &[vec![1], vec![0, 11], vec![0, 0, 0, 0, 0, 0, 0, 100], vec![2], vec![0, 3]], true);
        attr_boundaries(&mut out, "bgp", &desc, 0xc0, 99, &[vec![1, 2, 3]], true);
        // ---- legacy NLRI and withdrawn routes: id / length / address
        let ap4 = ap(1, 1);
        let ent: Vec<Vec<u8>> = [v4(ap4, 1, 24, &[10, 1, 1, 0]), v4(ap4, 2, 32, &[1, 2, 3, 4]), v4(ap4, 3, 0, &[0; 4])].concat();
        let full = cat(&ent);
        let mut attrs = Vec::new();
        attrs.extend(raw_attr(0x40, 1, &[0]));
        attrs.extend(raw_attr(0x40, 2, &[]));
        attrs.extend(raw_attr(0x40, 3, &[10, 0, 0, 1]));
        for k in cuts(&ent) {
            out.push(case("bgp", &desc, &raw_update(&[], &attrs, &full[..k])));
            out.push(case("bgp", &desc, &raw_update(&full[..k], &[], &[])));
            // withdrawn length field one off in both directions, frame length consistent with the bytes
            for d in [-1i32, 1] {
                let mut m = raw_update(&full[..k], &attrs, &full[..k]);
                let wl = (k as i32 + d).max(0) as usize;
                m[19] = (wl >> 8) as u8;
                m[20] = wl as u8;
                out.push(case("bgp", &desc, &m));
            }
        }
        // ---- the fixed parts: header, UPDATE section lengths, OPEN, NOTIFICATION, ROUTE-REFRESH
        let hdr: Vec<Vec<u8>> = vec![vec![0xff; 16], vec![0, 19], vec![4]];
        let h = cat(&hdr);
        for k in cuts(&hdr) {
            out.push(format!("(bgp {} (chunks {}))", desc.term(), hex(&h[..k])));
        }
        for typ in [1u8, 2, 3, 4, 5] {
            for blen in 0usize..=12 {
                out.push(case("bgp", &desc, &raw_frame(typ, &vec![0u8; blen])));
            }
        }
        let upd = raw_update(&full[..0], &attrs, &[]);
        for k in 19..=upd.len() {
            // UPDATE truncated everywhere with the header length fixed up
            let mut m = upd[..k].to_vec();
            m[16] = (k >> 8) as u8;
            m[17] = k as u8;
            out.push(case("bgp", &desc, &m));
        }
        out.push(case("bgp", &desc, &raw_frame(3, &[6, 2])));
        out.push(case("bgp", &desc, &raw_frame(3, &[6])));
        out.push(case("bgp", &desc, &raw_frame(3, &[6, 2, 1, 2, 3])));
        for k in 0..=5 {
            out.push(case("bgp", &desc, &raw_frame(5, &[0, 1, 0, 1, 9][..k])));
        }
        // OPEN: fixed fields, then every capability kind cut at every field boundary with cap / parameter lengths consistent
        let fixed: Vec<Vec<u8>> = vec![vec![4], vec![0xfd, 0xe9], vec![0, 90], vec![10, 0, 0, 1]];
        let fx = cat(&fixed);
        for k in cuts(&fixed) {
            out.push(case("bgp", &desc, &raw_frame(1, &fx[..k])));
        }
        out.push(case("bgp", &desc, &raw_frame(1, &[fx.clone(), vec![0]].concat())));
        out.push(case("bgp", &desc, &raw_frame(1, &[fx.clone(), vec![2, 2]].concat())));
        out.push(case("bgp", &desc, &raw_frame(1, &[fx.clone(), vec![1, 2]].concat())));
        let caps: Vec<(u8, Vec<Vec<u8>>)> = vec![
            (1, vec![vec![0, 1], vec![0], vec![1]]),
            (2, vec![]),
            (5, vec![vec![0, 1, 0, 1], vec![0, 2], vec![0, 1, 0, 128], vec![0, 2]]),
            (6, vec![]),
            (64, vec![vec![0x80, 120], vec![0, 1], vec![1], vec![0x80], vec![0, 2], vec![1], vec![0]]),
            (65, vec![vec![0, 1, 0, 0]]),
            (69, vec![vec![0, 1], vec![1], vec![3], vec![0, 2], vec![1], vec![0]]),
            (70, vec![]),
            (71, vec![vec![0, 1], vec![1], vec![0x80], vec![0, 0x0e, 0x10]]),
            (73, vec![vec![2], b"r1".to_vec(), vec![3], b"net".to_vec()]),
            (200, vec![vec![1, 2, 3]]),
        ];
        for (code, fields) in &caps {
            let v = cat(fields);
            let mut ks = cuts(fields);
            ks.push(v.len() + 1);
            for k in ks {
                let mut val = v.clone();
                val.resize(k.max(v.len()), 0);
                let val = &val[..k];
                // consistent cap_len
                let mut c = vec![*code, k as u8];
                c.extend_from_slice(val);
                out.push(case("bgp", &desc, &open_frame(&fx, &c, None, None)));
                // cap_len says "whole value", optional parameter ends early
                let mut c2 = vec![*code, v.len() as u8];
                c2.extend_from_slice(val);
                out.push(case("bgp", &desc, &open_frame(&fx, &c2, None, None)));
                // parameter lengths one short / one long
                out.push(case("bgp", &desc, &open_frame(&fx, &c, Some(c.len().saturating_sub(1)), None)));
                out.push(case("bgp", &desc, &open_frame(&fx, &c, Some(c.len() + 1), None)));
                out.push(case("bgp", &desc, &open_frame(&fx, &c, None, Some(c.len() + 1))));
                out.push(case("bgp", &desc, &open_frame(&fx, &c, None, Some(c.len() + 3))));
                // followed by a second capability
                let mut c3 = c.clone();
                c3.extend_from_slice(&[2, 0]);
                out.push(case("bgp", &desc, &open_frame(&fx, &c3, None, None)));
            }
        }
    }
    // ---- capability VALUES: every capability arm with every capability length 0..=251 (cap / parameter lengths
    //      consistent, three fill patterns), then the FQDN-internal length octets and the tuple values of ADD-PATH,
    //      graceful restart, LLGR and extended next hop
    {
        let desc = codecs().remove(0);
        let fixed: Vec<Vec<u8>> = vec![vec![4], vec![0xfd, 0xe9], vec![0, 90], vec![10, 0, 0, 1]];
        let fx = cat(&fixed);
        let one = |out: &mut Vec<String>, code: u8, cap_len: usize, val: &[u8]| {
            let mut c = vec![code, cap_len as u8];
            c.extend_from_slice(val);
            if c.len() + 2 <= 255 {
                out.push(case("bgp", &desc, &open_frame(&fx, &c, None, None)));
            }
        };
        for code in [1u8, 2, 5, 6, 64, 65, 69, 70, 71, 73, 200] {
            for l in 0usize..=251 {
                for pat in 0..3 {
                    let val: Vec<u8> = (0..l).map(|i| match pat { 0 => 0u8, 1 => 0xff, _ => (i as u8).wrapping_mul(7).wrapping_add(1) }).collect();
                    one(&mut out, code, l, &val);
                }
            }
        }
        // FQDN: host length x domain length x capability length, bytes present or not
        for cap_len in [2usize, 3, 4, 5, 10, 250, 251] {
            for hostlen in [0usize, 1, 2, 3, 8, 247, 248, 249, 250, 251, 252, 253, 254, 255] {
                for domlen in [0usize, 1, 2, 5, 247, 248, 249, 250, 251, 252, 253, 254, 255] {
                    let mut val = vec![hostlen as u8];
                    val.extend(std::iter::repeat(b'h').take(hostlen));
                    val.push(domlen as u8);
                    val.extend(std::iter::repeat(b'd').take(domlen));
                    val.resize(cap_len, b'x');
                    one(&mut out, 73, cap_len, &val);
                }
            }
        }
        // ADD-PATH / GR / LLGR / extended next hop: tuple contents
        for v in [0u8, 1, 2, 3, 4, 255] {
            for (afi, safi) in [(1u16, 1u8), (2, 1), (1, 128), (25, 70), (0, 0), (65535, 255)] {
                let a = afi.to_be_bytes();
                one(&mut out, 69, 4, &[a[0], a[1], safi, v]);
                one(&mut out, 69, 8, &[0, 1, 1, 3, a[0], a[1], safi, v]);
                one(&mut out, 64, 6, &[0x80 | (v & 0xf), 120, a[0], a[1], safi, v]);
                one(&mut out, 71, 7, &[a[0], a[1], safi, v, v, v, v]);
                one(&mut out, 5, 6, &[a[0], a[1], 0, safi, 0, v]);
                one(&mut out, 5, 12, &[0, 1, 0, 1, 0, 2, a[0], a[1], 0, safi, a[0], a[1]]);
            }
        }
    }
    // ---- attribute sub-structure VALUES (both AS widths): AS_PATH / AS4_PATH segment type and count octets against the
    //      number of AS numbers present; AIGP TLV lengths; the attribute types with canonical flags that carry opaque
    //      bodies (TUNNEL_ENCAP 23, BGP-LS 29, PREFIX_SID 40) and every known type under every flag class, short and
    //      extended length
    for desc in codecs().into_iter().take(2) {
        let w = if desc.two { 2usize } else { 4 };
        for (code, fl, width) in [(2u8, 0x40u8, w), (17, 0xc0, 4)] {
            for st in [0u8, 1, 2, 3, 4, 5, 255] {
                for cnt in [0usize, 1, 2, 3, 127, 128, 254, 255] {
                    for have in [0usize, 1, 2, 3, 254, 255] {
                        if have > 3 && have != cnt {
                            continue;
                        }
                        let mut v = vec![st, cnt as u8];
                        v.extend((0..have * width).map(|i| (i % 251) as u8 + 1));
                        out.push(case("bgp", &desc, &upd_with(fl, code, &v, None, true)));
                        // followed by a second, valid segment
                        let mut v2 = v.clone();
                        v2.extend_from_slice(&[2, 1]);
                        v2.extend(std::iter::repeat(9u8).take(width));
                        out.push(case("bgp", &desc, &upd_with(fl, code, &v2, None, true)));
                    }
                }
            }
        }
        for l in [0usize, 1, 2, 3, 4, 10, 11, 12, 255, 256, 65535] {
            for body in [0usize, 1, 8, 9] {
                let mut v = vec![1u8, (l >> 8) as u8, l as u8];
                v.extend(std::iter::repeat(7u8).take(body));
                out.push(case("bgp", &desc, &upd_with(0x80, 26, &v, None, true)));
                let mut v2 = v.clone();
                v2.extend_from_slice(&[2, 0, 3]);
                out.push(case("bgp", &desc, &upd_with(0x80, 26, &v2, None, true)));
            }
        }
        for code in [1u8, 2, 3, 4, 5, 6, 7, 8, 9, 10, 16, 17, 18, 23, 26, 29, 32, 40, 0, 11, 22, 30, 99, 128, 255] {
            for fl in [0x00u8, 0x40, 0x80, 0xc0, 0x20, 0x60, 0xa0, 0xe0, 0x50, 0x90, 0xd0, 0x4f] {
                for l in [0usize, 1, 3, 4, 6, 8, 12, 255, 256, 300] {
                    let v: Vec<u8> = (0..l).map(|i| (i % 3) as u8).collect();
                    out.push(case("bgp", &desc, &upd_with(fl, code, &v, None, true)));
                }
            }
        }
    }
    // ---- the other families (hypothesis-backed decoders, impl-only): header boundaries and every byte of each seed NLRI
    let d0 = CodecDesc { ext: false, two: false, fams: vec![] };
    for (afi, safi, dir, nl) in &seeds {
        for addpath in [false, true] {
            let desc = CodecDesc { fams: vec![(1, 1, false), (*afi, *safi, addpath)], ..d0.clone() };
            // phase 2 families are in the model: diffed like any `bgp` case
            let xtag = if modelled_family(*afi, *safi) { "bgp" } else { "xbgp" };
            let nhl: usize = match (*afi, *safi) {
                (_, 133) | (_, 134) => 0,
                (1, 128) => 12,
                (2, 128) => 24,
                (2, _) => 16,
                _ => 4,
            };
            let mut nlri = Vec::new();
            if addpath {
                nlri.extend_from_slice(&1u32.to_be_bytes());
            }
            nlri.extend_from_slice(nl);
            if dir != "unreach" {
                let f: Vec<Vec<u8>> = vec![afi.to_be_bytes().to_vec(), vec![*safi], vec![nhl as u8], nh_bytes(nhl), vec![0]];
                let head = cat(&f);
                for k in cuts(&f) {
                    out.push(case(xtag, &desc, &upd_with(0x80, 14, &head[..k], None, false)));
                }
                for k in 0..=nlri.len() {
                    let mut v = head.clone();
                    v.extend_from_slice(&nlri[..k]);
                    out.push(case(xtag, &desc, &upd_with(0x80, 14, &v, None, false)));
                }
            }
            if dir != "reach" {
                let f: Vec<Vec<u8>> = vec![afi.to_be_bytes().to_vec(), vec![*safi]];
                let head = cat(&f);
                for k in 0..=nlri.len() {
                    let mut v = head.clone();
                    v.extend_from_slice(&nlri[..k]);
                    out.push(case(xtag, &desc, &upd_with(0x80, 15, &v, None, false)));
                }
            }
        }
    }
    // ---- MUP and BGP-LS (still outside the model, impl-only): inner length / type octets.
    //      (1) every byte of every seed poked with boundary values; MUP body cut with the body-length octet consistent;
    //      (2) BGP-LS built from parts: every NLRI type (1-4, 6 = SRv6 SID, 5 and 99 unknown) x every descriptor TLV that
    //          has a length guard in ls.rs, value lengths around the guard, declared TLV length consistent / one more /
    //          0xffff, the TLV placed after the node descriptors and inside the local node descriptor
    {
        let wrap = |afi: u16, safi: u8, nlri: &[u8], reach: bool| -> String {
            let desc = CodecDesc { ext: true, two: false, fams: vec![(1, 1, false), (afi, safi, false)] };
            let mut v = afi.to_be_bytes().to_vec();
            v.push(safi);
            if reach {
                let nhl = if afi == 2 { 16 } else { 4 };
                v.push(nhl as u8);
                v.extend(nh_bytes(nhl));
                v.push(0);
            }
            v.extend_from_slice(nlri);
            case(if modelled_family(afi, safi) { "bgp" } else { "xbgp" }, &desc, &upd_with(0x80, if reach { 14 } else { 15 }, &v, None, false))
        };
        let pokes = [0u8, 1, 2, 3, 4, 5, 6, 7, 8, 9, 15, 16, 17, 31, 32, 33, 63, 64, 65, 127, 128, 129, 254, 255];
        for (afi, safi, _dir, nl) in seeds.iter().filter(|s| !modelled_family(s.0, s.1)) {
            for i in 0..nl.len() {
                for v in pokes {
                    if nl[i] != v {
                        let mut m = nl.clone();
                        m[i] = v;
                        out.push(wrap(*afi, *safi, &m, true));
                    }
                }
            }
            if *safi == 85 && nl.len() >= 4 {
                for rt in 0u16..=5 {
                    for bl in 0..=(nl.len() - 4) {
                        let mut m = vec![nl[0], (rt >> 8) as u8, rt as u8, bl as u8];
                        m.extend_from_slice(&nl[4..4 + bl]);
                        out.push(wrap(*afi, *safi, &m, true));
                        out.push(wrap(*afi, *safi, &m, false));
                    }
                }
            }
        }
        let tlv = |t: u16, declared: usize, v: &[u8]| -> Vec<u8> {
            let mut b = t.to_be_bytes().to_vec();
            b.extend_from_slice(&(declared as u16).to_be_bytes());
            b.extend_from_slice(v);
            b
        };
        let guarded: [(u16, usize); 17] = [
            (258, 8), (259, 4), (260, 4), (261, 16), (262, 16), (263, 2), (264, 1), (265, 1), (518, 20),
            (512, 4), (513, 4), (514, 4), (515, 4), (516, 4), (517, 4), (256, 0), (999, 0),
        ];
        let node = |container: u16, extra: &[u8]| -> Vec<u8> {
            let mut inner = tlv(512, 4, &65001u32.to_be_bytes());
            inner.extend(tlv(515, 4, &[10, 0, 0, 1]));
            inner.extend_from_slice(extra);
            tlv(container, inner.len(), &inner)
        };
        for typ in [1u16, 2, 3, 4, 5, 6, 99] {
            for (t, g) in guarded {
                let mut ls: Vec<usize> = vec![0, 1, g.saturating_sub(1), g, g + 1, g + 3];
                ls.sort();
                ls.dedup();
                for l in ls {
                    let val: Vec<u8> = (0..l).map(|i| if t == 265 && i == 0 { 24 } else { i as u8 + 1 }).collect();
                    for decl in [l, l + 1, 0xffff] {
                        let x = tlv(t, decl, &val);
                        for inside in [false, true] {
                            let mut body = vec![2u8];
                            body.extend_from_slice(&7u64.to_be_bytes());
                            body.extend(node(256, if inside { &x } else { &[] }));
                            if typ == 2 {
                                body.extend(node(257, &[]));
                            }
                            if !inside {
                                body.extend_from_slice(&x);
                            }
                            let mut n = typ.to_be_bytes().to_vec();
                            n.extend_from_slice(&(body.len() as u16).to_be_bytes());
                            n.extend_from_slice(&body);
                            out.push(wrap(16388, 71, &n, true));
                        }
                    }
                }
            }
            // bodies shorter than the fixed part, and a body without / with a wrong first descriptor
            for bl in 0usize..=12 {
                let mut n = typ.to_be_bytes().to_vec();
                n.extend_from_slice(&(bl as u16).to_be_bytes());
                n.extend(std::iter::repeat(1u8).take(bl));
                out.push(wrap(16388, 71, &n, true));
            }
        }
        // IP reachability: prefix length octet against the bytes present
        for plen in [0u8, 1, 8, 24, 32, 33, 128, 129, 255] {
            for have in [0usize, 1, 3, 4, 16, 17, 31, 32] {
                let mut val = vec![plen];
                val.extend(std::iter::repeat(9u8).take(have));
                let mut body = vec![2u8];
                body.extend_from_slice(&7u64.to_be_bytes());
                body.extend(node(256, &[]));
                body.extend(tlv(265, val.len(), &val));
                for typ in [3u16, 4] {
                    let mut n = typ.to_be_bytes().to_vec();
                    n.extend_from_slice(&(body.len() as u16).to_be_bytes());
                    n.extend_from_slice(&body);
                    out.push(wrap(16388, 71, &n, true));
                }
            }
        }
    }
    // ---- RTR: every PDU type, cut at every field boundary; declared length consistent with the bytes, or original
    let rtr: Vec<Vec<Vec<u8>>> = vec![
        vec![vec![1], vec![0], vec![0, 7], vec![0, 0, 0, 12], vec![0, 0, 0, 9]],
        vec![vec![1], vec![1], vec![0, 7], vec![0, 0, 0, 12], vec![0, 0, 0, 9]],
        vec![vec![1], vec![2], vec![0, 0], vec![0, 0, 0, 8]],
        vec![vec![1], vec![3], vec![0, 7], vec![0, 0, 0, 8]],
        vec![vec![1], vec![4], vec![0, 0], vec![0, 0, 0, 20], vec![1], vec![24], vec![24], vec![0], vec![10, 1, 1, 0], vec![0, 0, 0xfd, 0xe9]],
        vec![vec![1], vec![6], vec![0, 0], vec![0, 0, 0, 32], vec![1], vec![48], vec![64], vec![0], vec![0x20, 1, 0x0d, 0xb8, 0, 0, 0, 0, 0, 0, 0, 0, 0, 0, 0, 0], vec![0, 0, 0xfd, 0xe9]],
        vec![vec![1], vec![7], vec![0, 7], vec![0, 0, 0, 24], vec![0, 0, 0, 9], vec![0, 0, 0x0e, 0x10], vec![0, 0, 2, 0x58], vec![0, 0, 0x1c, 0x20]],
        vec![vec![0], vec![7], vec![0, 7], vec![0, 0, 0, 12], vec![0, 0, 0, 9]],
        vec![vec![1], vec![8], vec![0, 0], vec![0, 0, 0, 8]],
        vec![vec![1], vec![10], vec![0, 2], vec![0, 0, 0, 20], vec![0, 0, 0, 8], vec![1, 2, 0, 0, 0, 0, 0, 8]],
        vec![vec![1], vec![9], vec![0, 0], vec![0, 0, 0, 12], vec![1, 2, 3, 4]],
    ];
    for f in &rtr {
        let v = cat(f);
        for k in cuts(f) {
            out.push(format!("(rtr (chunks {}))", hex(&v[..k])));
            if k >= 8 {
                let mut m = v[..k].to_vec();
                m[4..8].copy_from_slice(&(k as u32).to_be_bytes());
                out.push(format!("(rtr (chunks {}))", hex(&m)));
                // followed by a complete Reset Query: the stream must go on or end with an error
                m.extend_from_slice(&[1, 2, 0, 0, 0, 0, 0, 8]);
                out.push(format!("(rtr (chunks {}))", hex(&m)));
            }
        }
    }
    // ---- BFD: fixed header fields; length octet consistent with the datagram, or 24
    let bfd: Vec<Vec<u8>> = vec![vec![0x20], vec![0xc0], vec![3], vec![24], vec![0, 0, 0, 1], vec![0, 0, 0, 2], vec![0, 1, 0x86, 0xa0], vec![0, 3, 0x0d, 0x40], vec![0, 0, 0, 0]];
    let v = cat(&bfd);
    let mut ks = cuts(&bfd);
    ks.extend([25usize, 26, 30]);
    for k in ks {
        let mut m = v.clone();
        m.resize(k.max(v.len()), 0);
        let m = m[..k].to_vec();
        out.push(format!("(bfd {})", hex(&m)));
        if k >= 4 {
            let mut m2 = m.clone();
            m2[3] = k as u8;
            out.push(format!("(bfd {})", hex(&m2)));
        }
    }
    for l in [0u8, 1, 3, 4, 23, 24, 25, 255] {
        // a datagram whose length octet agrees with its (short) size
        let mut m = vec![0x20u8, 0xc0, 3, l];
        m.resize((l as usize).max(4), 0);
        m.truncate((l as usize).max(4));
        out.push(format!("(bfd {})", hex(&m)));
        out.push(format!("(bfd {})", hex(&m[..(l as usize).min(m.len())])));
    }
    out
}
