// Shared glue for the C03 / C05 harness binaries (included with #[path] from src/bin/c03.rs, c05.rs).
// Runs the REAL wire decoders of /repo/packet and prints canonical observations
// (see lean/Rbgp/Wire/Codec.lean for the grammar; both sides must print identical lines).
#![allow(dead_code)]

use bytes::BytesMut;
use rustybgp_packet::bgp::{
    Attribute, Capability, Family, Message, Nexthop, Nlri, Notification, ParsedMessage, ParsedUpdate, PathNlri,
    PeerCodec, Update,
};
use std::panic::{AssertUnwindSafe, catch_unwind};
use verif_pt::sexp::Term;

pub fn silence_panics() {
    if std::env::var("VERIF_LOUD").is_err() {
        std::panic::set_hook(Box::new(|_| {}));
    }
}

// ------------------------------------------------------------------ codec description
#[derive(Clone, Debug)]
pub struct CodecDesc {
    pub ext: bool,
    pub two: bool,
    pub fams: Vec<(u16, u8, bool)>,
}

/// Families whose NLRI decoder is transcribed in the Lean model (theorem-backed).
pub fn modelled_family(afi: u16, safi: u8) -> bool {
    // IPv4/IPv6 unicast+multicast; phase 2: labeled (4), VPN (128), SR policy (73), flowspec (133, 134), RTC (1/132),
    // EVPN (25/70)
    ((afi == 1 || afi == 2)
        && (safi == 1 || safi == 2 || safi == 4 || safi == 128 || safi == 73 || safi == 133 || safi == 134))
        || (afi == 1 && safi == 132)
        || (afi == 25 && safi == 70)
}

impl CodecDesc {
    pub fn parse(t: &Term) -> Option<CodecDesc> {
        let a = t.tagged("codec")?;
        if a.len() != 3 {
            return None;
        }
        let ext = a[0].as_bool()?;
        let two = a[1].as_bool()?;
        let mut fams = Vec::new();
        for f in a[2].tagged("fams")? {
            let l = f.as_list()?;
            if l.len() != 3 {
                return None;
            }
            let afi = l[0].as_u64()?;
            let safi = l[1].as_u64()?;
            if afi > 65535 || safi > 255 {
                return None;
            }
            fams.push((afi as u16, safi as u8, l[2].as_bool()?));
        }
        Some(CodecDesc { ext, two, fams })
    }
    pub fn term(&self) -> Term {
        Term::tag(
            "codec",
            vec![
                Term::boolean(self.ext),
                Term::boolean(self.two),
                Term::tag(
                    "fams",
                    self.fams
                        .iter()
                        .map(|(a, s, p)| Term::list(vec![Term::nat(*a), Term::nat(*s), Term::boolean(*p)]))
                        .collect(),
                ),
            ],
        )
    }
    /// Build the real PeerCodec through the repo's own negotiation.  The third component of a family is the RECEIVE
    /// direction of ADD-PATH (what the decoders must use).  The SEND direction is made to differ from it in about half
    /// of the codecs (parity of afi + safi + ext + two): local / remote ADD-PATH modes are chosen so that
    /// `addpath_tx == !addpath_rx` there, so a decoder that looks at the wrong direction mis-frames the NLRI.
    pub fn build(&self) -> PeerCodec {
        let mut local: Vec<Capability> = Vec::new();
        let mut remote: Vec<Capability> = Vec::new();
        let mut apl = Vec::new();
        let mut apr = Vec::new();
        for (afi, safi, rx) in &self.fams {
            let f = Family::new(*afi, *safi);
            local.push(Capability::MultiProtocol(f));
            remote.push(Capability::MultiProtocol(f));
            let alt = (*afi as u32 + *safi as u32 + self.ext as u32 + self.two as u32) % 2 == 0;
            // (local mode, remote mode): 1 = receive, 2 = send, 3 = both
            let (l, r) = match (*rx, alt) {
                (true, true) => (1u8, 2u8),  // rx only
                (true, false) => (3, 3),     // both
                (false, true) => (2, 1),     // tx only
                (false, false) => (0, 0),    // none
            };
            if l != 0 {
                apl.push((f, l));
            }
            if r != 0 {
                apr.push((f, r));
            }
        }
        if !apl.is_empty() {
            local.push(Capability::AddPath(apl));
        }
        if !apr.is_empty() {
            remote.push(Capability::AddPath(apr));
        }
        for caps in [&mut local, &mut remote] {
            if self.ext {
                caps.push(Capability::ExtendedMessage);
            }
            if !self.two {
                caps.push(Capability::FourOctetAsNumber(65001));
            }
        }
        let c = PeerCodec::negotiate(&local, &remote);
        assert_eq!(c.extended_length, self.ext);
        assert_eq!(c.two_byte_as, self.two);
        c
    }
    pub fn all_modelled(&self) -> bool {
        self.fams.iter().all(|(a, s, _)| modelled_family(*a, *s))
    }
    /// later duplicates of a family overwrite earlier ones in negotiate(); reject such cases on both sides
    pub fn distinct(&self) -> bool {
        for i in 0..self.fams.len() {
            for j in 0..i {
                if self.fams[i].0 == self.fams[j].0 && self.fams[i].1 == self.fams[j].1 {
                    return false;
                }
            }
        }
        true
    }
}

// ------------------------------------------------------------------ printing
pub fn fam_t(f: Family) -> Term {
    Term::list(vec![Term::nat(f.afi()), Term::nat(f.safi())])
}

pub fn nexthop_t(n: &Option<Nexthop>) -> Term {
    match n {
        None => Term::atom("none"),
        Some(n) => Term::bytes(&n.to_bytes()),
    }
}

fn label_bytes(ls: &[rustybgp_packet::mpls::MplsLabel]) -> Vec<u8> {
    let mut b = Vec::new();
    for l in ls {
        let v = l.value();
        b.extend_from_slice(&[(v >> 16) as u8, (v >> 8) as u8, v as u8]);
    }
    b
}

/// the decoded route distinguisher, field by field (type, administrator, assigned number)
fn rd_bytes(rd: &rustybgp_packet::rd::RouteDistinguisher) -> Vec<u8> {
    use rustybgp_packet::rd::RouteDistinguisher as R;
    let mut b = Vec::new();
    match rd {
        R::TwoOctetAs { admin, assigned } => {
            b.extend_from_slice(&0u16.to_be_bytes());
            b.extend_from_slice(&admin.to_be_bytes());
            b.extend_from_slice(&assigned.to_be_bytes());
        }
        R::Ipv4 { admin, assigned } => {
            b.extend_from_slice(&1u16.to_be_bytes());
            b.extend_from_slice(&admin.octets());
            b.extend_from_slice(&assigned.to_be_bytes());
        }
        R::FourOctetAs { admin, assigned } => {
            b.extend_from_slice(&2u16.to_be_bytes());
            b.extend_from_slice(&admin.to_be_bytes());
            b.extend_from_slice(&assigned.to_be_bytes());
        }
    }
    b
}

fn ops_bytes(t: u8, ops: &[rustybgp_packet::flowspec::Op]) -> Vec<u8> {
    let mut b = vec![t];
    for op in ops {
        b.push(op.bits);
        b.extend_from_slice(&op.value.to_be_bytes());
    }
    b
}

fn fs4_bytes(c: &rustybgp_packet::flowspec::FlowspecV4Component) -> Vec<u8> {
    use rustybgp_packet::flowspec::FlowspecV4Component as C;
    let pfx = |t: u8, n: &rustybgp_packet::bgp::Ipv4Net| -> Vec<u8> {
        let mut b = vec![t, n.mask];
        b.extend_from_slice(&n.addr.octets());
        b
    };
    match c {
        C::DstPrefix(n) => pfx(1, n),
        C::SrcPrefix(n) => pfx(2, n),
        C::Protocol(o) => ops_bytes(3, o),
        C::Port(o) => ops_bytes(4, o),
        C::DstPort(o) => ops_bytes(5, o),
        C::SrcPort(o) => ops_bytes(6, o),
        C::IcmpType(o) => ops_bytes(7, o),
        C::IcmpCode(o) => ops_bytes(8, o),
        C::TcpFlags(o) => ops_bytes(9, o),
        C::PacketLen(o) => ops_bytes(10, o),
        C::Dscp(o) => ops_bytes(11, o),
        C::Fragment(o) => ops_bytes(12, o),
    }
}

fn fs6_bytes(c: &rustybgp_packet::flowspec::FlowspecV6Component) -> Vec<u8> {
    use rustybgp_packet::flowspec::FlowspecV6Component as C;
    let pfx = |t: u8, n: &rustybgp_packet::bgp::Ipv6Net, off: u8| -> Vec<u8> {
        let mut b = vec![t, n.mask, off];
        b.extend_from_slice(&n.addr.octets());
        b
    };
    match c {
        C::DstPrefix { prefix, offset } => pfx(1, prefix, *offset),
        C::SrcPrefix { prefix, offset } => pfx(2, prefix, *offset),
        C::NextHeader(o) => ops_bytes(3, o),
        C::Port(o) => ops_bytes(4, o),
        C::DstPort(o) => ops_bytes(5, o),
        C::SrcPort(o) => ops_bytes(6, o),
        C::IcmpType(o) => ops_bytes(7, o),
        C::IcmpCode(o) => ops_bytes(8, o),
        C::TcpFlags(o) => ops_bytes(9, o),
        C::PacketLen(o) => ops_bytes(10, o),
        C::Dscp(o) => ops_bytes(11, o),
        C::Fragment(o) => ops_bytes(12, o),
        C::FlowLabel(o) => ops_bytes(13, o),
    }
}

pub fn nlri_t(p: &PathNlri) -> Term {
    match &p.nlri {
        Nlri::V4(n) => Term::list(vec![Term::nat(p.path_id), Term::nat(n.mask), Term::bytes(&n.addr.octets())]),
        Nlri::V6(n) => Term::list(vec![Term::nat(p.path_id), Term::nat(n.mask), Term::bytes(&n.addr.octets())]),
        // phase 2 families: (path id, mask / length bits, canonical bytes), see lean/Rbgp/Wire/Nlri2.lean
        Nlri::VpnV4(n) => {
            let mut b = label_bytes(n.labels.labels());
            b.extend(rd_bytes(&n.rd));
            b.extend_from_slice(&n.prefix.addr.octets());
            Term::list(vec![Term::nat(p.path_id), Term::nat(n.prefix.mask), Term::bytes(&b)])
        }
        Nlri::VpnV6(n) => {
            let mut b = label_bytes(n.labels.labels());
            b.extend(rd_bytes(&n.rd));
            b.extend_from_slice(&n.prefix.addr.octets());
            Term::list(vec![Term::nat(p.path_id), Term::nat(n.prefix.mask), Term::bytes(&b)])
        }
        Nlri::LabeledV4(n) => {
            let mut b = label_bytes(n.labels.labels());
            b.extend_from_slice(&n.prefix.addr.octets());
            Term::list(vec![Term::nat(p.path_id), Term::nat(n.prefix.mask), Term::bytes(&b)])
        }
        Nlri::LabeledV6(n) => {
            let mut b = label_bytes(n.labels.labels());
            b.extend_from_slice(&n.prefix.addr.octets());
            Term::list(vec![Term::nat(p.path_id), Term::nat(n.prefix.mask), Term::bytes(&b)])
        }
        Nlri::Rtc(n) => {
            use rustybgp_packet::rtc::MatchType;
            let (bits, b): (u32, Vec<u8>) = match &n.match_type {
                MatchType::Wildcard => (0, vec![]),
                MatchType::AsWildcard { origin_as } => (32, origin_as.to_be_bytes().to_vec()),
                MatchType::ExactMatch { origin_as, route_target } => {
                    let mut b = origin_as.to_be_bytes().to_vec();
                    b.extend_from_slice(route_target);
                    (96, b)
                }
            };
            Term::list(vec![Term::nat(p.path_id), Term::nat(bits), Term::bytes(&b)])
        }
        Nlri::SrPolicy(n) => {
            let mut b = n.distinguisher.to_be_bytes().to_vec();
            b.extend_from_slice(&n.color.to_be_bytes());
            let bits: u32 = match n.endpoint {
                std::net::IpAddr::V4(a) => {
                    b.extend_from_slice(&a.octets());
                    96
                }
                std::net::IpAddr::V6(a) => {
                    b.extend_from_slice(&a.octets());
                    192
                }
            };
            Term::list(vec![Term::nat(p.path_id), Term::nat(bits), Term::bytes(&b)])
        }
        Nlri::Evpn(n) => {
            use rustybgp_packet::evpn::EvpnNlri as E;
            let ip_b = |ip: &std::net::IpAddr| -> Vec<u8> {
                match ip {
                    std::net::IpAddr::V4(a) => {
                        let mut v = vec![32u8];
                        v.extend_from_slice(&a.octets());
                        v
                    }
                    std::net::IpAddr::V6(a) => {
                        let mut v = vec![128u8];
                        v.extend_from_slice(&a.octets());
                        v
                    }
                }
            };
            let raw_ip = |ip: &std::net::IpAddr| -> Vec<u8> {
                match ip {
                    std::net::IpAddr::V4(a) => a.octets().to_vec(),
                    std::net::IpAddr::V6(a) => a.octets().to_vec(),
                }
            };
            let l3 = |l: u32| -> [u8; 3] { [(l >> 16) as u8, (l >> 8) as u8, l as u8] };
            let (t, b): (u32, Vec<u8>) = match n {
                E::EthernetAutoDiscovery(r) => {
                    let mut b = rd_bytes(&r.rd);
                    b.extend_from_slice(&r.esi.0);
                    b.extend_from_slice(&r.etag.to_be_bytes());
                    b.extend_from_slice(&l3(r.label));
                    (1, b)
                }
                E::MacIpAdvertisement(r) => {
                    let mut b = rd_bytes(&r.rd);
                    b.extend_from_slice(&r.esi.0);
                    b.extend_from_slice(&r.etag.to_be_bytes());
                    b.extend_from_slice(&r.mac);
                    match &r.ip {
                        None => b.push(0),
                        Some(ip) => b.extend(ip_b(ip)),
                    }
                    b.extend_from_slice(&l3(r.label1));
                    match r.label2 {
                        Some(l) => {
                            b.extend_from_slice(&l3(l));
                            b.push(1);
                        }
                        None => b.push(0),
                    }
                    (2, b)
                }
                E::InclusiveMulticastEthernetTag(r) => {
                    let mut b = rd_bytes(&r.rd);
                    b.extend_from_slice(&r.etag.to_be_bytes());
                    b.extend(ip_b(&r.originating_router_ip));
                    (3, b)
                }
                E::EthernetSegment(r) => {
                    let mut b = rd_bytes(&r.rd);
                    b.extend_from_slice(&r.esi.0);
                    b.extend(ip_b(&r.originating_router_ip));
                    (4, b)
                }
                E::EthernetIpPrefix(r) => {
                    let mut b = rd_bytes(&r.rd);
                    b.extend_from_slice(&r.esi.0);
                    b.extend_from_slice(&r.etag.to_be_bytes());
                    b.push(r.prefix_len);
                    b.extend(raw_ip(&r.ip_prefix));
                    b.extend(raw_ip(&r.gateway_ip));
                    b.extend_from_slice(&l3(r.label));
                    (5, b)
                }
            };
            Term::list(vec![Term::nat(p.path_id), Term::nat(t), Term::bytes(&b)])
        }
        Nlri::FlowspecV4(n) => {
            let b: Vec<u8> = n.components.iter().flat_map(fs4_bytes).collect();
            Term::list(vec![Term::nat(p.path_id), Term::nat(n.components.len() as u32), Term::bytes(&b)])
        }
        Nlri::FlowspecV6(n) => {
            let b: Vec<u8> = n.components.iter().flat_map(fs6_bytes).collect();
            Term::list(vec![Term::nat(p.path_id), Term::nat(n.components.len() as u32), Term::bytes(&b)])
        }
        Nlri::FlowspecVpnV4(n) => {
            let mut b = rd_bytes(&n.rd);
            b.extend(n.components.iter().flat_map(fs4_bytes));
            Term::list(vec![Term::nat(p.path_id), Term::nat(n.components.len() as u32), Term::bytes(&b)])
        }
        Nlri::FlowspecVpnV6(n) => {
            let mut b = rd_bytes(&n.rd);
            b.extend(n.components.iter().flat_map(fs6_bytes));
            Term::list(vec![Term::nat(p.path_id), Term::nat(n.components.len() as u32), Term::bytes(&b)])
        }
        other => Term::list(vec![Term::nat(p.path_id), Term::atom("other"), Term::bytes(&other.encode_to_bytes())]),
    }
}

pub fn nlris_t(v: &[PathNlri]) -> Term {
    Term::list(v.iter().map(nlri_t).collect())
}

pub fn attr_t(a: &Attribute) -> Term {
    let (kind, data) = if let Some(v) = a.value() {
        ("val", Term::nat(v))
    } else if a.is_opaque() {
        ("opq", Term::bytes(a.binary().unwrap()))
    } else {
        ("bin", Term::bytes(a.binary().unwrap()))
    };
    Term::list(vec![Term::nat(a.code()), Term::nat(a.flags()), Term::atom(kind), data])
}

pub fn cap_t(c: &Capability) -> Term {
    match c {
        Capability::MultiProtocol(f) => Term::tag("mp", vec![raw_family_t(f)]),
        Capability::RouteRefresh => Term::atom("rr"),
        Capability::ExtendedNexthop(v) => Term::tag(
            "enh",
            v.iter().map(|(f, a)| Term::list(vec![raw_family_t(f), Term::nat(*a)])).collect(),
        ),
        Capability::ExtendedMessage => Term::atom("extmsg"),
        Capability::GracefulRestart { flags, restart_time, families } => Term::tag(
            "gr",
            vec![
                Term::nat(*flags),
                Term::nat(*restart_time),
                Term::list(families.iter().map(|(f, fl)| Term::list(vec![raw_family_t(f), Term::nat(*fl)])).collect()),
            ],
        ),
        Capability::FourOctetAsNumber(n) => Term::tag("as4", vec![Term::nat(*n)]),
        Capability::AddPath(v) => {
            Term::tag("addpath", v.iter().map(|(f, m)| Term::list(vec![raw_family_t(f), Term::nat(*m)])).collect())
        }
        Capability::EnhancedRouteRefresh => Term::atom("err"),
        Capability::LongLivedGracefulRestart(v) => Term::tag(
            "llgr",
            v.iter().map(|(f, fl, t)| Term::list(vec![raw_family_t(f), Term::nat(*fl), Term::nat(*t)])).collect(),
        ),
        // host/domain strings pass through lossy UTF-8 handling (invalid UTF-8 => empty string); not compared
        Capability::Fqdn { .. } => Term::atom("fqdn"),
        Capability::Unknown { code, bin } => Term::tag("unk", vec![Term::nat(*code), Term::bytes(bin)]),
    }
}

/// `Family` keeps the raw 32-bit wire value (MULTI_PROTOCOL, EXTENDED_NEXTHOP read it with read_u32): the
/// reserved byte survives in bits 8..15, which afi()/safi() hide.  Recover it through Debug.
fn raw_family_t(f: &Family) -> Term {
    let s = format!("{:?}", f); // "Family(123)"
    let n: String = s.chars().filter(|c| c.is_ascii_digit()).collect();
    Term::atom(n)
}

pub fn notif_t(n: &Notification) -> Vec<Term> {
    vec![
        Term::nat(n.notification_code()),
        Term::nat(n.notification_subcode()),
        Term::bytes(n.notification_data()),
    ]
}

pub fn parsed_t(m: &ParsedMessage) -> Term {
    match m {
        ParsedMessage::Open(o) => Term::tag(
            "open",
            vec![
                Term::nat(o.as_number),
                Term::nat(o.holdtime.seconds()),
                Term::nat(o.router_id),
                Term::list(o.capability.iter().map(cap_t).collect()),
            ],
        ),
        ParsedMessage::Update(ParsedUpdate::EndOfRib(f)) => Term::tag("eor", vec![raw_family_t(f)]),
        ParsedMessage::Update(ParsedUpdate::Routes { reach, mp_reach, unreach, mp_unreach, attrs, error_attrs }) => {
            let r = |x: &Option<rustybgp_packet::ReachNlri>| match x {
                None => Term::atom("none"),
                Some(r) => Term::list(vec![raw_family_t(&r.family), nexthop_t(&r.nexthop), nlris_t(&r.entries)]),
            };
            let u = |x: &Option<rustybgp_packet::UnreachNlri>| match x {
                None => Term::atom("none"),
                Some(r) => Term::list(vec![raw_family_t(&r.family), nlris_t(&r.entries)]),
            };
            Term::tag(
                "update",
                vec![
                    r(reach),
                    r(mp_reach),
                    u(unreach),
                    u(mp_unreach),
                    Term::list(attrs.iter().map(attr_t).collect()),
                    Term::list(
                        error_attrs
                            .iter()
                            .map(|e| Term::list(vec![Term::nat(e.attr_code), Term::nat(e.attr_flags)]))
                            .collect(),
                    ),
                ],
            )
        }
        ParsedMessage::Notification(n) => Term::tag("notif", notif_t(n)),
        ParsedMessage::Keepalive => Term::atom("keepalive"),
        ParsedMessage::RouteRefresh { family } => Term::tag("refresh", vec![raw_family_t(family)]),
    }
}

/// Send-path `Message` as produced by validate_message (C05).
pub fn message_t(m: &Message) -> Term {
    match m {
        Message::Open(_) => Term::atom("open"),
        Message::Update(Update::Reach { family, entries, nexthop, attr }) => Term::tag(
            "reach",
            vec![
                raw_family_t(family),
                nexthop_t(nexthop),
                nlris_t(entries),
                Term::list(attr.iter().map(attr_t).collect()),
            ],
        ),
        Message::Update(Update::Unreach { family, entries }) => {
            Term::tag("unreach", vec![raw_family_t(family), nlris_t(entries)])
        }
        Message::Update(Update::EndOfRib(f)) => Term::tag("eor", vec![raw_family_t(f)]),
        Message::Notification(n) => Term::tag("notif", notif_t(n)),
        Message::Keepalive => Term::atom("keepalive"),
        Message::RouteRefresh { family } => Term::tag("refresh", vec![raw_family_t(family)]),
    }
}

// ------------------------------------------------------------------ the stream loop (tokio `Framed` / run_select shape)
pub enum Step {
    Msg { consumed: usize, rem: usize, msg: ParsedMessage },
    More { rem: usize },
    Err { consumed: usize, rem: usize, n: Notification },
    Panic,
}

pub fn try_parse_step(codec: &mut PeerCodec, buf: &mut BytesMut) -> Step {
    let before = buf.len();
    let r = catch_unwind(AssertUnwindSafe(|| codec.try_parse(buf)));
    match r {
        Err(_) => Step::Panic,
        Ok(Ok(Some(m))) => Step::Msg { consumed: before - buf.len(), rem: buf.len(), msg: m },
        Ok(Ok(None)) => Step::More { rem: buf.len() },
        Ok(Err(n)) => Step::Err { consumed: before - buf.len(), rem: buf.len(), n },
    }
}

/// a byte string: one atom `x<hex>` or a list of such atoms (concatenated; long strings are split)
pub fn bytes_of(t: &Term) -> Option<Vec<u8>> {
    match t {
        Term::Atom(_) => t.as_bytes(),
        Term::List(l) => {
            let mut v = Vec::new();
            for x in l {
                v.extend(x.as_bytes()?);
            }
            Some(v)
        }
    }
}

/// printing counterpart: at most 32 bytes per atom
pub fn bytes_split_t(b: &[u8]) -> Term {
    if b.len() <= 32 {
        Term::bytes(b)
    } else {
        Term::list(b.chunks(32).map(Term::bytes).collect())
    }
}

pub fn chunks_of(t: &Term) -> Option<Vec<Vec<u8>>> {
    t.tagged("chunks")?.iter().map(bytes_of).collect()
}
