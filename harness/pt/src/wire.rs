// Shared glue for the C03 / C05 harness binaries (included with #[path] from src/bin/c03.rs, c05.rs).
// Runs the REAL wire decoders of /repo/packet and prints canonical observations
// (see lean/Rbgp/Wire/Codec.lean for the grammar; both sides must print identical lines).
#![allow(dead_code)]

use bytes::BytesMut;
use rustybgp_packet::bgp::{
    Attribute, Capability, Family, Message, Nexthop, Nlri, Notification, ParsedMessage, ParsedUpdate, PathNlri,
    PeerCodec, Update,
};
use std::panic::{AssertUnwindSafe, catch_unwind};
use verif_pt::sexp::Term;

pub fn silence_panics() {
    if std::env::var("VERIF_LOUD").is_err() {
        std::panic::set_hook(Box::new(|_| {}));
    }
}

// ------------------------------------------------------------------ codec description
#[derive(Clone, Debug)]
pub struct CodecDesc {
    pub ext: bool,
    pub two: bool,
    pub fams: Vec<(u16, u8, bool)>,
}

/// Families whose NLRI decoder is transcribed in the Lean model (theorem-backed).
pub fn modelled_family(afi: u16, safi: u8) -> bool {
    (afi == 1 || afi == 2) && (safi == 1 || safi == 2)
}

impl CodecDesc {
    pub fn parse(t: &Term) -> Option<CodecDesc> {
        let a = t.tagged("codec")?;
        if a.len() != 3 {
            return None;
        }
        let ext = a[0].as_bool()?;
        let two = a[1].as_bool()?;
        let mut fams = Vec::new();
        for f in a[2].tagged("fams")? {
            let l = f.as_list()?;
            if l.len() != 3 {
                return None;
            }
            let afi = l[0].as_u64()?;
            let safi = l[1].as_u64()?;
            if afi > 65535 || safi > 255 {
                return None;
            }
            fams.push((afi as u16, safi as u8, l[2].as_bool()?));
        }
        Some(CodecDesc { ext, two, fams })
    }
    pub fn term(&self) -> Term {
        Term::tag(
            "codec",
            vec![
                Term::boolean(self.ext),
                Term::boolean(self.two),
                Term::tag(
                    "fams",
                    self.fams
                        .iter()
                        .map(|(a, s, p)| Term::list(vec![Term::nat(*a), Term::nat(*s), Term::boolean(*p)]))
                        .collect(),
                ),
            ],
        )
    }
    /// Build the real PeerCodec through the repo's own negotiation (both sides advertise the same set).
    pub fn build(&self) -> PeerCodec {
        let mut caps: Vec<Capability> = Vec::new();
        let mut ap = Vec::new();
        for (afi, safi, addpath) in &self.fams {
            let f = Family::new(*afi, *safi);
            caps.push(Capability::MultiProtocol(f));
            if *addpath {
                ap.push((f, 3u8));
            }
        }
        if !ap.is_empty() {
            caps.push(Capability::AddPath(ap));
        }
        if self.ext {
            caps.push(Capability::ExtendedMessage);
        }
        if !self.two {
            caps.push(Capability::FourOctetAsNumber(65001));
        }
        let c = PeerCodec::negotiate(&caps, &caps);
        assert_eq!(c.extended_length, self.ext);
        assert_eq!(c.two_byte_as, self.two);
        c
    }
    pub fn all_modelled(&self) -> bool {
        self.fams.iter().all(|(a, s, _)| modelled_family(*a, *s))
    }
    /// later duplicates of a family overwrite earlier ones in negotiate(); reject such cases on both sides
    pub fn distinct(&self) -> bool {
        for i in 0..self.fams.len() {
            for j in 0..i {
                if self.fams[i].0 == self.fams[j].0 && self.fams[i].1 == self.fams[j].1 {
                    return false;
                }
            }
        }
        true
    }
}

// ------------------------------------------------------------------ printing
pub fn fam_t(f: Family) -> Term {
    Term::list(vec![Term::nat(f.afi()), Term::nat(f.safi())])
}

pub fn nexthop_t(n: &Option<Nexthop>) -> Term {
    match n {
        None => Term::atom("none"),
        Some(n) => Term::bytes(&n.to_bytes()),
    }
}

pub fn nlri_t(p: &PathNlri) -> Term {
    match &p.nlri {
        Nlri::V4(n) => Term::list(vec![Term::nat(p.path_id), Term::nat(n.mask), Term::bytes(&n.addr.octets())]),
        Nlri::V6(n) => Term::list(vec![Term::nat(p.path_id), Term::nat(n.mask), Term::bytes(&n.addr.octets())]),
        other => Term::list(vec![Term::nat(p.path_id), Term::atom("other"), Term::bytes(&other.encode_to_bytes())]),
    }
}

pub fn nlris_t(v: &[PathNlri]) -> Term {
    Term::list(v.iter().map(nlri_t).collect())
}

pub fn attr_t(a: &Attribute) -> Term {
    let (kind, data) = if let Some(v) = a.value() {
        ("val", Term::nat(v))
    } else if a.is_opaque() {
        ("opq", Term::bytes(a.binary().unwrap()))
    } else {
        ("bin", Term::bytes(a.binary().unwrap()))
    };
    Term::list(vec![Term::nat(a.code()), Term::nat(a.flags()), Term::atom(kind), data])
}

pub fn cap_t(c: &Capability) -> Term {
    match c {
        Capability::MultiProtocol(f) => Term::tag("mp", vec![raw_family_t(f)]),
        Capability::RouteRefresh => Term::atom("rr"),
        Capability::ExtendedNexthop(v) => Term::tag(
            "enh",
            v.iter().map(|(f, a)| Term::list(vec![raw_family_t(f), Term::nat(*a)])).collect(),
        ),
        Capability::ExtendedMessage => Term::atom("extmsg"),
        Capability::GracefulRestart { flags, restart_time, families } => Term::tag(
            "gr",
            vec![
                Term::nat(*flags),
                Term::nat(*restart_time),
                Term::list(families.iter().map(|(f, fl)| Term::list(vec![raw_family_t(f), Term::nat(*fl)])).collect()),
            ],
        ),
        Capability::FourOctetAsNumber(n) => Term::tag("as4", vec![Term::nat(*n)]),
        Capability::AddPath(v) => {
            Term::tag("addpath", v.iter().map(|(f, m)| Term::list(vec![raw_family_t(f), Term::nat(*m)])).collect())
        }
        Capability::EnhancedRouteRefresh => Term::atom("err"),
        Capability::LongLivedGracefulRestart(v) => Term::tag(
            "llgr",
            v.iter().map(|(f, fl, t)| Term::list(vec![raw_family_t(f), Term::nat(*fl), Term::nat(*t)])).collect(),
        ),
        // host/domain strings pass through lossy UTF-8 handling (invalid UTF-8 => empty string); not compared
        Capability::Fqdn { .. } => Term::atom("fqdn"),
        Capability::Unknown { code, bin } => Term::tag("unk", vec![Term::nat(*code), Term::bytes(bin)]),
    }
}

/// `Family` keeps the raw 32-bit wire value (MULTI_PROTOCOL, EXTENDED_NEXTHOP read it with read_u32): the
/// reserved byte survives in bits 8..15, which afi()/safi() hide.  Recover it through Debug.
fn raw_family_t(f: &Family) -> Term {
    let s = format!("{:?}", f); // "Family(123)"
    let n: String = s.chars().filter(|c| c.is_ascii_digit()).collect();
    Term::atom(n)
}

pub fn notif_t(n: &Notification) -> Vec<Term> {
    vec![
        Term::nat(n.notification_code()),
        Term::nat(n.notification_subcode()),
        Term::bytes(n.notification_data()),
    ]
}

pub fn parsed_t(m: &ParsedMessage) -> Term {
    match m {
        ParsedMessage::Open(o) => Term::tag(
            "open",
            vec![
                Term::nat(o.as_number),
                Term::nat(o.holdtime.seconds()),
                Term::nat(o.router_id),
                Term::list(o.capability.iter().map(cap_t).collect()),
            ],
        ),
        ParsedMessage::Update(ParsedUpdate::EndOfRib(f)) => Term::tag("eor", vec![raw_family_t(f)]),
        ParsedMessage::Update(ParsedUpdate::Routes { reach, mp_reach, unreach, mp_unreach, attrs, error_attrs }) => {
            let r = |x: &Option<rustybgp_packet::ReachNlri>| match x {
                None => Term::atom("none"),
                Some(r) => Term::list(vec![raw_family_t(&r.family), nexthop_t(&r.nexthop), nlris_t(&r.entries)]),
            };
            let u = |x: &Option<rustybgp_packet::UnreachNlri>| match x {
                None => Term::atom("none"),
                Some(r) => Term::list(vec![raw_family_t(&r.family), nlris_t(&r.entries)]),
            };
            Term::tag(
                "update",
                vec![
                    r(reach),
                    r(mp_reach),
                    u(unreach),
                    u(mp_unreach),
                    Term::list(attrs.iter().map(attr_t).collect()),
                    Term::list(
                        error_attrs
                            .iter()
                            .map(|e| Term::list(vec![Term::nat(e.attr_code), Term::nat(e.attr_flags)]))
                            .collect(),
                    ),
                ],
            )
        }
        ParsedMessage::Notification(n) => Term::tag("notif", notif_t(n)),
        ParsedMessage::Keepalive => Term::atom("keepalive"),
        ParsedMessage::RouteRefresh { family } => Term::tag("refresh", vec![raw_family_t(family)]),
    }
}

/// Send-path `Message` as produced by validate_message (C05).
pub fn message_t(m: &Message) -> Term {
    match m {
        Message::Open(_) => Term::atom("open"),
        Message::Update(Update::Reach { family, entries, nexthop, attr }) => Term::tag(
            "reach",
            vec![
                raw_family_t(family),
                nexthop_t(nexthop),
                nlris_t(entries),
                Term::list(attr.iter().map(attr_t).collect()),
            ],
        ),
        Message::Update(Update::Unreach { family, entries }) => {
            Term::tag("unreach", vec![raw_family_t(family), nlris_t(entries)])
        }
        Message::Update(Update::EndOfRib(f)) => Term::tag("eor", vec![raw_family_t(f)]),
        Message::Notification(n) => Term::tag("notif", notif_t(n)),
        Message::Keepalive => Term::atom("keepalive"),
        Message::RouteRefresh { family } => Term::tag("refresh", vec![raw_family_t(family)]),
    }
}

// ------------------------------------------------------------------ the stream loop (tokio `Framed` / run_select shape)
pub enum Step {
    Msg { consumed: usize, rem: usize, msg: ParsedMessage },
    More { rem: usize },
    Err { consumed: usize, rem: usize, n: Notification },
    Panic,
}

pub fn try_parse_step(codec: &mut PeerCodec, buf: &mut BytesMut) -> Step {
    let before = buf.len();
    let r = catch_unwind(AssertUnwindSafe(|| codec.try_parse(buf)));
    match r {
        Err(_) => Step::Panic,
        Ok(Ok(Some(m))) => Step::Msg { consumed: before - buf.len(), rem: buf.len(), msg: m },
        Ok(Ok(None)) => Step::More { rem: buf.len() },
        Ok(Err(n)) => Step::Err { consumed: before - buf.len(), rem: buf.len(), n },
    }
}

/// a byte string: one atom `x<hex>` or a list of such atoms (concatenated; long strings are split)
pub fn bytes_of(t: &Term) -> Option<Vec<u8>> {
    match t {
        Term::Atom(_) => t.as_bytes(),
        Term::List(l) => {
            let mut v = Vec::new();
            for x in l {
                v.extend(x.as_bytes()?);
            }
            Some(v)
        }
    }
}

/// printing counterpart: at most 32 bytes per atom
pub fn bytes_split_t(b: &[u8]) -> Term {
    if b.len() <= 32 {
        Term::bytes(b)
    } else {
        Term::list(b.chunks(32).map(Term::bytes).collect())
    }
}

pub fn chunks_of(t: &Term) -> Option<Vec<Vec<u8>>> {
    t.tagged("chunks")?.iter().map(bytes_of).collect()
}
