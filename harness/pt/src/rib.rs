// Shared harness for C02 / C06 / C15: drives the REAL `rustybgp_table::Table` through its public
// API on one case line and prints one canonical observation line (see lean/Rbgp/Rib/Codec.lean).
//
//   case ::= (case (srcs (s addr rid role lim)...) (attrs (a lp origin aspath oid cluster comm ext)...) (ops OP...))
//   OP   ::= (ins S F N rpid nh A filt nhinv) | (rm S F N rpid) | (drop addr F)
//          | (dstale addr F ctr) | (dllgr addr F ctr) | (dnollgr addr F ctr)
//          | (restale addr F) | (restale-llgr addr F) | (nhv k reach) | (sdef F) | (edef F)
//   F ::= v4 | ev      N ::= (v k) | (m k)      `-` = none
//
// Arc identity: source i / attribute set j of the case are allocated once; pointers are mapped back
// to i / j in the observation.  Everything that comes out of a hash map is sorted.
#![allow(dead_code)]
use verif_pt::sexp::{run_lines, Term};
use rustybgp_packet::{self as packet, bgp, Attribute, Family};
use rustybgp_table::{InsertResult, NlriChange, PeerRole, Source, Table, TableQuery};
use std::collections::HashMap;
use std::net::{IpAddr, Ipv4Addr};
use std::sync::atomic::{AtomicU64, Ordering};
use std::sync::Arc;

type Attrs = Arc<Vec<Attribute>>;

#[derive(Clone, Copy, PartialEq, Eq, Hash, PartialOrd, Ord)]
enum Fam {
    V4,
    Ev,
}
impl Fam {
    fn fam(self) -> Family {
        match self {
            Fam::V4 => Family::IPV4,
            Fam::Ev => Family::L2VPN_EVPN,
        }
    }
    fn atom(self) -> Term {
        Term::atom(match self {
            Fam::V4 => "v4",
            Fam::Ev => "ev",
        })
    }
    fn parse(t: &Term) -> Option<Fam> {
        match t.as_atom()? {
            "v4" => Some(Fam::V4),
            "ev" => Some(Fam::Ev),
            _ => None,
        }
    }
}

#[derive(Clone, Copy, PartialEq, Eq, Hash, PartialOrd, Ord)]
struct Net {
    t2: bool,
    k: u32,
}
impl Net {
    fn parse(t: &Term) -> Option<Net> {
        let l = t.as_list()?;
        if l.len() != 2 {
            return None;
        }
        let k = l[1].as_u64()?;
        if k > 255 {
            return None;
        }
        match l[0].as_atom()? {
            "v" => Some(Net { t2: false, k: k as u32 }),
            "m" => Some(Net { t2: true, k: k as u32 }),
            _ => None,
        }
    }
    fn term(self) -> Term {
        Term::list(vec![Term::atom(if self.t2 { "m" } else { "v" }), Term::nat(self.k)])
    }
    fn nlri(self) -> packet::Nlri {
        if self.t2 {
            use packet::evpn::{Esi, EvpnNlri, MacIpAdvertisement};
            use packet::rd::RouteDistinguisher;
            packet::Nlri::Evpn(EvpnNlri::MacIpAdvertisement(MacIpAdvertisement {
                rd: RouteDistinguisher::TwoOctetAs { admin: 1, assigned: 1 },
                esi: Esi::ZERO,
                etag: self.k,
                mac: [0xaa, 0xbb, 0xcc, 0xdd, 0xee, 0xff],
                ip: None,
                label1: 100,
                label2: None,
            }))
        } else {
            packet::Nlri::V4(bgp::Ipv4Net { addr: Ipv4Addr::new(10, self.k as u8, 0, 0), mask: 24 })
        }
    }
    fn of_nlri(n: &packet::Nlri) -> Option<Net> {
        match n {
            packet::Nlri::V4(p) => Some(Net { t2: false, k: p.addr.octets()[1] as u32 }),
            packet::Nlri::Evpn(packet::evpn::EvpnNlri::MacIpAdvertisement(m)) => Some(Net { t2: true, k: m.etag }),
            _ => None,
        }
    }
}

fn peer_addr(a: u64) -> IpAddr {
    IpAddr::V4(Ipv4Addr::new(10, 0, 0, a as u8))
}
fn nh_addr(k: u64) -> Ipv4Addr {
    Ipv4Addr::new(10, 9, 9, k as u8)
}

fn opt_nat(t: &Term) -> Option<Option<u64>> {
    if t.as_atom() == Some("-") {
        Some(None)
    } else {
        t.as_u64().map(Some)
    }
}
fn opt_bytes(t: &Term) -> Option<Option<Vec<u8>>> {
    if t.as_atom() == Some("-") {
        Some(None)
    } else {
        t.as_bytes().map(Some)
    }
}
fn small(t: &Term) -> Option<u64> {
    let v = t.as_u64()?;
    if v > 255 { None } else { Some(v) }
}
fn u32v(t: &Term) -> Option<u64> {
    let v = t.as_u64()?;
    if v > u32::MAX as u64 { None } else { Some(v) }
}

/// AS_PATH bytes the real decoder would accept: segments (type 1..4, count, count*4 bytes).
fn as_path_wf(b: &[u8]) -> bool {
    let mut i = 0;
    while i < b.len() {
        if i + 2 > b.len() {
            return false;
        }
        let (t, l) = (b[i], b[i + 1] as usize);
        if !(1..=4).contains(&t) {
            return false;
        }
        i += 2 + 4 * l;
    }
    i == b.len()
}

struct Case {
    shard: u32,
    srcs: Vec<Arc<Source>>,
    lims: Vec<Option<u32>>,
    attrs: Vec<Attrs>,
    ops: Vec<Term>,
    fams: Vec<Fam>,
}

fn parse_role(t: &Term) -> Option<PeerRole> {
    Some(match t.as_atom()? {
        "ebgp" => PeerRole::Ebgp,
        "rs" => PeerRole::RsClient,
        "ibgp" => PeerRole::Ibgp,
        "rr" => PeerRole::IbgpRrClient,
        "confed" => PeerRole::ConfedEbgp,
        _ => return None,
    })
}

fn parse_case(line: &str) -> Option<Case> {
    let t = Term::parse(line)?;
    let body = t.tagged("case")?;
    if body.len() != 3 && body.len() != 4 {
        return None;
    }
    let shard = if body.len() == 4 {
        let f = body[3].tagged("shard")?;
        if f.len() != 1 {
            return None;
        }
        let k = f[0].as_u64()?;
        if k > 254 {
            return None;
        }
        k as u32
    } else {
        0
    };
    let mut srcs = Vec::new();
    let mut lims = Vec::new();
    for s in body[0].tagged("srcs")? {
        let f = s.tagged("s")?;
        if f.len() != 4 {
            return None;
        }
        lims.push(match opt_nat(&f[3])? {
            Some(m) if m > u32::MAX as u64 => return None,
            Some(m) => Some(m as u32),
            None => None,
        });
        let addr = small(&f[0])?;
        let rid = u32v(&f[1])? as u32;
        let role = parse_role(&f[2])?;
        let local_asn = 65000;
        let remote_asn = match role {
            PeerRole::Ibgp | PeerRole::IbgpRrClient => 65000,
            _ => 65001,
        };
        srcs.push(Arc::new(Source::new(
            peer_addr(addr),
            IpAddr::V4(Ipv4Addr::new(10, 0, 0, 254)),
            remote_asn,
            local_asn,
            Ipv4Addr::from(rid),
            role,
        )));
    }
    let mut attrs = Vec::new();
    for a in body[1].tagged("attrs")? {
        let f = a.tagged("a")?;
        if f.len() != 7 {
            return None;
        }
        let mut v = Vec::new();
        if let Some(o) = opt_nat(&f[1])? {
            if o > 255 {
                return None;
            }
            v.push(Attribute::new_with_value(Attribute::ORIGIN, o as u32)?);
        }
        if let Some(b) = opt_bytes(&f[2])? {
            if !as_path_wf(&b) {
                return None;
            }
            v.push(Attribute::new_with_bin(Attribute::AS_PATH, b)?);
        }
        if let Some(lp) = opt_nat(&f[0])? {
            if lp > u32::MAX as u64 {
                return None;
            }
            v.push(Attribute::new_with_value(Attribute::LOCAL_PREF, lp as u32)?);
        }
        if let Some(b) = opt_bytes(&f[5])? {
            v.push(Attribute::new_with_bin(Attribute::COMMUNITY, b)?);
        }
        if let Some(o) = opt_nat(&f[3])? {
            if o > u32::MAX as u64 {
                return None;
            }
            v.push(Attribute::new_with_value(Attribute::ORIGINATOR_ID, o as u32)?);
        }
        if let Some(b) = opt_bytes(&f[4])? {
            v.push(Attribute::new_with_bin(Attribute::CLUSTER_LIST, b)?);
        }
        if let Some(b) = opt_bytes(&f[6])? {
            v.push(Attribute::new_with_bin(Attribute::EXTENDED_COMMUNITY, b)?);
        }
        attrs.push(Arc::new(v));
    }
    let ops: Vec<Term> = body[2].tagged("ops")?.to_vec();
    // validate ops up-front so that an ill-formed case is (bad-case) on both sides
    let mut fams = Vec::new();
    // one Arc<Source> belongs to one (session, family): reject a source used with two families
    let mut src_fam: HashMap<u64, Fam> = HashMap::new();
    // one established session per peer at a time: (address, family) -> source announcing since the last session end
    let mut live: HashMap<(IpAddr, Fam), u64> = HashMap::new();
    let note = |f: Fam, fams: &mut Vec<Fam>| {
        if !fams.contains(&f) {
            fams.push(f)
        }
    };
    for op in &ops {
        let l = op.as_list()?;
        let h = l.first()?.as_atom()?;
        let a = &l[1..];
        match h {
            "ins" => {
                if a.len() != 8 {
                    return None;
                }
                if a[0].as_u64()? as usize >= srcs.len() {
                    return None;
                }
                note(Fam::parse(&a[1])?, &mut fams);
                if *src_fam.entry(a[0].as_u64()?).or_insert(Fam::parse(&a[1])?) != Fam::parse(&a[1])? {
                    return None;
                }
                {
                    let sid = a[0].as_u64()?;
                    let key = (srcs[sid as usize].remote_addr, Fam::parse(&a[1])?);
                    if *live.entry(key).or_insert(sid) != sid {
                        return None;
                    }
                }
                Net::parse(&a[2])?;
                u32v(&a[3])?;
                if let Some(k) = opt_nat(&a[4])? {
                    if k > 255 {
                        return None;
                    }
                }
                if a[5].as_u64()? as usize >= attrs.len() {
                    return None;
                }
                a[6].as_bool()?;
                a[7].as_bool()?;
            }
            "rm" => {
                if a.len() != 4 {
                    return None;
                }
                if a[0].as_u64()? as usize >= srcs.len() {
                    return None;
                }
                note(Fam::parse(&a[1])?, &mut fams);
                if *src_fam.entry(a[0].as_u64()?).or_insert(Fam::parse(&a[1])?) != Fam::parse(&a[1])? {
                    return None;
                }
                {
                    let sid = a[0].as_u64()?;
                    let key = (srcs[sid as usize].remote_addr, Fam::parse(&a[1])?);
                    if *live.entry(key).or_insert(sid) != sid {
                        return None;
                    }
                }
                Net::parse(&a[2])?;
                u32v(&a[3])?;
            }
            "drop" | "restale" | "restale-llgr" => {
                if a.len() != 2 {
                    return None;
                }
                let addr = small(&a[0])?;
                note(Fam::parse(&a[1])?, &mut fams);
                live.remove(&(peer_addr(addr), Fam::parse(&a[1])?));
            }
            "dstale" | "dllgr" | "dnollgr" => {
                if a.len() != 3 {
                    return None;
                }
                let addr = small(&a[0])?;
                note(Fam::parse(&a[1])?, &mut fams);
                if let Some(s) = opt_nat(&a[2])? {
                    if s as usize >= srcs.len() {
                        return None;
                    }
                    // a purge of a peer may only be handed the counter of a session of that peer
                    if srcs[s as usize].remote_addr != peer_addr(addr) || lims[s as usize].is_none() {
                        return None;
                    }
                    // ... and only when that session is the peer's only one (purges settle by address)
                    if srcs.iter().enumerate().any(|(i, x)| i != s as usize && x.remote_addr == peer_addr(addr)) {
                        return None;
                    }
                }
            }
            "nhv" => {
                if a.len() != 2 {
                    return None;
                }
                small(&a[0])?;
                a[1].as_bool()?;
            }
            "sdef" | "edef" => {
                if a.len() != 1 {
                    return None;
                }
                note(Fam::parse(&a[0])?, &mut fams);
            }
            _ => return None,
        }
    }
    fams.sort();
    Some(Case { shard, srcs, lims, attrs, ops, fams })
}

struct World {
    case: Case,
    table: Table,
    ctrs: HashMap<(usize, Fam), Arc<AtomicU64>>,
}

impl World {
    fn src_id(&self, s: &Arc<Source>) -> Term {
        match self.case.srcs.iter().position(|x| Arc::ptr_eq(x, s)) {
            Some(i) => Term::nat(i as u64),
            None => Term::atom("?"),
        }
    }
    fn attr_id(&self, a: &Attrs) -> Term {
        match self.case.attrs.iter().position(|x| Arc::ptr_eq(x, a)) {
            Some(i) => Term::nat(i as u64),
            None => Term::atom("?"),
        }
    }
    fn nh_term(nh: &Option<bgp::Nexthop>) -> Term {
        match nh {
            Some(bgp::Nexthop::V4(a)) => Term::nat(a.octets()[3]),
            Some(_) => Term::atom("?"),
            None => Term::atom("-"),
        }
    }
    fn path(&self, p: &rustybgp_table::Path) -> Term {
        Term::list(vec![
            Term::nat(p.local_path_id),
            self.src_id(&p.source),
            self.attr_id(&p.attr),
            Self::nh_term(&p.nexthop),
        ])
    }
    fn fam_of(f: &Family) -> Term {
        if *f == Family::IPV4 {
            Term::atom("v4")
        } else if *f == Family::L2VPN_EVPN {
            Term::atom("ev")
        } else {
            Term::atom("?")
        }
    }
    fn change(&self, c: &NlriChange) -> (Net, Term) {
        let net = Net::of_nlri(&c.net).unwrap_or(Net { t2: false, k: 9999 });
        let mut v = vec![
            Self::fam_of(&c.family),
            net.term(),
            Term::nat(c.dest_id),
            Term::boolean(c.best_changed),
            Term::boolean(c.any_changed),
            match c.replaced_path_id {
                Some(i) => Term::nat(i),
                None => Term::atom("-"),
            },
            match c.new_best() {
                Some(p) => Term::nat(p.local_path_id),
                None => Term::atom("-"),
            },
            Term::list(c.ecmp_paths().iter().map(|p| Term::nat(p.local_path_id)).collect()),
        ];
        for p in c.current_paths.iter() {
            v.push(self.path(p));
        }
        (net, Term::list(v))
    }
    fn changes(&self, cs: &[NlriChange]) -> Term {
        let mut v: Vec<(Fam, Net, Term)> = cs
            .iter()
            .map(|c| {
                let (n, t) = self.change(c);
                let f = if c.family == Family::IPV4 { Fam::V4 } else { Fam::Ev };
                (f, n, t)
            })
            .collect();
        v.sort_by(|a, b| (a.0, a.1).cmp(&(b.0, b.1)));
        Term::tag("chs", v.into_iter().map(|x| x.2).collect())
    }
    fn counter(&mut self, s: usize, f: Fam) -> Arc<AtomicU64> {
        self.ctrs.entry((s, f)).or_insert_with(|| Arc::new(AtomicU64::new(0))).clone()
    }

    fn apply(&mut self, op: &Term) -> Term {
        let l = op.as_list().unwrap();
        let h = l[0].as_atom().unwrap();
        let a = &l[1..];
        match h {
            "ins" => {
                let s = a[0].as_u64().unwrap() as usize;
                let f = Fam::parse(&a[1]).unwrap();
                let n = Net::parse(&a[2]).unwrap();
                let rpid = a[3].as_u64().unwrap() as u32;
                let nh = opt_nat(&a[4]).unwrap().map(|k| bgp::Nexthop::V4(nh_addr(k)));
                let at = self.case.attrs[a[5].as_u64().unwrap() as usize].clone();
                let filt = a[6].as_bool().unwrap();
                let nhinv = a[7].as_bool().unwrap();
                let lim = self.case.lims[s];
                let ctr = self.counter(s, f);
                let pl = lim.map(|m| (m, &ctr));
                let src = self.case.srcs[s].clone();
                let r = self.table.insert(src, f.fam(), n.nlri(), rpid, nh, at, None, filt, nhinv, pl, 0);
                match r {
                    InsertResult::NoChange => Term::atom("nochange"),
                    InsertResult::PrefixLimitExceeded => Term::atom("limit"),
                    InsertResult::Changed(c) => Term::tag("ch", vec![self.change(&c).1]),
                }
            }
            "rm" => {
                let s = a[0].as_u64().unwrap() as usize;
                let f = Fam::parse(&a[1]).unwrap();
                let n = Net::parse(&a[2]).unwrap();
                let rpid = a[3].as_u64().unwrap() as u32;
                let with_ctr = self.case.lims[s].is_some();
                let ctr = self.counter(s, f);
                let src = self.case.srcs[s].clone();
                let (c, _nh) = self.table.remove(src, f.fam(), n.nlri(), rpid, if with_ctr { Some(&ctr) } else { None });
                match c {
                    None => Term::atom("-"),
                    Some(c) => Term::tag("ch", vec![self.change(&c).1]),
                }
            }
            "drop" => {
                let addr = peer_addr(a[0].as_u64().unwrap());
                let f = Fam::parse(&a[1]).unwrap();
                let (cs, _) = self.table.drop(addr, f.fam());
                self.changes(&cs)
            }
            "dstale" | "dllgr" | "dnollgr" => {
                let addr = peer_addr(a[0].as_u64().unwrap());
                let f = Fam::parse(&a[1]).unwrap();
                let ctr = opt_nat(&a[2]).unwrap().map(|s| self.counter(s as usize, f));
                let (cs, _) = match h {
                    "dstale" => self.table.drop_stale(addr, f.fam(), ctr.as_ref()),
                    "dllgr" => self.table.drop_llgr_stale(addr, f.fam(), ctr.as_ref()),
                    _ => self.table.drop_no_llgr(addr, f.fam(), ctr.as_ref()),
                };
                self.changes(&cs)
            }
            "restale" => {
                let addr = peer_addr(a[0].as_u64().unwrap());
                let f = Fam::parse(&a[1]).unwrap();
                let cs = self.table.restale(addr, f.fam());
                self.changes(&cs)
            }
            "restale-llgr" => {
                let addr = peer_addr(a[0].as_u64().unwrap());
                let f = Fam::parse(&a[1]).unwrap();
                let cs = self.table.restale_llgr(addr, f.fam());
                self.changes(&cs)
            }
            "nhv" => {
                let addr = IpAddr::V4(nh_addr(a[0].as_u64().unwrap()));
                let reach = a[1].as_bool().unwrap();
                let cs = self.table.update_nexthop_validity(addr, reach);
                self.changes(&cs)
            }
            "sdef" => {
                let f = Fam::parse(&a[0]).unwrap();
                self.table.start_deferral(f.fam());
                Term::atom("-")
            }
            "edef" => {
                let f = Fam::parse(&a[0]).unwrap();
                let cs = self.table.end_deferral(f.fam());
                self.changes(&cs)
            }
            _ => unreachable!(),
        }
    }

    /// coverage markers of a step (mirrors `covOf` in lean/Rbgp/Rib/Obs.lean)
    fn cov(&self, op: &Term, res: &Term) -> Vec<Term> {
        let head = op.head().unwrap_or("");
        let changes: Vec<&Term> = match res.as_list() {
            Some(l) if !l.is_empty() && (l[0].as_atom() == Some("ch") || l[0].as_atom() == Some("chs")) => l[1..].iter().collect(),
            _ => vec![],
        };
        let any_best = changes.iter().any(|c| c.as_list().and_then(|l| l.get(3)).and_then(|b| b.as_bool()) == Some(true));
        let mut out = Vec::new();
        if matches!(head, "drop" | "dstale" | "dllgr" | "dnollgr") && !changes.is_empty() {
            out.push(Term::atom("purge-hit"));
        }
        if head == "restale" && any_best {
            out.push(Term::atom("restale-rebest"));
        }
        if head == "restale-llgr" && any_best {
            out.push(Term::atom("restale-llgr-rebest"));
        }
        let mut ids: Vec<u32> = Vec::new();
        for f in [Fam::V4, Fam::Ev] {
            ids.extend(self.table.collect_loc_rib_paths(&f.fam()).iter().map(|c| c.dest_id & 0x00ff_ffff));
        }
        if ids.iter().any(|i| *i >= 64) {
            out.push(Term::atom("id-ge-64"));
        }
        if ids.iter().any(|i| *i >= 128) {
            out.push(Term::atom("id-ge-128"));
        }
        out
    }

    fn dests_view(&self, q: TableQuery, f: Fam, enable_filtered: bool) -> Vec<(Net, Vec<Term>)> {
        let mut dests: Vec<(Net, Vec<Term>)> = self
            .table
            .destinations(q, f.fam(), vec![], enable_filtered)
            .map(|d| {
                let n = Net::of_nlri(&d.net).unwrap_or(Net { t2: false, k: 9999 });
                let v = d
                    .paths
                    .iter()
                    .map(|p| {
                        Term::list(vec![
                            self.src_id(&p.source),
                            Term::nat(p.remote_path_id),
                            self.attr_id(&p.attr),
                            Term::boolean(p.stale),
                            Term::boolean(p.filtered),
                        ])
                    })
                    .collect();
                (n, v)
            })
            .collect();
        dests.sort_by_key(|x| x.0);
        dests
    }
    fn dests_terms(v: Vec<(Net, Vec<Term>)>) -> Vec<Term> {
        v.into_iter()
            .map(|(n, mut ps)| {
                let mut t = vec![n.term()];
                t.append(&mut ps);
                Term::list(t)
            })
            .collect()
    }
    fn lim(&self, f: Fam, k: usize) -> Vec<Term> {
        let mut lim: Vec<(Net, Term)> = self
            .table
            .collect_loc_rib_paths_limited(&f.fam(), k)
            .iter()
            .map(|c| {
                let n = Net::of_nlri(&c.net).unwrap_or(Net { t2: false, k: 9999 });
                let mut v = vec![n.term()];
                for p in c.current_paths.iter() {
                    v.push(Term::nat(p.local_path_id));
                }
                (n, Term::list(v))
            })
            .collect();
        lim.sort_by_key(|x| x.0);
        lim.into_iter().map(|x| x.1).collect()
    }
    fn addrs(&self) -> Vec<u8> {
        let mut addrs: Vec<u8> = self
            .case
            .srcs
            .iter()
            .map(|s| match s.remote_addr {
                IpAddr::V4(a) => a.octets()[3],
                _ => 0,
            })
            .collect();
        addrs.sort();
        addrs.dedup();
        addrs
    }

    fn dump(&self) -> Vec<Term> {
        let mut out = Vec::new();
        for f in [Fam::V4, Fam::Ev] {
            // all paths, ranked, including filtered ones; and what ListPath shows by default
            let dests = Self::dests_terms(self.dests_view(TableQuery::Global, f, true));
            let nofilt = Self::dests_terms(self.dests_view(TableQuery::Global, f, false));
            let mut loc: Vec<(Net, Term)> = self
                .table
                .collect_loc_rib_paths(&f.fam())
                .iter()
                .map(|c| {
                    let n = Net::of_nlri(&c.net).unwrap_or(Net { t2: false, k: 9999 });
                    let mut v = vec![
                        n.term(),
                        Term::nat(c.dest_id),
                        Term::list(c.ecmp_paths().iter().map(|p| Term::nat(p.local_path_id)).collect()),
                    ];
                    for p in c.current_paths.iter() {
                        v.push(self.path(p));
                    }
                    (n, Term::list(v))
                })
                .collect();
            loc.sort_by_key(|x| x.0);
            let st = self.table.state(f.fam());
            let mut adjin = Vec::new();
            let mut rslocal = Vec::new();
            for a in self.addrs() {
                let peer = peer_addr(a as u64);
                let mut v = vec![Term::nat(a)];
                v.append(&mut Self::dests_terms(self.dests_view(TableQuery::AdjIn(peer), f, true)));
                adjin.push(Term::list(v));
                let mut v = vec![Term::nat(a)];
                for (n, ps) in self.dests_view(TableQuery::RsLocal(peer), f, true) {
                    // one path per prefix
                    let mut t = vec![n.term()];
                    t.extend(ps);
                    v.push(Term::list(t));
                }
                rslocal.push(Term::list(v));
            }
            out.push(Term::tag(
                "fam",
                vec![
                    f.atom(),
                    Term::tag("dests", dests),
                    Term::tag("nofilt", nofilt),
                    Term::tag("loc", loc.into_iter().map(|x| x.1).collect()),
                    Term::tag("lim2", self.lim(f, 2)),
                    Term::tag("lim3", self.lim(f, 3)),
                    Term::tag(
                        "state",
                        vec![
                            Term::nat(st.num_destination as u64),
                            Term::nat(st.num_path as u64),
                            Term::nat(st.num_accepted as u64),
                        ],
                    ),
                    Term::tag("adjin", adjin),
                    Term::tag("rslocal", rslocal),
                ],
            ));
        }
        // per-peer statistics, for every peer address of the case
        let addrs = self.addrs();
        let mut stats = Vec::new();
        for a in addrs {
            if let Some(it) = self.table.peer_stats(&peer_addr(a as u64)) {
                let mut v: Vec<(Fam, u64, u64)> = it
                    .filter_map(|(f, s)| {
                        let ff = if f == Family::IPV4 {
                            Fam::V4
                        } else if f == Family::L2VPN_EVPN {
                            Fam::Ev
                        } else {
                            return None;
                        };
                        Some((ff, s.received, s.accepted))
                    })
                    .collect();
                v.sort();
                for (f, r, acc) in v {
                    stats.push(Term::list(vec![Term::nat(a), f.atom(), Term::nat(r), Term::nat(acc)]));
                }
            }
        }
        out.push(Term::tag("stats", stats));
        let mut cs: Vec<(usize, Fam, u64)> = self
            .ctrs
            .iter()
            .map(|(k, v)| (k.0, k.1, v.load(Ordering::Relaxed)))
            .filter(|x| x.2 != 0)
            .collect();
        cs.sort();
        out.push(Term::tag(
            "ctrs",
            cs.into_iter().map(|(s, f, v)| Term::list(vec![Term::nat(s as u64), f.atom(), Term::nat(v)])).collect(),
        ));
        let mut stale = Vec::new();
        let mut llgr = Vec::new();
        for (i, s) in self.case.srcs.iter().enumerate() {
            if s.is_stale() {
                stale.push(Term::nat(i as u64));
            }
            if s.is_llgr_stale() {
                llgr.push(Term::nat(i as u64));
            }
        }
        out.push(Term::tag("stale", stale));
        out.push(Term::tag("llgr", llgr));
        out
    }
}

pub fn run_case(line: &str) -> String {
    let Some(case) = parse_case(line) else {
        return "(bad-case)".to_string();
    };
    let ops = case.ops.clone();
    let shard = case.shard;
    let mut w = World { case, table: Table::new(shard), ctrs: HashMap::new() };
    let mut steps: Vec<Term> = vec![Term::atom("obs")];
    for op in &ops {
        let r = std::panic::catch_unwind(std::panic::AssertUnwindSafe(|| {
            let res = w.apply(op);
            let cov = w.cov(op, &res);
            let mut v = vec![res];
            v.append(&mut w.dump());
            v.push(Term::tag("cov", cov));
            Term::tag("st", v)
        }));
        match r {
            Ok(t) => steps.push(t),
            Err(_) => {
                steps.push(Term::atom("panic"));
                break;
            }
        }
    }
    format!("{}", Term::list(steps))
}

pub fn main_with(_prop: &str) {
    let args: Vec<String> = std::env::args().collect();
    if args.len() == 4 && args[1] == "run" {
        std::panic::set_hook(Box::new(|_| {}));
        run_lines(&args[2], &args[3], |l| run_case(l));
    } else {
        eprintln!("usage: {} run <in> <out>", args[0]);
        std::process::exit(2);
    }
}
