// C04 harness: runs the REAL encoder (`PeerCodec::encode_to` of /repo/packet) on each case line,
// decodes the produced byte stream with the PEER's codec (`negotiate(remote, local)`), re-encodes the
// decoded values (fixed-point probe) and prints one canonical observation line.
//
//   case  ::= (case (local CAP*) (remote CAP*) MSG)
//   CAP   ::= (mp AFI SAFI) | rr | (enh (AFI SAFI NHAFI)*) | em | (gr FLAGS TIME (AFI SAFI F)*) | (as4 N)
//           | (ap (AFI SAFI MODE)*) | err | (llgr (AFI SAFI FLAGS TIME)*) | (fqdn xHOST xDOMAIN) | (unk CODE DATA)
//   MSG   ::= (open ASN HOLD RID CAP*) | (reach AFI SAFI NH (attrs ATTR*) (entries ENTRY*))
//           | (unreach AFI SAFI (entries ENTRY*)) | (eor AFI SAFI) | (notif CODE SUB xDATA) | keepalive | (rr AFI SAFI)
//   NH    ::= none | (v4 N) | (v6 x16) | (v6ll x16 x16)
//   ATTR  ::= (val CODE N) | (bin CODE DATA) | (opq CODE FLAGS DATA) | (raw FLAGS CODE DATA)
//   DATA  ::= xHEX | (fill LEN SEED) | (asp SEG*)      SEG ::= (TYPE ASN*) | (segr TYPE COUNT BASE STEP)
//   ENTRY ::= (v4 ADDR MASK PID) | (v4r ADDR MASK PID PIDSTEP COUNT) | (v6 x16 MASK PID) | (v6r x16 MASK PID PIDSTEP COUNT)
//           | (o KIND SEED PID PROBE) | (o KIND SEED PID PROBE_DEBUG PROBE_RELEASE)      PROBE ::= (ENC DEC)
//             ENC ::= xBYTES | panic      DEC ::= err | panic | (DENTRY*)
//
//   obs   ::= (panic) | (bad-case) | (stale-case) | (obs N xSTREAM (dec D*) (fp t|f|na))
//   D     ::= (open ASN HOLD RID CAP*) | (upd R R U U (attrs DATTR*) (errs (CODE FLAGS)*)) | (eor AFI SAFI)
//           | (notif CODE SUB xDATA) | keepalive | (rr AFI SAFI) | (err CODE SUB) | (short N) | (panic)
//   R     ::= none | (r AFI SAFI NH DENTRY*)        U ::= none | (u AFI SAFI DENTRY*)
//   DATTR ::= (val CODE FLAGS N) | (bin CODE FLAGS xDATA) | (opq CODE FLAGS xDATA)
//   DENTRY::= (v4 ADDR MASK PID) | (v6 x16 MASK PID) | (o PID t|f)
//
//   c04 run <in> <out>           one observation per case line
//   c04 probe <in> <out>         lines `AFI SAFI reach|unreach KIND SEED` -> PROBE of this build profile
use std::net::{IpAddr, Ipv4Addr, Ipv6Addr};
use std::panic::{AssertUnwindSafe, catch_unwind};
use std::sync::Arc;

use bytes::BytesMut;
use rustybgp_packet as packet;
use rustybgp_packet::bgp::{
    Attribute, Capability, Family, HoldTime, Message, Nexthop, Nlri, Notification, Open, ParsedMessage, ParsedUpdate,
    PathNlri, PeerCodec, Update,
};
use verif_pt::sexp::{Term, run_lines};

#[path = "../c04_fam.rs"]
mod fam;

const IS_DEBUG: bool = cfg!(debug_assertions);

fn u(t: &Term, max: u64) -> Option<u64> {
    let v = t.as_u64()?;
    if v > max { None } else { Some(v) }
}

fn family_of(a: &Term, s: &Term) -> Option<Family> {
    Some(Family::new(u(a, 65535)? as u16, u(s, 255)? as u8))
}

/// FQDN capability strings: any well-formed UTF-8 (the Rust type is `String`)
fn ascii(b: &[u8]) -> Option<String> {
    String::from_utf8(b.to_vec()).ok()
}

fn cap_of(t: &Term) -> Option<Capability> {
    if let Some(a) = t.as_atom() {
        return match a {
            "rr" => Some(Capability::RouteRefresh),
            "em" => Some(Capability::ExtendedMessage),
            "err" => Some(Capability::EnhancedRouteRefresh),
            _ => None,
        };
    }
    let l = t.as_list()?;
    let head = l.first()?.as_atom()?;
    let a = &l[1..];
    match head {
        "mp" if a.len() == 2 => Some(Capability::MultiProtocol(family_of(&a[0], &a[1])?)),
        "enh" => {
            let mut v = Vec::new();
            for e in a {
                let e = e.as_list()?;
                if e.len() != 3 {
                    return None;
                }
                v.push((family_of(&e[0], &e[1])?, u(&e[2], 65535)? as u16));
            }
            Some(Capability::ExtendedNexthop(v))
        }
        "gr" if a.len() >= 2 => {
            let flags = u(&a[0], 255)? as u8;
            let restart_time = u(&a[1], 65535)? as u16;
            let mut families = Vec::new();
            for e in &a[2..] {
                let e = e.as_list()?;
                if e.len() != 3 {
                    return None;
                }
                families.push((family_of(&e[0], &e[1])?, u(&e[2], 255)? as u8));
            }
            Some(Capability::GracefulRestart { flags, restart_time, families })
        }
        "as4" if a.len() == 1 => Some(Capability::FourOctetAsNumber(u(&a[0], u32::MAX as u64)? as u32)),
        "ap" => {
            let mut v = Vec::new();
            for e in a {
                let e = e.as_list()?;
                if e.len() != 3 {
                    return None;
                }
                v.push((family_of(&e[0], &e[1])?, u(&e[2], 255)? as u8));
            }
            Some(Capability::AddPath(v))
        }
        "llgr" => {
            let mut v = Vec::new();
            for e in a {
                let e = e.as_list()?;
                if e.len() != 4 {
                    return None;
                }
                v.push((family_of(&e[0], &e[1])?, u(&e[2], 255)? as u8, u(&e[3], u32::MAX as u64)? as u32));
            }
            Some(Capability::LongLivedGracefulRestart(v))
        }
        "fqdn" if a.len() == 2 => Some(Capability::Fqdn {
            hostname: ascii(&a[0].as_bytes()?)?,
            domain: ascii(&a[1].as_bytes()?)?,
        }),
        "unk" if a.len() == 2 => Some(Capability::Unknown { code: u(&a[0], 255)? as u8, bin: data_of(&a[1])? }),
        _ => None,
    }
}

fn fam_terms(f: &Family) -> Vec<Term> {
    vec![Term::nat(f.afi()), Term::nat(f.safi())]
}

fn cap_term(c: &Capability) -> Term {
    match c {
        Capability::MultiProtocol(f) => Term::tag("mp", fam_terms(f)),
        Capability::RouteRefresh => Term::atom("rr"),
        Capability::ExtendedNexthop(v) => Term::tag(
            "enh",
            v.iter()
                .map(|(f, a)| Term::list(vec![Term::nat(f.afi()), Term::nat(f.safi()), Term::nat(*a)]))
                .collect(),
        ),
        Capability::ExtendedMessage => Term::atom("em"),
        Capability::GracefulRestart { flags, restart_time, families } => {
            let mut v = vec![Term::nat(*flags), Term::nat(*restart_time)];
            for (f, x) in families {
                v.push(Term::list(vec![Term::nat(f.afi()), Term::nat(f.safi()), Term::nat(*x)]));
            }
            Term::tag("gr", v)
        }
        Capability::FourOctetAsNumber(n) => Term::tag("as4", vec![Term::nat(*n)]),
        Capability::AddPath(v) => Term::tag(
            "ap",
            v.iter()
                .map(|(f, m)| Term::list(vec![Term::nat(f.afi()), Term::nat(f.safi()), Term::nat(*m)]))
                .collect(),
        ),
        Capability::EnhancedRouteRefresh => Term::atom("err"),
        Capability::LongLivedGracefulRestart(v) => Term::tag(
            "llgr",
            v.iter()
                .map(|(f, x, t)| Term::list(vec![Term::nat(f.afi()), Term::nat(f.safi()), Term::nat(*x), Term::nat(*t)]))
                .collect(),
        ),
        Capability::Fqdn { hostname, domain } => {
            Term::tag("fqdn", vec![Term::bytes(hostname.as_bytes()), Term::bytes(domain.as_bytes())])
        }
        Capability::Unknown { code, bin } => Term::tag("unk", vec![Term::nat(*code), Term::bytes(bin)]),
    }
}

fn caps_of(ts: &[Term]) -> Option<Vec<Capability>> {
    ts.iter().map(cap_of).collect()
}

// ------------------------------------------------------------------ attribute data
fn fill(len: u64, seed: u64) -> Vec<u8> {
    (0..len).map(|i| ((seed + 31 * i) % 251) as u8).collect()
}

fn data_of(t: &Term) -> Option<Vec<u8>> {
    if t.as_atom().is_some() {
        return t.as_bytes();
    }
    let l = t.as_list()?;
    match l.first()?.as_atom()? {
        "fill" if l.len() == 3 => {
            let len = u(&l[1], 70000)?;
            Some(fill(len, u(&l[2], 1 << 32)?))
        }
        "asp" => {
            let mut out = Vec::new();
            for seg in &l[1..] {
                let s = seg.as_list()?;
                if s.first().and_then(|x| x.as_atom()) == Some("segr") {
                    if s.len() != 5 {
                        return None;
                    }
                    let ty = u(&s[1], 255)?;
                    let count = u(&s[2], 255)?;
                    let base = u(&s[3], u32::MAX as u64)?;
                    let step = u(&s[4], u32::MAX as u64)?;
                    out.push(ty as u8);
                    out.push(count as u8);
                    for i in 0..count {
                        let asn = ((base + i * step) % (1u64 << 32)) as u32;
                        out.extend_from_slice(&asn.to_be_bytes());
                    }
                } else {
                    if s.is_empty() || s.len() - 1 > 255 {
                        return None;
                    }
                    out.push(u(&s[0], 255)? as u8);
                    out.push((s.len() - 1) as u8);
                    for a in &s[1..] {
                        out.extend_from_slice(&(u(a, u32::MAX as u64)? as u32).to_be_bytes());
                    }
                }
            }
            Some(out)
        }
        _ => None,
    }
}

/// `(raw FLAGS CODE DATA)`: the attribute is obtained from the REAL decoder (a value "obtained by decoding").
fn raw_attr(flags: u8, code: u8, data: &[u8]) -> Option<Attribute> {
    if matches!(code, 3 | 14 | 15 | 17 | 18) || data.len() > 65535 {
        return None;
    }
    let ext = flags & 0x10 != 0;
    if !ext && data.len() > 255 {
        return None;
    }
    let mut body = Vec::new();
    body.push(flags);
    body.push(code);
    if ext {
        body.extend_from_slice(&(data.len() as u16).to_be_bytes());
    } else {
        body.push(data.len() as u8);
    }
    body.extend_from_slice(data);
    let total = 19 + 2 + 2 + body.len();
    if total > 65535 {
        return None;
    }
    let mut buf = vec![0xffu8; 16];
    buf.extend_from_slice(&(total as u16).to_be_bytes());
    buf.push(2);
    buf.extend_from_slice(&[0, 0]);
    buf.extend_from_slice(&(body.len() as u16).to_be_bytes());
    buf.extend_from_slice(&body);
    let mut codec = PeerCodec::new();
    match codec.parse_message(&buf) {
        Ok(ParsedMessage::Update(ParsedUpdate::Routes { attrs, error_attrs, .. })) => {
            if attrs.len() == 1 && error_attrs.is_empty() && attrs[0].code() == code && attrs[0].flags() == flags {
                Some(attrs[0].clone())
            } else {
                None
            }
        }
        _ => None,
    }
}

fn attr_of(t: &Term) -> Option<Attribute> {
    let l = t.as_list()?;
    let head = l.first()?.as_atom()?;
    let a = &l[1..];
    match head {
        "val" if a.len() == 2 => Attribute::new_with_value(u(&a[0], 255)? as u8, u(&a[1], u32::MAX as u64)? as u32),
        "bin" if a.len() == 2 => Attribute::new_with_bin(u(&a[0], 255)? as u8, data_of(&a[1])?),
        "opq" if a.len() == 3 => {
            let code = u(&a[0], 255)? as u8;
            if Attribute::canonical_flags(code).is_some() {
                return None;
            }
            Some(Attribute::new_opaque(code, u(&a[1], 255)? as u8, data_of(&a[2])?))
        }
        "raw" if a.len() == 3 => raw_attr(u(&a[0], 255)? as u8, u(&a[1], 255)? as u8, &data_of(&a[2])?),
        _ => None,
    }
}

fn attr_term(a: &Attribute) -> Term {
    if a.is_opaque() {
        Term::tag("opq", vec![Term::nat(a.code()), Term::nat(a.flags()), Term::bytes(a.binary().unwrap())])
    } else if let Some(v) = a.value() {
        Term::tag("val", vec![Term::nat(a.code()), Term::nat(a.flags()), Term::nat(v)])
    } else {
        Term::tag("bin", vec![Term::nat(a.code()), Term::nat(a.flags()), Term::bytes(a.binary().unwrap())])
    }
}

// ------------------------------------------------------------------ next hop / entries
fn b16(t: &Term) -> Option<[u8; 16]> {
    let b = t.as_bytes()?;
    if b.len() != 16 {
        return None;
    }
    let mut o = [0u8; 16];
    o.copy_from_slice(&b);
    Some(o)
}

fn nh_of(t: &Term) -> Option<Option<Nexthop>> {
    if t.as_atom() == Some("none") {
        return Some(None);
    }
    let l = t.as_list()?;
    match l.first()?.as_atom()? {
        "v4" if l.len() == 2 => Some(Some(Nexthop::V4(Ipv4Addr::from(u(&l[1], u32::MAX as u64)? as u32)))),
        "v6" if l.len() == 2 => Some(Some(Nexthop::V6(Ipv6Addr::from(b16(&l[1])?)))),
        "v6ll" if l.len() == 3 => {
            Some(Some(Nexthop::V6LinkLocal(Ipv6Addr::from(b16(&l[1])?), Ipv6Addr::from(b16(&l[2])?))))
        }
        _ => None,
    }
}

fn nh_term(n: &Option<Nexthop>) -> Term {
    match n {
        None => Term::atom("none"),
        Some(Nexthop::V4(a)) => Term::tag("v4", vec![Term::nat(u32::from(*a))]),
        Some(Nexthop::V6(a)) => Term::tag("v6", vec![Term::bytes(&a.octets())]),
        Some(Nexthop::V6LinkLocal(a, b)) => Term::tag("v6ll", vec![Term::bytes(&a.octets()), Term::bytes(&b.octets())]),
    }
}

/// An input entry; `probe` is the claimed probe of an opaque entry for this build profile.
struct InEntry {
    e: PathNlri,
    probe: Option<(Term, Term)>,
}

fn entries_of(fam: Family, reach: bool, ts: &[Term], stale: &mut bool) -> Option<Vec<InEntry>> {
    let mut out = Vec::new();
    for t in ts {
        let l = t.as_list()?;
        let head = l.first()?.as_atom()?;
        let a = &l[1..];
        match head {
            "v4" if a.len() == 3 => out.push(InEntry {
                e: PathNlri {
                    path_id: u(&a[2], u32::MAX as u64)? as u32,
                    nlri: Nlri::V4(packet::bgp::Ipv4Net {
                        addr: Ipv4Addr::from(u(&a[0], u32::MAX as u64)? as u32),
                        mask: u(&a[1], 32)? as u8,
                    }),
                },
                probe: None,
            }),
            "v4r" if a.len() == 5 => {
                let addr = u(&a[0], u32::MAX as u64)?;
                let mask = u(&a[1], 32)?;
                let pid = u(&a[2], u32::MAX as u64)?;
                let pstep = u(&a[3], u32::MAX as u64)?;
                let count = u(&a[4], 100000)?;
                let step: u64 = if mask == 0 { 0 } else { 1u64 << (32 - mask) };
                for i in 0..count {
                    out.push(InEntry {
                        e: PathNlri {
                            path_id: ((pid + i * pstep) % (1u64 << 32)) as u32,
                            nlri: Nlri::V4(packet::bgp::Ipv4Net {
                                addr: Ipv4Addr::from(((addr + i * step) % (1u64 << 32)) as u32),
                                mask: mask as u8,
                            }),
                        },
                        probe: None,
                    });
                }
            }
            "v6" if a.len() == 3 => out.push(InEntry {
                e: PathNlri {
                    path_id: u(&a[2], u32::MAX as u64)? as u32,
                    nlri: Nlri::V6(packet::bgp::Ipv6Net { addr: Ipv6Addr::from(b16(&a[0])?), mask: u(&a[1], 128)? as u8 }),
                },
                probe: None,
            }),
            "v6r" if a.len() == 5 => {
                let addr = u128::from_be_bytes(b16(&a[0])?);
                let mask = u(&a[1], 128)?;
                let pid = u(&a[2], u32::MAX as u64)?;
                let pstep = u(&a[3], u32::MAX as u64)?;
                let count = u(&a[4], 100000)?;
                let step: u128 = if mask == 0 { 0 } else { 1u128 << (128 - mask) };
                for i in 0..count {
                    out.push(InEntry {
                        e: PathNlri {
                            path_id: ((pid + i * pstep) % (1u64 << 32)) as u32,
                            nlri: Nlri::V6(packet::bgp::Ipv6Net {
                                addr: Ipv6Addr::from(addr.wrapping_add(step.wrapping_mul(i as u128)).to_be_bytes()),
                                mask: mask as u8,
                            }),
                        },
                        probe: None,
                    });
                }
            }
            "o" if a.len() == 4 || a.len() == 5 => {
                let kind = u(&a[0], 255)?;
                let seed = u(&a[1], u64::MAX)?;
                let pid = u(&a[2], u32::MAX as u64)? as u32;
                let pr = if a.len() == 4 || IS_DEBUG { &a[3] } else { &a[4] };
                let pr = pr.as_list()?;
                if pr.len() != 2 && pr.len() != 3 {
                    return None;
                }
                let nlri = fam::mk_nlri(fam, kind, seed)?;
                let (e, d) = probe(fam, reach, &nlri);
                let st = struct_term(&nlri);
                if e != pr[0] || d != pr[1] || st.as_ref() != pr.get(2) {
                    *stale = true;
                }
                out.push(InEntry { e: PathNlri { path_id: pid, nlri }, probe: Some((pr[0].clone(), pr[1].clone())) });
            }
            _ => return None,
        }
    }
    Some(out)
}

/// Family-specific equivalence used for the impl-only (exploration) families: Rust `==`, except that a withdrawn
/// labeled-unicast NLRI is compared on the prefix only (RFC 8277 §2.4: the label field of a withdrawal is ignored).
fn nlri_equiv(reach: bool, a: &Nlri, b: &Nlri) -> bool {
    match (a, b) {
        (Nlri::LabeledV4(x), Nlri::LabeledV4(y)) if !reach => x.prefix == y.prefix,
        (Nlri::LabeledV6(x), Nlri::LabeledV6(y)) if !reach => x.prefix == y.prefix,
        _ => a == b,
    }
}

fn dentry_term(reach: bool, e: &PathNlri, input: Option<&PathNlri>) -> Term {
    match &e.nlri {
        Nlri::V4(n) => Term::tag("v4", vec![Term::nat(u32::from(n.addr)), Term::nat(n.mask), Term::nat(e.path_id)]),
        Nlri::V6(n) => Term::tag("v6", vec![Term::bytes(&n.addr.octets()), Term::nat(n.mask), Term::nat(e.path_id)]),
        other => {
            let eq = input.is_some_and(|i| nlri_equiv(reach, &i.nlri, other));
            Term::tag("o", vec![Term::nat(e.path_id), Term::boolean(eq)])
        }
    }
}

// ------------------------------------------------------------------ probe of one opaque NLRI
fn probe_caps(fam: Family) -> Vec<Capability> {
    vec![Capability::MultiProtocol(fam), Capability::ExtendedMessage, Capability::FourOctetAsNumber(65001)]
}

fn base_attrs() -> Vec<Attribute> {
    vec![Attribute::new_with_value(Attribute::ORIGIN, 0).unwrap(), Attribute::empty_as_path()]
}

fn probe_nh(fam: Family) -> Option<Nexthop> {
    if fam.afi() == Family::AFI_IP6 {
        Some(Nexthop::V6(Ipv6Addr::new(0x2001, 0xdb8, 0, 0, 0, 0, 0, 1)))
    } else {
        Some(Nexthop::V4(Ipv4Addr::new(192, 0, 2, 1)))
    }
}

/// (ENC, DEC) of a single NLRI in this build profile: ENC = the bytes the entry adds to a one-entry MP_REACH / MP_UNREACH
/// frame (so a withdrawn labeled prefix is measured in its withdrawn form), `err` when `encode_to` refuses it, `panic`;
/// DEC = what the real decoder returns for that frame.
/// STRUCT of a label-carrying NLRI (VPN, labeled unicast), read off the value through public fields - never through
/// the encoder: `(vpn (LABEL*) (rd TYPE ADMIN ASSIGNED) xADDR MASK)` / `(lab (LABEL*) xADDR MASK)`.
fn struct_term(nlri: &Nlri) -> Option<Term> {
    use packet::rd::RouteDistinguisher as Rd;
    let labels = |l: &packet::mpls::MplsLabelStack| Term::list(l.labels().iter().map(|x| Term::nat(x.value())).collect());
    let rd = |r: &Rd| match *r {
        Rd::TwoOctetAs { admin, assigned } => Term::tag("rd", vec![Term::nat(0u32), Term::nat(admin), Term::nat(assigned)]),
        Rd::Ipv4 { admin, assigned } => Term::tag("rd", vec![Term::nat(1u32), Term::nat(u32::from(admin)), Term::nat(assigned)]),
        Rd::FourOctetAs { admin, assigned } => Term::tag("rd", vec![Term::nat(2u32), Term::nat(admin), Term::nat(assigned)]),
    };
    match nlri {
        Nlri::VpnV4(n) => Some(Term::tag("vpn", vec![labels(&n.labels), rd(&n.rd), Term::bytes(&n.prefix.addr.octets()), Term::nat(n.prefix.mask)])),
        Nlri::VpnV6(n) => Some(Term::tag("vpn", vec![labels(&n.labels), rd(&n.rd), Term::bytes(&n.prefix.addr.octets()), Term::nat(n.prefix.mask)])),
        Nlri::LabeledV4(n) => Some(Term::tag("lab", vec![labels(&n.labels), Term::bytes(&n.prefix.addr.octets()), Term::nat(n.prefix.mask)])),
        Nlri::LabeledV6(n) => Some(Term::tag("lab", vec![labels(&n.labels), Term::bytes(&n.prefix.addr.octets()), Term::nat(n.prefix.mask)])),
        Nlri::FlowspecV4(n) => Some(Term::tag("flow", vec![Term::nat(0u32), Term::atom("none"), Term::list(n.components.iter().map(flow4_term).collect())])),
        Nlri::FlowspecV6(n) => Some(Term::tag("flow", vec![Term::nat(1u32), Term::atom("none"), Term::list(n.components.iter().map(flow6_term).collect())])),
        Nlri::FlowspecVpnV4(n) => Some(Term::tag("flow", vec![Term::nat(0u32), rd(&n.rd), Term::list(n.components.iter().map(flow4_term).collect())])),
        Nlri::FlowspecVpnV6(n) => Some(Term::tag("flow", vec![Term::nat(1u32), rd(&n.rd), Term::list(n.components.iter().map(flow6_term).collect())])),
        Nlri::Evpn(e) => {
            use packet::evpn::EvpnNlri as E;
            let ip = |a: &std::net::IpAddr| match a {
                std::net::IpAddr::V4(x) => Term::bytes(&x.octets()),
                std::net::IpAddr::V6(x) => Term::bytes(&x.octets()),
            };
            let v = match e {
                E::EthernetAutoDiscovery(r) => vec![Term::atom("ead"), rd(&r.rd), Term::bytes(&r.esi.0), Term::nat(r.etag), Term::nat(r.label)],
                E::MacIpAdvertisement(r) => vec![
                    Term::atom("macip"),
                    rd(&r.rd),
                    Term::bytes(&r.esi.0),
                    Term::nat(r.etag),
                    Term::bytes(&r.mac),
                    r.ip.as_ref().map(ip).unwrap_or_else(|| Term::bytes(&[])),
                    Term::nat(r.label1),
                    r.label2.map(Term::nat).unwrap_or_else(|| Term::atom("none")),
                ],
                E::InclusiveMulticastEthernetTag(r) => vec![Term::atom("imet"), rd(&r.rd), Term::nat(r.etag), ip(&r.originating_router_ip)],
                E::EthernetSegment(r) => vec![Term::atom("es"), rd(&r.rd), Term::bytes(&r.esi.0), ip(&r.originating_router_ip)],
                E::EthernetIpPrefix(r) => vec![
                    Term::atom("pfx"),
                    rd(&r.rd),
                    Term::bytes(&r.esi.0),
                    Term::nat(r.etag),
                    Term::nat(r.prefix_len),
                    ip(&r.ip_prefix),
                    ip(&r.gateway_ip),
                    Term::nat(r.label),
                ],
            };
            Some(Term::tag("evpn", v))
        }
        _ => None,
    }
}

fn flow_ops(ty: u32, ops: &[packet::flowspec::Op]) -> Term {
    let mut v = vec![Term::nat(ty)];
    v.extend(ops.iter().map(|o| Term::list(vec![Term::nat(o.bits), Term::nat(o.value)])));
    Term::tag("n", v)
}

fn flow4_term(c: &packet::flowspec::FlowspecV4Component) -> Term {
    use packet::flowspec::FlowspecV4Component as C;
    let p = |ty: u32, n: &packet::bgp::Ipv4Net| Term::tag("p", vec![Term::nat(ty), Term::nat(n.mask), Term::nat(0u32), Term::bytes(&n.addr.octets())]);
    match c {
        C::DstPrefix(n) => p(1, n),
        C::SrcPrefix(n) => p(2, n),
        C::Protocol(o) => flow_ops(3, o),
        C::Port(o) => flow_ops(4, o),
        C::DstPort(o) => flow_ops(5, o),
        C::SrcPort(o) => flow_ops(6, o),
        C::IcmpType(o) => flow_ops(7, o),
        C::IcmpCode(o) => flow_ops(8, o),
        C::TcpFlags(o) => flow_ops(9, o),
        C::PacketLen(o) => flow_ops(10, o),
        C::Dscp(o) => flow_ops(11, o),
        C::Fragment(o) => flow_ops(12, o),
    }
}

fn flow6_term(c: &packet::flowspec::FlowspecV6Component) -> Term {
    use packet::flowspec::FlowspecV6Component as C;
    let p = |ty: u32, n: &packet::bgp::Ipv6Net, off: u8| Term::tag("p", vec![Term::nat(ty), Term::nat(n.mask), Term::nat(off), Term::bytes(&n.addr.octets())]);
    match c {
        C::DstPrefix { prefix, offset } => p(1, prefix, *offset),
        C::SrcPrefix { prefix, offset } => p(2, prefix, *offset),
        C::NextHeader(o) => flow_ops(3, o),
        C::Port(o) => flow_ops(4, o),
        C::DstPort(o) => flow_ops(5, o),
        C::SrcPort(o) => flow_ops(6, o),
        C::IcmpType(o) => flow_ops(7, o),
        C::IcmpCode(o) => flow_ops(8, o),
        C::TcpFlags(o) => flow_ops(9, o),
        C::PacketLen(o) => flow_ops(10, o),
        C::Dscp(o) => flow_ops(11, o),
        C::Fragment(o) => flow_ops(12, o),
        C::FlowLabel(o) => flow_ops(13, o),
    }
}

fn probe(fam: Family, reach: bool, nlri: &Nlri) -> (Term, Term) {
    let caps = probe_caps(fam);
    let entries = vec![PathNlri { path_id: 0, nlri: nlri.clone() }];
    let mk = |es: Vec<PathNlri>| {
        if reach {
            Message::Update(Update::Reach { family: fam, entries: es, nexthop: probe_nh(fam), attr: Arc::new(base_attrs()) })
        } else {
            Message::Update(Update::Unreach { family: fam, entries: es })
        }
    };
    let r = catch_unwind(AssertUnwindSafe(|| {
        let mut c = PeerCodec::negotiate(&caps, &caps);
        let mut b0 = BytesMut::new();
        c.encode_to(&mk(vec![]), &mut b0).ok()?;
        let mut buf = BytesMut::new();
        c.encode_to(&mk(entries.clone()), &mut buf).ok()?;
        if buf.len() < b0.len() {
            return None;
        }
        let enc = buf[b0.len()..].to_vec();
        let mut p = PeerCodec::negotiate(&caps, &caps);
        Some((enc, p.try_parse(&mut buf)))
    }));
    let (enc, parsed) = match r {
        Err(_) => return (Term::atom("panic"), Term::atom("panic")),
        Ok(None) => return (Term::atom("err"), Term::atom("err")),
        Ok(Some(x)) => x,
    };
    let dec = match parsed {
        Err(_) | Ok(None) => Term::atom("err"),
        Ok(Some(ParsedMessage::Update(ParsedUpdate::Routes { mp_reach, mp_unreach, .. }))) => {
            let got: Vec<PathNlri> = if reach {
                mp_reach.map(|r| r.entries).unwrap_or_default()
            } else {
                mp_unreach.map(|r| r.entries).unwrap_or_default()
            };
            Term::list(got.iter().enumerate().map(|(i, e)| dentry_term(reach, e, entries.get(i))).collect())
        }
        Ok(Some(_)) => Term::list(vec![]),
    };
    (Term::bytes(&enc), dec)
}

// ------------------------------------------------------------------ messages
struct Case {
    local: Vec<Capability>,
    remote: Vec<Capability>,
    msg: Message,
    reach: bool,
    entries: Vec<PathNlri>,
}

fn msg_of(t: &Term, stale: &mut bool) -> Option<(Message, bool, Vec<PathNlri>)> {
    if t.as_atom() == Some("keepalive") {
        return Some((Message::Keepalive, true, vec![]));
    }
    let l = t.as_list()?;
    let head = l.first()?.as_atom()?;
    let a = &l[1..];
    match head {
        "open" if a.len() >= 3 => Some((
            Message::Open(Open {
                as_number: u(&a[0], u32::MAX as u64)? as u32,
                holdtime: HoldTime::new(u(&a[1], 65535)? as u16)?,
                router_id: u(&a[2], u32::MAX as u64)? as u32,
                capability: caps_of(&a[3..])?,
            }),
            true,
            vec![],
        )),
        "reach" if a.len() == 5 => {
            let family = family_of(&a[0], &a[1])?;
            let nexthop = nh_of(&a[2])?;
            let attrs: Option<Vec<Attribute>> = a[3].tagged("attrs")?.iter().map(attr_of).collect();
            let ents = entries_of(family, true, a[4].tagged("entries")?, stale)?;
            let entries: Vec<PathNlri> = ents.into_iter().map(|e| e.e).collect();
            Some((
                Message::Update(Update::Reach { family, entries: entries.clone(), nexthop, attr: Arc::new(attrs?) }),
                true,
                entries,
            ))
        }
        "unreach" if a.len() == 3 => {
            let family = family_of(&a[0], &a[1])?;
            let ents = entries_of(family, false, a[2].tagged("entries")?, stale)?;
            let entries: Vec<PathNlri> = ents.into_iter().map(|e| e.e).collect();
            Some((Message::Update(Update::Unreach { family, entries: entries.clone() }), false, entries))
        }
        "eor" if a.len() == 2 => Some((Message::Update(Update::EndOfRib(family_of(&a[0], &a[1])?)), true, vec![])),
        "notif" if a.len() == 3 => Some((
            Message::Notification(Notification::from_notification(
                u(&a[0], 255)? as u8,
                u(&a[1], 255)? as u8,
                data_of(&a[2])?,
            )),
            true,
            vec![],
        )),
        "rr" if a.len() == 2 => Some((Message::RouteRefresh { family: family_of(&a[0], &a[1])? }, true, vec![])),
        _ => None,
    }
}

fn case_of(line: &str, stale: &mut bool) -> Option<Case> {
    let t = Term::parse(line)?;
    let a = t.tagged("case")?;
    if a.len() != 3 {
        return None;
    }
    let local = caps_of(a[0].tagged("local")?)?;
    let remote = caps_of(a[1].tagged("remote")?)?;
    let (msg, reach, entries) = msg_of(&a[2], stale)?;
    Some(Case { local, remote, msg, reach, entries })
}

// ------------------------------------------------------------------ rendering of decoded messages
fn notif_term(n: &Notification) -> Term {
    Term::tag(
        "notif",
        vec![Term::nat(n.notification_code()), Term::nat(n.notification_subcode()), Term::bytes(n.notification_data())],
    )
}

/// `base`: global index (into the case's entry list) of the first entry carried by this frame.
fn parsed_term(p: &ParsedMessage, input: &[PathNlri], base: usize) -> (Term, usize, bool) {
    match p {
        ParsedMessage::Open(o) => {
            let mut v = vec![Term::nat(o.as_number), Term::nat(o.holdtime.seconds()), Term::nat(o.router_id)];
            v.extend(o.capability.iter().map(cap_term));
            (Term::tag("open", v), 0, true)
        }
        ParsedMessage::Update(ParsedUpdate::EndOfRib(f)) => (Term::tag("eor", fam_terms(f)), 0, true),
        ParsedMessage::Update(ParsedUpdate::Routes { reach, mp_reach, unreach, mp_unreach, attrs, error_attrs }) => {
            let mut idx = base;
            let mut r = |x: &Option<packet::ReachNlri>, idx: &mut usize| match x {
                None => Term::atom("none"),
                Some(r) => {
                    let mut v = fam_terms(&r.family);
                    v.push(nh_term(&r.nexthop));
                    for e in &r.entries {
                        v.push(dentry_term(true, e, input.get(*idx)));
                        *idx += 1;
                    }
                    Term::tag("r", v)
                }
            };
            let t_reach = r(reach, &mut idx);
            let t_mpreach = r(mp_reach, &mut idx);
            let mut w = |x: &Option<packet::UnreachNlri>, idx: &mut usize| match x {
                None => Term::atom("none"),
                Some(r) => {
                    let mut v = fam_terms(&r.family);
                    for e in &r.entries {
                        v.push(dentry_term(false, e, input.get(*idx)));
                        *idx += 1;
                    }
                    Term::tag("u", v)
                }
            };
            let t_unreach = w(unreach, &mut idx);
            let t_mpunreach = w(mp_unreach, &mut idx);
            let t = Term::tag(
                "upd",
                vec![
                    t_reach,
                    t_mpreach,
                    t_unreach,
                    t_mpunreach,
                    Term::tag("attrs", attrs.iter().map(attr_term).collect()),
                    Term::tag(
                        "errs",
                        error_attrs.iter().map(|e| Term::list(vec![Term::nat(e.attr_code), Term::nat(e.attr_flags)])).collect(),
                    ),
                ],
            );
            let bad = t.to_string().contains(" f)") && {
                // an opaque-family entry that the real decoder did not return equal to the input
                fn has_bad(t: &Term) -> bool {
                    match t {
                        Term::List(l) => {
                            (l.len() == 3 && l[0].as_atom() == Some("o") && l[2].as_atom() == Some("f")) || l.iter().any(has_bad)
                        }
                        _ => false,
                    }
                }
                has_bad(&t)
            };
            (t, idx - base, error_attrs.is_empty() && !bad)
        }
        ParsedMessage::Notification(n) => (notif_term(n), 0, true),
        ParsedMessage::Keepalive => (Term::atom("keepalive"), 0, true),
        ParsedMessage::RouteRefresh { family } => (Term::tag("rr", fam_terms(family)), 0, true),
    }
}

/// Decode a byte stream with the peer's codec until it is exhausted or the decoder stops.
/// Returns rendered messages, the parsed messages (for the fixed-point probe) and `clean`.
fn decode_stream(
    peer: &mut PeerCodec,
    stream: &[u8],
    input: &[PathNlri],
) -> (Vec<Term>, Vec<ParsedMessage>, bool) {
    let mut buf = BytesMut::from(stream);
    let mut out = Vec::new();
    let mut msgs = Vec::new();
    let mut clean = true;
    let mut base = 0usize;
    loop {
        if buf.is_empty() {
            break;
        }
        let r = catch_unwind(AssertUnwindSafe(|| peer.try_parse(&mut buf)));
        match r {
            Err(_) => {
                out.push(Term::tag("panic", vec![]));
                clean = false;
                break;
            }
            Ok(Err(n)) => {
                out.push(Term::tag("err", vec![Term::nat(n.notification_code()), Term::nat(n.notification_subcode())]));
                clean = false;
                break;
            }
            Ok(Ok(None)) => {
                out.push(Term::tag("short", vec![Term::nat(buf.len() as u64)]));
                clean = false;
                break;
            }
            Ok(Ok(Some(p))) => {
                let (t, n, ok) = parsed_term(&p, input, base);
                base += n;
                clean &= ok;
                out.push(t);
                msgs.push(p);
            }
        }
    }
    (out, msgs, clean)
}

fn run_case(line: &str) -> String {
    let mut stale = false;
    let case = match case_of(line, &mut stale) {
        Some(c) => c,
        None => return "(bad-case)".into(),
    };
    if stale {
        return "(stale-case)".into();
    }
    let r = catch_unwind(AssertUnwindSafe(|| {
        let mut enc = PeerCodec::negotiate(&case.local, &case.remote);
        let mut buf = BytesMut::new();
        let n = enc.encode_to(&case.msg, &mut buf);
        (n, buf)
    }));
    let (n, buf) = match r {
        Err(_) => return "(panic)".into(),
        Ok((Err(_), _)) => return "(err)".into(),
        Ok((Ok(n), buf)) => (n, buf),
    };
    let mut peer = PeerCodec::negotiate(&case.remote, &case.local);
    let (dec, msgs, clean) = decode_stream(&mut peer, &buf, &case.entries);
    // fixed point: decode(encode(x)) = x for every x obtained by decoding
    let fp = if !clean {
        Term::atom("na")
    } else {
        let r = catch_unwind(AssertUnwindSafe(|| {
            let mut base = 0usize;
            for (p, t) in msgs.iter().zip(dec.iter()) {
                let ms: Vec<Message> = match packet::validate_message(p.clone(), false) {
                    Ok(it) => it.collect(),
                    Err(_) => return false,
                };
                if ms.is_empty() {
                    // a decoded UPDATE that carries no route yields no message: nothing to re-encode
                    continue;
                }
                let mut enc2 = PeerCodec::negotiate(&case.local, &case.remote);
                let mut b2 = BytesMut::new();
                for m in &ms {
                    if enc2.encode_to(m, &mut b2).is_err() {
                        return false;
                    }
                }
                let mut peer2 = PeerCodec::negotiate(&case.remote, &case.local);
                // the entries of this frame, for the eq flags of opaque families
                let n_here = match p {
                    ParsedMessage::Update(ParsedUpdate::Routes { reach, mp_reach, unreach, mp_unreach, .. }) => {
                        reach.as_ref().map_or(0, |r| r.entries.len())
                            + mp_reach.as_ref().map_or(0, |r| r.entries.len())
                            + unreach.as_ref().map_or(0, |r| r.entries.len())
                            + mp_unreach.as_ref().map_or(0, |r| r.entries.len())
                    }
                    _ => 0,
                };
                let slice: &[PathNlri] =
                    if base + n_here <= case.entries.len() { &case.entries[base..base + n_here] } else { &[] };
                base += n_here;
                let (d2, _, c2) = decode_stream(&mut peer2, &b2, slice);
                if !c2 || d2.len() != 1 || d2[0] != *t {
                    return false;
                }
            }
            true
        }));
        match r {
            Ok(b) => Term::boolean(b),
            Err(_) => Term::atom("panic"),
        }
    };
    let _ = case.reach;
    Term::tag("obs", vec![Term::nat(n as u64), Term::bytes(&buf), Term::tag("dec", dec), Term::tag("fp", vec![fp])]).to_string()
}

fn run_probe(line: &str) -> String {
    let w: Vec<&str> = line.split_whitespace().collect();
    if w.len() != 5 {
        return "(bad-case)".into();
    }
    let (afi, safi, kind, seed) = match (w[0].parse::<u16>(), w[1].parse::<u8>(), w[3].parse::<u64>(), w[4].parse::<u64>()) {
        (Ok(a), Ok(b), Ok(c), Ok(d)) => (a, b, c, d),
        _ => return "(bad-case)".into(),
    };
    let fam = Family::new(afi, safi);
    let reach = w[2] == "reach";
    match catch_unwind(AssertUnwindSafe(|| fam::mk_nlri(fam, kind, seed))) {
        Ok(Some(n)) => {
            let (e, d) = probe(fam, reach, &n);
            let mut v = vec![e, d];
            if let Some(st) = struct_term(&n) {
                v.push(st);
            }
            Term::list(v).to_string()
        }
        _ => "(bad-case)".into(),
    }
}

fn main() {
    std::panic::set_hook(Box::new(|_| {}));
    let args: Vec<String> = std::env::args().collect();
    if args.len() == 4 && args[1] == "run" {
        run_lines(&args[2], &args[3], |l| match catch_unwind(AssertUnwindSafe(|| run_case(l))) {
            Ok(s) => s,
            Err(_) => "(panic)".into(),
        });
    } else if args.len() == 4 && args[1] == "probe" {
        run_lines(&args[2], &args[3], |l| match catch_unwind(AssertUnwindSafe(|| run_probe(l))) {
            Ok(s) => s,
            Err(_) => "(bad-case)".into(),
        });
    } else {
        eprintln!("usage: c04 run|probe <in> <out>");
        std::process::exit(2);
    }
    let _ = IpAddr::V4(Ipv4Addr::UNSPECIFIED);
}
