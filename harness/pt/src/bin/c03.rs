// C03 harness: runs the real wire decoders (BGP PeerCodec::try_parse, RTR RtrCodec::decode, bfd::Message::decode)
// on each case line and prints one canonical observation line.
//   c03 run <in> <out>        c03 gen <seed> <n> <tier>
#[path = "../wire.rs"]
mod wire;
#[path = "../wiregen.rs"]
mod wiregen;
#[path = "../wirebound.rs"]
mod wirebound;
#[path = "../wireattr.rs"]
mod wireattr;
#[path = "/verif/harness/common/c03_sess.rs"]
mod sessconv;

use bytes::BytesMut;
use rustybgp_packet::{bfd, rpki};
use std::panic::{AssertUnwindSafe, catch_unwind};
use tokio_util::codec::Decoder;
use verif_pt::sexp::{Term, run_lines};
use wire::*;

/// `bgp` and `xbgp` print the same records; `xbgp` (families whose NLRI decoder is a hypothesis of the theorems)
/// is impl-only exploration judged by the oracle alone (CONFIG impl_only_re).
fn bgp_stream(desc: &CodecDesc, chunks: &[Vec<u8>]) -> Term {
    let mut codec = desc.build();
    let mut buf = BytesMut::new();
    let mut recs: Vec<Term> = Vec::new();
    'outer: for ch in chunks {
        buf.extend_from_slice(ch);
        // per-chunk step budget: every successful call must consume >= 19 bytes
        let mut budget = buf.len() / 19 + 2;
        loop {
            if budget == 0 {
                recs.push(Term::list(vec![Term::atom("stall")]));
                break 'outer;
            }
            budget -= 1;
            match try_parse_step(&mut codec, &mut buf) {
                Step::Panic => {
                    recs.push(Term::list(vec![Term::atom("panic")]));
                    break 'outer;
                }
                Step::Msg { consumed, rem, msg } => {
                    recs.push(Term::tag("msg", vec![Term::nat(consumed as u64), Term::nat(rem as u64), parsed_t(&msg)]));
                }
                Step::More { rem } => {
                    recs.push(Term::tag("more", vec![Term::nat(rem as u64)]));
                    break;
                }
                Step::Err { consumed, rem, n } => {
                    let mut v = notif_t(&n);
                    v.push(Term::nat(consumed as u64));
                    v.push(Term::nat(rem as u64));
                    recs.push(Term::tag("err", v));
                    break 'outer;
                }
            }
        }
    }
    Term::tag("obs", recs)
}

fn rtr_msg_t(m: &rpki::Message) -> Term {
    use rpki::Message as M;
    match m {
        M::SerialNotify { session_id, serial_number } => {
            Term::tag("serial-notify", vec![Term::nat(*session_id), Term::nat(*serial_number)])
        }
        M::SerialQuery { session_id, serial_number } => {
            Term::tag("serial-query", vec![Term::nat(*session_id), Term::nat(*serial_number)])
        }
        M::ResetQuery => Term::atom("reset-query"),
        M::CacheResponse { session_id } => Term::tag("cache-response", vec![Term::nat(*session_id)]),
        M::IpPrefix(p) => {
            let (mask, addr) = match &p.net {
                rustybgp_packet::IpNet::V4(n) => (n.mask, n.addr.octets().to_vec()),
                rustybgp_packet::IpNet::V6(n) => (n.mask, n.addr.octets().to_vec()),
            };
            Term::tag(
                "prefix",
                vec![Term::nat(p.flags), Term::nat(mask), Term::nat(p.max_length), Term::bytes(&addr), Term::nat(p.as_number)],
            )
        }
        M::EndOfData { session_id, serial_number, refresh_interval, retry_interval, expire_interval } => Term::tag(
            "end-of-data",
            vec![
                Term::nat(*session_id),
                Term::nat(*serial_number),
                Term::nat(*refresh_interval),
                Term::nat(*retry_interval),
                Term::nat(*expire_interval),
            ],
        ),
        M::CacheReset => Term::atom("cache-reset"),
        M::ErrorReport { error_code } => Term::tag("error-report", vec![Term::nat(*error_code)]),
        M::Unsupported { pdu_type } => Term::tag("unsupported", vec![Term::nat(*pdu_type)]),
    }
}

fn rtr_stream(chunks: &[Vec<u8>]) -> Term {
    let mut codec = rpki::RtrCodec::new();
    let mut buf = BytesMut::new();
    let mut recs: Vec<Term> = Vec::new();
    'outer: for ch in chunks {
        buf.extend_from_slice(ch);
        loop {
            let before = buf.len();
            let r = catch_unwind(AssertUnwindSafe(|| codec.decode(&mut buf)));
            match r {
                Err(_) => {
                    recs.push(Term::list(vec![Term::atom("panic")]));
                    break 'outer;
                }
                Ok(Ok(Some(m))) => {
                    let consumed = before - buf.len();
                    recs.push(Term::tag("pdu", vec![Term::nat(consumed as u64), Term::nat(buf.len() as u64), rtr_msg_t(&m)]));
                    if consumed == 0 {
                        // tokio's Framed would call decode again on the same bytes for ever
                        recs.push(Term::list(vec![Term::atom("stall")]));
                        break 'outer;
                    }
                }
                Ok(Ok(None)) => {
                    recs.push(Term::tag("more", vec![Term::nat(buf.len() as u64)]));
                    break;
                }
                Ok(Err(_)) => {
                    let consumed = before - buf.len();
                    recs.push(Term::tag("err", vec![Term::nat(consumed as u64), Term::nat(buf.len() as u64)]));
                    break 'outer;
                }
            }
        }
    }
    Term::tag("obs", recs)
}

fn bfd_one(b: &[u8]) -> Term {
    let r = catch_unwind(AssertUnwindSafe(|| bfd::Message::decode(b)));
    match r {
        Err(_) => Term::tag("obs", vec![Term::list(vec![Term::atom("panic")])]),
        Ok(Ok(m)) => Term::tag(
            "obs",
            vec![Term::tag(
                "bfd",
                vec![
                    Term::nat(m.diagnostic.0),
                    Term::nat(m.state as u8),
                    Term::boolean(m.poll),
                    Term::boolean(m.final_),
                    Term::boolean(m.control_plane_independent),
                    Term::boolean(m.demand),
                    Term::nat(m.detect_multiplier),
                    Term::nat(m.my_discriminator),
                    Term::nat(m.your_discriminator),
                    Term::nat(m.desired_min_tx_interval),
                    Term::nat(m.required_min_rx_interval),
                    Term::nat(m.required_min_echo_rx_interval),
                ],
            )],
        ),
        Ok(Err(e)) => {
            let t = match e {
                bfd::Error::InvalidLength(n) => Term::tag("bad-length", vec![Term::nat(n as u64)]),
                bfd::Error::InvalidVersion(v) => Term::tag("bad-version", vec![Term::nat(v)]),
                bfd::Error::InvalidState(v) => Term::tag("bad-state", vec![Term::nat(v)]),
                bfd::Error::InvalidDiagnostic(v) => Term::tag("bad-diag", vec![Term::nat(v)]),
                bfd::Error::Io => Term::atom("io"),
            };
            Term::tag("obs", vec![Term::tag("bfd-err", vec![t])])
        }
    }
}

/// the attribute-body parsers that the daemon runs lazily on received bytes (daemon/src/convert.rs): no result is
/// compared, only "returns, without a panic, in bounded time" (a watchdog thread turns a hang into `stall`)
fn xattr_one(kind: &str, b: &[u8]) -> Term {
    let kind = kind.to_string();
    let data = b.to_vec();
    let (tx, rx) = std::sync::mpsc::channel();
    std::thread::spawn(move || {
        let r = catch_unwind(AssertUnwindSafe(|| match kind.as_str() {
            "tunnel" => {
                let _ = rustybgp_packet::tunnel_encap::decode(&data);
            }
            "psid" => {
                let _ = rustybgp_packet::prefix_sid::PrefixSid::decode(&data);
            }
            _ => {
                let _ = rustybgp_packet::ls::parse_ls_attr(&data);
            }
        }));
        let _ = tx.send(r.is_ok());
    });
    let what = match rx.recv_timeout(std::time::Duration::from_secs(5)) {
        Ok(true) => "done",
        Ok(false) => "panic",
        Err(_) => "stall",
    };
    Term::tag("obs", vec![Term::list(vec![Term::atom(what)])])
}

fn run_case(line: &str) -> String {
    let bad = "(bad-case)".to_string();
    let Some(t) = Term::parse(line) else { return bad };
    let Some(l) = t.as_list() else { return bad };
    match t.head() {
        Some("bgp") | Some("xbgp") => {
            if l.len() != 3 {
                return bad;
            }
            let full = t.head() == Some("bgp");
            let Some(desc) = CodecDesc::parse(&l[1]) else { return bad };
            let Some(chunks) = chunks_of(&l[2]) else { return bad };
            if !desc.distinct() || (full && !desc.all_modelled()) {
                return bad;
            }
            bgp_stream(&desc, &chunks).to_string()
        }
        Some("xattr") => {
            if l.len() != 3 {
                return bad;
            }
            let Some(kind) = l[1].as_atom() else { return bad };
            if kind != "tunnel" && kind != "psid" && kind != "ls" {
                return bad;
            }
            let Some(b) = bytes_of(&l[2]) else { return bad };
            xattr_one(kind, &b).to_string()
        }
        Some("rtr") => {
            if l.len() != 2 {
                return bad;
            }
            let Some(chunks) = chunks_of(&l[1]) else { return bad };
            rtr_stream(&chunks).to_string()
        }
        Some("bfd") => {
            if l.len() != 2 {
                return bad;
            }
            let Some(b) = bytes_of(&l[1]) else { return bad };
            bfd_one(&b).to_string()
        }
        _ => bad,
    }
}

// ------------------------------------------------------------------ session stream (routed to the daemon harness)

fn sess_case(desc: &CodecDesc, est: bool, chunks: &[Vec<u8>], eof: bool) -> String {
    let v: Vec<String> = chunks.iter().map(|c| wiregen::hex(c)).collect();
    format!("(sess {} {} (chunks {}) {})", desc.term(), if est { "est" } else { "pre" }, v.join(" "), if eof { "t" } else { "f" })
}

/// at most `k` chunks: the tail is merged into the last one
fn cap_chunks(mut chunks: Vec<Vec<u8>>, k: usize) -> Vec<Vec<u8>> {
    while chunks.len() > k {
        let last = chunks.pop().unwrap();
        chunks.last_mut().unwrap().extend(last);
    }
    chunks
}

fn split_at(b: &[u8], cuts: &[usize]) -> Vec<Vec<u8>> {
    let mut out = Vec::new();
    let mut p = 0;
    for c in cuts {
        let c = (*c).min(b.len());
        if c > p {
            out.push(b[p..c].to_vec());
            p = c;
        }
    }
    if p < b.len() {
        out.push(b[p..].to_vec());
    }
    out
}

/// hostile streams for a live session: deterministic part + the random packet-level streams re-used
fn gen_sess(seed: u64, tier: &str) -> Vec<String> {
    use verif_pt::sexp::Rng;
    let mut out = Vec::new();
    let d4 = CodecDesc { ext: false, two: false, fams: vec![(1, 1, false)] };
    let d46 = CodecDesc { ext: true, two: true, fams: vec![(1, 1, true), (2, 1, false)] };
    let ka = wiregen::raw_frame(4, &[]);
    let mut attrs = Vec::new();
    attrs.extend(wiregen::raw_attr(0x40, 1, &[0]));
    attrs.extend(wiregen::raw_attr(0x40, 2, &[2, 1, 0, 0, 0xfd, 0x78]));
    attrs.extend(wiregen::raw_attr(0x40, 3, &[10, 0, 0, 1]));
    attrs.extend(wiregen::raw_attr(0xc0, 8, &[0xff, 0xff, 0xff, 1]));
    let upd = wiregen::raw_update(&[], &attrs, &[24, 192, 0, 2]);
    let notif = wiregen::raw_frame(3, &[6, 2]);
    let rr = wiregen::raw_frame(5, &[0, 1, 0, 1]);
    // --- established session
    for desc in [&d4] {
        // one byte per write
        out.push(sess_case(desc, true, &ka.iter().map(|b| vec![*b]).collect::<Vec<_>>(), false));
        // writes that end inside the header / inside an attribute / between messages
        for cut in [1usize, 15, 16, 17, 18, 19, 22, 23, 26, 30, upd.len() - 1] {
            out.push(sess_case(desc, true, &split_at(&upd, &[cut]), false));
            out.push(sess_case(desc, true, &split_at(&upd, &[cut]), true));
            // a trailing partial message followed by EOF / left waiting
            out.push(sess_case(desc, true, &[upd[..cut].to_vec()], true));
            out.push(sess_case(desc, true, &[upd[..cut].to_vec()], false));
            out.push(sess_case(desc, true, &[[ka.clone(), upd[..cut].to_vec()].concat()], true));
        }
        // several messages in one write
        for n in [2usize, 10, 200] {
            let many: Vec<u8> = (0..n).flat_map(|i| if i % 3 == 2 { upd.clone() } else { ka.clone() }).collect();
            out.push(sess_case(desc, true, &[many.clone()], false));
            out.push(sess_case(desc, true, &split_at(&many, &[many.len() / 2 + 7]), true));
        }
        // messages that end the session: NOTIFICATION, OPEN, bad header length / type, bad attribute
        let open = sessconv::canon_open(desc.ext, desc.two, &desc.fams);
        for m in [notif.clone(), open.clone(), rr.clone()] {
            out.push(sess_case(desc, true, &[ka.clone(), m.clone(), ka.clone()], false));
            out.push(sess_case(desc, true, &split_at(&[ka.clone(), m.clone(), ka.clone()].concat(), &[20, 25]), false));
        }
        for (hi, lo, ty) in [(0u8, 18u8, 4u8), (0, 0, 4), (0x10, 1, 2), (0xff, 0xff, 2), (0, 19, 0), (0, 19, 6), (0, 20, 4), (0, 19, 2), (0, 22, 2)] {
            let mut f = vec![0xffu8; 16];
            f.extend_from_slice(&[hi, lo, ty]);
            out.push(sess_case(desc, true, &[ka.clone(), f.clone()], false));
            out.push(sess_case(desc, true, &[f.clone(), vec![0; 8]], true));
            out.push(sess_case(desc, true, &split_at(&f, &[16, 17, 18]), false));
        }
        // a maximum-size message, byte patterns, an oversized one for the non-extended session
        let big: Vec<u8> = {
            let v: Vec<u8> = (0..4000).map(|i| (i % 4 == 3) as u8 * 7 + 0xf0).collect();
            let mut a = attrs.clone();
            a.extend(wiregen::raw_attr(0xd0, 8, &v));
            wiregen::raw_update(&[], &a, &[24, 192, 0, 2])
        };
        out.push(sess_case(desc, true, &split_at(&big, &[1000, 2000, 3000]), false));
        out.push(sess_case(desc, true, &[big[..3000].to_vec()], true));
        out.push(sess_case(desc, true, &[vec![0u8; 64]], false));
        out.push(sess_case(desc, true, &[vec![0xffu8; 64]], false));
        out.push(sess_case(desc, true, &[], true));
        out.push(sess_case(desc, true, &[], false));
    }
    // --- before the OPEN exchange
    for desc in [&d4, &d46] {
        let open = sessconv::canon_open(desc.ext, desc.two, &desc.fams);
        let params = sessconv::canon_params(desc.ext, desc.two, &desc.fams);
        out.push(sess_case(desc, false, &[open.clone()], false));
        out.push(sess_case(desc, false, &[open.clone(), ka.clone()], false));
        out.push(sess_case(desc, false, &[[open.clone(), ka.clone(), upd.clone(), ka.clone()].concat()], false));
        out.push(sess_case(desc, false, &open.iter().map(|b| vec![*b]).collect::<Vec<_>>()[..].chunks(4).map(|c| c.concat()).collect::<Vec<_>>(), false));
        for cut in [1usize, 16, 18, 19, 20, 28, 29, 31, open.len() - 1] {
            out.push(sess_case(desc, false, &split_at(&open, &[cut]), false));
            out.push(sess_case(desc, false, &[open[..cut].to_vec()], true));
            out.push(sess_case(desc, false, &[open[..cut].to_vec()], false));
        }
        // first message is not an OPEN / OPEN twice / UPDATE before KEEPALIVE / wrong AS / bad fixed fields
        for m in [ka.clone(), upd.clone(), notif.clone(), rr.clone()] {
            out.push(sess_case(desc, false, &[m.clone()], false));
            out.push(sess_case(desc, false, &[open.clone(), m.clone()], false));
            out.push(sess_case(desc, false, &[open.clone(), ka.clone(), m.clone()], true));
        }
        out.push(sess_case(desc, false, &[open.clone(), open.clone()], false));
        for (my_as, hold, rid) in [(100u16, 0u16, 0x0a000001u32), (sessconv::PEER_ASN as u16, 1, 0x0a000001), (sessconv::PEER_ASN as u16, 0, 0), (23456, 90, 0x0a000001)] {
            out.push(sess_case(desc, false, &[sessconv::open_frame(my_as, hold, rid, &params), ka.clone()], false));
        }
        let mut v = open.clone();
        v[19] = 3; // version
        out.push(sess_case(desc, false, &[v], false));
        out.push(sess_case(desc, false, &[vec![0u8; 40]], false));
        out.push(sess_case(desc, false, &[], true));
    }
    // --- random: the packet-level streams (valid encoder output + structural mutations, fragmented) on a live session
    let n = if tier == "thorough" { 3000 } else { 110 };
    let mut r = Rng(seed.wrapping_mul(0x9E3779B97F4A7C15) ^ 0x5E55);
    let mut made = 0;
    let mut tries = 0;
    while made < n && tries < n * 20 {
        tries += 1;
        let line = wiregen::gen_bgp_case(&mut r);
        let Some(t) = Term::parse(&line) else { continue };
        let Some(l) = t.as_list() else { continue };
        if l.len() != 3 {
            continue;
        }
        let Some(desc) = CodecDesc::parse(&l[1]) else { continue };
        let Some(chunks) = chunks_of(&l[2]) else { continue };
        if desc.fams.is_empty() || !desc.distinct() || !desc.fams.iter().all(|f| sessconv::sess_family(f.0, f.1)) {
            continue;
        }
        let eof = r.chance(1, 4);
        match r.below(4) {
            0 => {
                // before the OPEN exchange: the stream alone, or behind the OPEN (and KEEPALIVE)
                let open = sessconv::canon_open(desc.ext, desc.two, &desc.fams);
                let mut all: Vec<u8> = if r.chance(1, 3) { vec![] } else if r.chance(1, 2) { open.clone() } else { [open.clone(), wiregen::raw_frame(4, &[])].concat() };
                all.extend(chunks.concat());
                if !sessconv::pre_admissible(desc.ext, desc.two, &desc.fams, &all) {
                    continue;
                }
                let ch = cap_chunks(wiregen::fragment(&mut r, &all), 6);
                out.push(sess_case(&desc, false, &ch, eof));
            }
            _ => out.push(sess_case(&desc, true, &cap_chunks(chunks, 6), eof)),
        }
        made += 1;
    }
    out
}

/// hostile RTR streams for the real client loop: the packet-level RTR streams with an end-of-stream flag, plus one PDU
/// of every type byte by byte, several PDUs in one write, a trailing partial PDU
fn gen_rtrs(seed: u64, tier: &str) -> Vec<String> {
    use verif_pt::sexp::Rng;
    let mut out = Vec::new();
    let fmt = |chunks: &[Vec<u8>], eof: bool| {
        let v: Vec<String> = chunks.iter().map(|c| wiregen::hex(c)).collect();
        format!("(rtrs (chunks {}) {})", v.join(" "), if eof { "t" } else { "f" })
    };
    let pdu = |ver: u8, ty: u8, sess: u16, body: &[u8]| -> Vec<u8> {
        let mut v = vec![ver, ty];
        v.extend_from_slice(&sess.to_be_bytes());
        v.extend_from_slice(&((8 + body.len()) as u32).to_be_bytes());
        v.extend_from_slice(body);
        v
    };
    let cr = pdu(1, 3, 7, &[]);
    let p4 = pdu(1, 4, 0, &[1, 24, 24, 0, 192, 0, 2, 0, 0, 0, 0xfd, 0xe9]);
    let p6 = pdu(1, 6, 0, &[1, 32, 48, 0, 0x20, 1, 0x0d, 0xb8, 0, 0, 0, 0, 0, 0, 0, 0, 0, 0, 0, 0, 0, 0, 0xfd, 0xe9]);
    let eod = pdu(1, 7, 7, &[0, 0, 0, 5, 0, 0, 14, 16, 0, 0, 2, 88, 0, 0, 28, 32]);
    let all: Vec<u8> = [cr.clone(), p4.clone(), p6.clone(), eod.clone()].concat();
    out.push(fmt(&all.iter().map(|b| vec![*b]).collect::<Vec<_>>()[..].chunks(2).map(|c| c.concat()).collect::<Vec<_>>(), false));
    out.push(fmt(&[all.clone()], false));
    out.push(fmt(&[all.clone()], true));
    for cut in [1usize, 4, 7, 8, 9, 12, all.len() - 1] {
        out.push(fmt(&[all[..cut].to_vec()], true));
        out.push(fmt(&[all[..cut].to_vec()], false));
        out.push(fmt(&[all[..cut].to_vec(), all[cut..].to_vec()], false));
    }
    for (len, ty) in [(0u32, 3u8), (7, 3), (9, 3), (8, 99), (0xffff_ffff, 4), (65536, 4), (20, 4), (21, 4), (19, 4)] {
        let mut v = vec![1u8, ty, 0, 0];
        v.extend_from_slice(&len.to_be_bytes());
        v.extend_from_slice(&[0u8; 16]);
        out.push(fmt(&[cr.clone(), v.clone()], false));
        out.push(fmt(&[v], true));
    }
    out.push(fmt(&[], true));
    out.push(fmt(&[], false));
    let n = if tier == "thorough" { 3000 } else { 150 };
    let mut r = Rng(seed.wrapping_mul(0x9E3779B97F4A7C15) ^ 0x5275);
    for _ in 0..n {
        let line = wiregen::gen_rtr_case(&mut r);
        let Some(t) = Term::parse(&line) else { continue };
        let Some(l) = t.as_list() else { continue };
        if l.len() != 2 {
            continue;
        }
        let Some(chunks) = chunks_of(&l[1]) else { continue };
        out.push(fmt(&cap_chunks(chunks, 12), r.chance(1, 3)));
    }
    out
}

fn main() {
    let a: Vec<String> = std::env::args().collect();
    silence_panics();
    match a.get(1).map(|s| s.as_str()) {
        Some("run") if a.len() == 4 => run_lines(&a[2], &a[3], |l| run_case(l)),
        Some("gen") if a.len() == 5 => {
            let seed: u64 = a[2].parse().expect("seed");
            let n: usize = a[3].parse().expect("n");
            // the systematic boundary stream first (deterministic), then the random stream
            for l in wirebound::boundary_cases() {
                println!("{}", l);
            }
            for l in wireattr::attr_boundary_cases() {
                println!("{}", l);
            }
            for l in gen_sess(seed, &a[4]) {
                println!("{}", l);
            }
            for l in gen_rtrs(seed, &a[4]) {
                println!("{}", l);
            }
            for l in wiregen::gen_c03(seed, n, &a[4]) {
                println!("{}", l);
            }
        }
        _ => {
            eprintln!("usage: c03 run <in> <out> | c03 gen <seed> <n> <tier>");
            std::process::exit(2);
        }
    }
}
