// C03 harness: runs the real wire decoders (BGP PeerCodec::try_parse, RTR RtrCodec::decode, bfd::Message::decode)
// on each case line and prints one canonical observation line.
//   c03 run <in> <out>        c03 gen <seed> <n> <tier>
#[path = "../wire.rs"]
mod wire;
#[path = "../wiregen.rs"]
mod wiregen;
#[path = "../wirebound.rs"]
mod wirebound;
#[path = "../wireattr.rs"]
mod wireattr;

use bytes::BytesMut;
use rustybgp_packet::{bfd, rpki};
use std::panic::{AssertUnwindSafe, catch_unwind};
use tokio_util::codec::Decoder;
use verif_pt::sexp::{Term, run_lines};
use wire::*;

/// `bgp` and `xbgp` print the same records; `xbgp` (families whose NLRI decoder is a hypothesis of the theorems)
/// is impl-only exploration judged by the oracle alone (CONFIG impl_only_re).
fn bgp_stream(desc: &CodecDesc, chunks: &[Vec<u8>]) -> Term {
    let mut codec = desc.build();
    let mut buf = BytesMut::new();
    let mut recs: Vec<Term> = Vec::new();
    'outer: for ch in chunks {
        buf.extend_from_slice(ch);
        // per-chunk step budget: every successful call must consume >= 19 bytes
        let mut budget = buf.len() / 19 + 2;
        loop {
            if budget == 0 {
                recs.push(Term::list(vec![Term::atom("stall")]));
                break 'outer;
            }
            budget -= 1;
            match try_parse_step(&mut codec, &mut buf) {
                Step::Panic => {
                    recs.push(Term::list(vec![Term::atom("panic")]));
                    break 'outer;
                }
                Step::Msg { consumed, rem, msg } => {
                    recs.push(Term::tag("msg", vec![Term::nat(consumed as u64), Term::nat(rem as u64), parsed_t(&msg)]));
                }
                Step::More { rem } => {
                    recs.push(Term::tag("more", vec![Term::nat(rem as u64)]));
                    break;
                }
                Step::Err { consumed, rem, n } => {
                    let mut v = notif_t(&n);
                    v.push(Term::nat(consumed as u64));
                    v.push(Term::nat(rem as u64));
                    recs.push(Term::tag("err", v));
                    break 'outer;
                }
            }
        }
    }
    Term::tag("obs", recs)
}

fn rtr_msg_t(m: &rpki::Message) -> Term {
    use rpki::Message as M;
    match m {
        M::SerialNotify { session_id, serial_number } => {
            Term::tag("serial-notify", vec![Term::nat(*session_id), Term::nat(*serial_number)])
        }
        M::SerialQuery { session_id, serial_number } => {
            Term::tag("serial-query", vec![Term::nat(*session_id), Term::nat(*serial_number)])
        }
        M::ResetQuery => Term::atom("reset-query"),
        M::CacheResponse { session_id } => Term::tag("cache-response", vec![Term::nat(*session_id)]),
        M::IpPrefix(p) => {
            let (mask, addr) = match &p.net {
                rustybgp_packet::IpNet::V4(n) => (n.mask, n.addr.octets().to_vec()),
                rustybgp_packet::IpNet::V6(n) => (n.mask, n.addr.octets().to_vec()),
            };
            Term::tag(
                "prefix",
                vec![Term::nat(p.flags), Term::nat(mask), Term::nat(p.max_length), Term::bytes(&addr), Term::nat(p.as_number)],
            )
        }
        M::EndOfData { session_id, serial_number, refresh_interval, retry_interval, expire_interval } => Term::tag(
            "end-of-data",
            vec![
                Term::nat(*session_id),
                Term::nat(*serial_number),
                Term::nat(*refresh_interval),
                Term::nat(*retry_interval),
                Term::nat(*expire_interval),
            ],
        ),
        M::CacheReset => Term::atom("cache-reset"),
        M::ErrorReport { error_code } => Term::tag("error-report", vec![Term::nat(*error_code)]),
        M::Unsupported { pdu_type } => Term::tag("unsupported", vec![Term::nat(*pdu_type)]),
    }
}

fn rtr_stream(chunks: &[Vec<u8>]) -> Term {
    let mut codec = rpki::RtrCodec::new();
    let mut buf = BytesMut::new();
    let mut recs: Vec<Term> = Vec::new();
    'outer: for ch in chunks {
        buf.extend_from_slice(ch);
        loop {
            let before = buf.len();
            let r = catch_unwind(AssertUnwindSafe(|| codec.decode(&mut buf)));
            match r {
                Err(_) => {
                    recs.push(Term::list(vec![Term::atom("panic")]));
                    break 'outer;
                }
                Ok(Ok(Some(m))) => {
                    let consumed = before - buf.len();
                    recs.push(Term::tag("pdu", vec![Term::nat(consumed as u64), Term::nat(buf.len() as u64), rtr_msg_t(&m)]));
                    if consumed == 0 {
                        // tokio's Framed would call decode again on the same bytes for ever
                        recs.push(Term::list(vec![Term::atom("stall")]));
                        break 'outer;
                    }
                }
                Ok(Ok(None)) => {
                    recs.push(Term::tag("more", vec![Term::nat(buf.len() as u64)]));
                    break;
                }
                Ok(Err(_)) => {
                    let consumed = before - buf.len();
                    recs.push(Term::tag("err", vec![Term::nat(consumed as u64), Term::nat(buf.len() as u64)]));
                    break 'outer;
                }
            }
        }
    }
    Term::tag("obs", recs)
}

fn bfd_one(b: &[u8]) -> Term {
    let r = catch_unwind(AssertUnwindSafe(|| bfd::Message::decode(b)));
    match r {
        Err(_) => Term::tag("obs", vec![Term::list(vec![Term::atom("panic")])]),
        Ok(Ok(m)) => Term::tag(
            "obs",
            vec![Term::tag(
                "bfd",
                vec![
                    Term::nat(m.diagnostic.0),
                    Term::nat(m.state as u8),
                    Term::boolean(m.poll),
                    Term::boolean(m.final_),
                    Term::boolean(m.control_plane_independent),
                    Term::boolean(m.demand),
                    Term::nat(m.detect_multiplier),
                    Term::nat(m.my_discriminator),
                    Term::nat(m.your_discriminator),
                    Term::nat(m.desired_min_tx_interval),
                    Term::nat(m.required_min_rx_interval),
                    Term::nat(m.required_min_echo_rx_interval),
                ],
            )],
        ),
        Ok(Err(e)) => {
            let t = match e {
                bfd::Error::InvalidLength(n) => Term::tag("bad-length", vec![Term::nat(n as u64)]),
                bfd::Error::InvalidVersion(v) => Term::tag("bad-version", vec![Term::nat(v)]),
                bfd::Error::InvalidState(v) => Term::tag("bad-state", vec![Term::nat(v)]),
                bfd::Error::InvalidDiagnostic(v) => Term::tag("bad-diag", vec![Term::nat(v)]),
                bfd::Error::Io => Term::atom("io"),
            };
            Term::tag("obs", vec![Term::tag("bfd-err", vec![t])])
        }
    }
}

/// the attribute-body parsers that the daemon runs lazily on received bytes (daemon/src/convert.rs): no result is
/// compared, only "returns, without a panic, in bounded time" (a watchdog thread turns a hang into `stall`)
fn xattr_one(kind: &str, b: &[u8]) -> Term {
    let kind = kind.to_string();
    let data = b.to_vec();
    let (tx, rx) = std::sync::mpsc::channel();
    std::thread::spawn(move || {
        let r = catch_unwind(AssertUnwindSafe(|| match kind.as_str() {
            "tunnel" => {
                let _ = rustybgp_packet::tunnel_encap::decode(&data);
            }
            "psid" => {
                let _ = rustybgp_packet::prefix_sid::PrefixSid::decode(&data);
            }
            _ => {
                let _ = rustybgp_packet::ls::parse_ls_attr(&data);
            }
        }));
        let _ = tx.send(r.is_ok());
    });
    let what = match rx.recv_timeout(std::time::Duration::from_secs(5)) {
        Ok(true) => "done",
        Ok(false) => "panic",
        Err(_) => "stall",
    };
    Term::tag("obs", vec![Term::list(vec![Term::atom(what)])])
}

fn run_case(line: &str) -> String {
    let bad = "(bad-case)".to_string();
    let Some(t) = Term::parse(line) else { return bad };
    let Some(l) = t.as_list() else { return bad };
    match t.head() {
        Some("bgp") | Some("xbgp") => {
            if l.len() != 3 {
                return bad;
            }
            let full = t.head() == Some("bgp");
            let Some(desc) = CodecDesc::parse(&l[1]) else { return bad };
            let Some(chunks) = chunks_of(&l[2]) else { return bad };
            if !desc.distinct() || (full && !desc.all_modelled()) {
                return bad;
            }
            bgp_stream(&desc, &chunks).to_string()
        }
        Some("xattr") => {
            if l.len() != 3 {
                return bad;
            }
            let Some(kind) = l[1].as_atom() else { return bad };
            if kind != "tunnel" && kind != "psid" && kind != "ls" {
                return bad;
            }
            let Some(b) = bytes_of(&l[2]) else { return bad };
            xattr_one(kind, &b).to_string()
        }
        Some("rtr") => {
            if l.len() != 2 {
                return bad;
            }
            let Some(chunks) = chunks_of(&l[1]) else { return bad };
            rtr_stream(&chunks).to_string()
        }
        Some("bfd") => {
            if l.len() != 2 {
                return bad;
            }
            let Some(b) = bytes_of(&l[1]) else { return bad };
            bfd_one(&b).to_string()
        }
        _ => bad,
    }
}

fn main() {
    let a: Vec<String> = std::env::args().collect();
    silence_panics();
    match a.get(1).map(|s| s.as_str()) {
        Some("run") if a.len() == 4 => run_lines(&a[2], &a[3], |l| run_case(l)),
        Some("gen") if a.len() == 5 => {
            let seed: u64 = a[2].parse().expect("seed");
            let n: usize = a[3].parse().expect("n");
            // the systematic boundary stream first (deterministic), then the random stream
            for l in wirebound::boundary_cases() {
                println!("{}", l);
            }
            for l in wireattr::attr_boundary_cases() {
                println!("{}", l);
            }
            for l in wiregen::gen_c03(seed, n, &a[4]) {
                println!("{}", l);
            }
        }
        _ => {
            eprintln!("usage: c03 run <in> <out> | c03 gen <seed> <n> <tier>");
            std::process::exit(2);
        }
    }
}
