// C05 harness (packet half): renders (valid UPDATE, corruptions) to bytes with the same algorithm as
// lean/Rbgp/Wire/Update.lean `render`, runs the REAL PeerCodec::try_parse + validate_message and prints
//   (obs x<bytes> (ok <Message>*) | (reset code sub xdata) | (more) | (panic))
//   c05 run <in> <out>        c05 gen <seed> <n> <tier>
#[path = "../wire.rs"]
mod wire;
#[path = "../wiregen.rs"]
mod wiregen;
#[path = "../wireattr.rs"]
mod wireattr;

use bytes::BytesMut;
use rustybgp_packet::bgp::validate_message;
use std::panic::{AssertUnwindSafe, catch_unwind};
use verif_pt::sexp::{Term, run_lines};
use wire::*;

#[derive(Clone, Debug)]
struct Pfx {
    id: u64,
    mask: u64,
    addr: Vec<u8>,
}
#[derive(Clone, Debug)]
struct RAttr {
    flags: u64,
    code: u64,
    data: Vec<u8>,
    len_override: Option<u64>,
    present: bool,
    dup: Option<Vec<u8>>,
}
#[derive(Debug)]
enum Corr {
    Flags(usize, u64),
    Data(usize, Vec<u8>),
    LenField(usize, u64),
    Dup(usize, Vec<u8>),
    Omit(usize),
    Trunc(u64),
    Unknown(u64, u64, Vec<u8>),
    NlriBad(u64),
}
struct Upd {
    wd: Vec<Pfx>,
    attrs: Vec<(u64, u64, Vec<u8>)>,
    mpr: Option<(u64, u64, Vec<u8>, Vec<Pfx>)>,
    mpu: Option<(u64, u64, Vec<Pfx>)>,
    nlri: Vec<Pfx>,
}

fn pfx_of(t: &Term) -> Option<Pfx> {
    let l = t.as_list()?;
    if l.len() != 3 {
        return None;
    }
    Some(Pfx { id: l[0].as_u64()?, mask: l[1].as_u64()?, addr: l[2].as_bytes()? })
}
fn pfxs_named(t: &Term, name: &str) -> Option<Vec<Pfx>> {
    t.tagged(name)?.iter().map(pfx_of).collect()
}
fn upd_of(t: &Term) -> Option<Upd> {
    let a = t.tagged("upd")?;
    if a.len() != 5 {
        return None;
    }
    let wd = pfxs_named(&a[0], "wd")?;
    let mut attrs = Vec::new();
    for x in a[1].tagged("attrs")? {
        let f = x.tagged("a")?;
        if f.len() != 3 {
            return None;
        }
        attrs.push((f[0].as_u64()?, f[1].as_u64()?, bytes_of(&f[2])?));
    }
    let mpr = if a[2].as_atom() == Some("none") {
        None
    } else {
        let m = a[2].tagged("mpr")?;
        if m.len() < 3 {
            return None;
        }
        Some((m[0].as_u64()?, m[1].as_u64()?, m[2].as_bytes()?, m[3..].iter().map(pfx_of).collect::<Option<Vec<_>>>()?))
    };
    let mpu = if a[3].as_atom() == Some("none") {
        None
    } else {
        let m = a[3].tagged("mpu")?;
        if m.len() < 2 {
            return None;
        }
        Some((m[0].as_u64()?, m[1].as_u64()?, m[2..].iter().map(pfx_of).collect::<Option<Vec<_>>>()?))
    };
    let nlri = pfxs_named(&a[4], "nlri")?;
    Some(Upd { wd, attrs, mpr, mpu, nlri })
}
fn corr_of(t: &Term) -> Option<Corr> {
    let l = t.as_list()?;
    let a = &l[1..];
    match (t.head()?, a.len()) {
        ("flags", 2) => Some(Corr::Flags(a[0].as_u64()? as usize, a[1].as_u64()?)),
        ("data", 2) => Some(Corr::Data(a[0].as_u64()? as usize, bytes_of(&a[1])?)),
        ("lenfield", 2) => Some(Corr::LenField(a[0].as_u64()? as usize, a[1].as_u64()?)),
        ("dup", 2) => Some(Corr::Dup(a[0].as_u64()? as usize, bytes_of(&a[1])?)),
        ("omit", 1) => Some(Corr::Omit(a[0].as_u64()? as usize)),
        ("trunc", 1) => Some(Corr::Trunc(a[0].as_u64()?)),
        ("unknown", 3) => Some(Corr::Unknown(a[0].as_u64()?, a[1].as_u64()?, bytes_of(&a[2])?)),
        ("nlribad", 1) => Some(Corr::NlriBad(a[0].as_u64()?)),
        _ => None,
    }
}

fn renderable(u: &Upd, cs: &[Corr]) -> bool {
    let p_ok = |p: &Pfx| p.id < 4294967296 && p.mask < 256 && p.addr.len() <= 16;
    u.wd.iter().all(p_ok)
        && u.nlri.iter().all(p_ok)
        && u.attrs.iter().all(|a| a.0 < 256 && a.1 < 256 && a.2.len() <= 4000)
        && u.mpr.as_ref().is_none_or(|m| m.0 < 65536 && m.1 < 256 && m.2.len() < 256 && m.3.iter().all(p_ok))
        && u.mpu.as_ref().is_none_or(|m| m.0 < 65536 && m.1 < 256 && m.2.iter().all(p_ok))
        && cs.iter().all(|c| match c {
            Corr::Flags(_, f) => *f < 256,
            Corr::Data(_, d) => d.len() <= 4000,
            Corr::LenField(_, l) => *l < 65536,
            Corr::Dup(_, d) => d.len() <= 4000,
            Corr::Omit(_) => true,
            Corr::Trunc(k) => *k < 65536,
            Corr::Unknown(f, c, d) => *f < 256 && *c < 256 && d.len() <= 4000,
            Corr::NlriBad(m) => *m < 256,
        })
        && u.attrs.len() <= 64
        && u.wd.len() <= 64
        && u.nlri.len() <= 64
        && cs.len() <= 16
        && u.mpr.as_ref().is_none_or(|m| m.3.len() <= 64)
        && u.mpu.as_ref().is_none_or(|m| m.2.len() <= 64)
}

fn be16(n: usize) -> [u8; 2] {
    [(n / 256 % 256) as u8, (n % 256) as u8]
}

fn pfxs_bytes(addpath: bool, l: &[Pfx]) -> Vec<u8> {
    let mut v = Vec::new();
    for p in l {
        if addpath {
            v.extend_from_slice(&(p.id as u32).to_be_bytes());
        }
        v.push(p.mask as u8);
        v.extend_from_slice(&p.addr);
    }
    v
}

fn attr_hdr(flags: u64, code: u64, len: usize) -> Vec<u8> {
    if flags & 0x10 != 0 {
        let l = be16(len);
        vec![flags as u8, code as u8, l[0], l[1]]
    } else {
        vec![flags as u8, code as u8, (len % 256) as u8]
    }
}

fn render(desc: &CodecDesc, u: &Upd, cs: &[Corr]) -> Vec<u8> {
    let ap = |afi: u64, safi: u64| desc.fams.iter().find(|f| f.0 as u64 == afi && f.1 as u64 == safi).map(|f| f.2).unwrap_or(false);
    let mut attrs: Vec<RAttr> = u
        .attrs
        .iter()
        .map(|a| RAttr { flags: a.0, code: a.1, data: a.2.clone(), len_override: None, present: true, dup: None })
        .collect();
    if let Some((afi, safi, nh, nl)) = &u.mpr {
        let mut d = be16(*afi as usize).to_vec();
        d.push(*safi as u8);
        d.push(nh.len() as u8);
        d.extend_from_slice(nh);
        d.push(0);
        d.extend(pfxs_bytes(ap(*afi, *safi), nl));
        attrs.push(RAttr { flags: if d.len() > 255 { 0x90 } else { 0x80 }, code: 14, data: d, len_override: None, present: true, dup: None });
    }
    if let Some((afi, safi, nl)) = &u.mpu {
        let mut d = be16(*afi as usize).to_vec();
        d.push(*safi as u8);
        d.extend(pfxs_bytes(ap(*afi, *safi), nl));
        attrs.push(RAttr { flags: if d.len() > 255 { 0x90 } else { 0x80 }, code: 15, data: d, len_override: None, present: true, dup: None });
    }
    let mut trunc = 0usize;
    let mut nlribad: Option<u64> = None;
    // positional corruptions address the attributes of `u` only (never an appended one)
    let nbase = attrs.len();
    let in_base = |i: &usize| if *i < nbase { *i } else { usize::MAX };
    for c in cs {
        match c {
            Corr::Flags(i, f) => {
                if let Some(a) = attrs.get_mut(in_base(i)) {
                    a.flags = *f
                }
            }
            Corr::Data(i, d) => {
                if let Some(a) = attrs.get_mut(in_base(i)) {
                    a.data = d.clone()
                }
            }
            Corr::LenField(i, l) => {
                if let Some(a) = attrs.get_mut(in_base(i)) {
                    a.len_override = Some(*l)
                }
            }
            Corr::Dup(i, d) => {
                if let Some(a) = attrs.get_mut(in_base(i)) {
                    a.dup = Some(d.clone())
                }
            }
            Corr::Omit(i) => {
                if let Some(a) = attrs.get_mut(in_base(i)) {
                    a.present = false
                }
            }
            Corr::Unknown(f, c, d) => {
                attrs.push(RAttr { flags: *f, code: *c, data: d.clone(), len_override: None, present: true, dup: None })
            }
            Corr::Trunc(k) => trunc += *k as usize,
            Corr::NlriBad(m) => nlribad = Some(*m),
        }
    }
    let mut block = Vec::new();
    for a in &attrs {
        if !a.present {
            continue;
        }
        block.extend(attr_hdr(a.flags, a.code, a.len_override.map(|l| l as usize).unwrap_or(a.data.len())));
        block.extend_from_slice(&a.data);
        if let Some(d) = &a.dup {
            block.extend(attr_hdr(a.flags, a.code, d.len()));
            block.extend_from_slice(d);
        }
    }
    let keep = block.len().saturating_sub(trunc);
    block.truncate(keep);
    let ap4 = ap(1, 1);
    let wd = pfxs_bytes(ap4, &u.wd);
    let mut nlri = pfxs_bytes(ap4, &u.nlri);
    if let Some(m) = nlribad {
        if !nlri.is_empty() {
            if ap4 {
                // take 4 ++ [m] ++ drop 5
                let mut v: Vec<u8> = nlri.iter().take(4).cloned().collect();
                v.push(m as u8);
                v.extend(nlri.iter().skip(5).cloned());
                nlri = v;
            } else {
                nlri[0] = m as u8;
            }
        }
    }
    let total = 23 + wd.len() + block.len() + nlri.len();
    let mut v = vec![0xffu8; 16];
    v.extend_from_slice(&be16(total));
    v.push(2);
    v.extend_from_slice(&be16(wd.len()));
    v.extend_from_slice(&wd);
    v.extend_from_slice(&be16(block.len()));
    v.extend_from_slice(&block);
    v.extend_from_slice(&nlri);
    v
}

fn run_case(line: &str) -> String {
    let bad = "(bad-case)".to_string();
    let Some(t) = Term::parse(line) else { return bad };
    let Some(a) = t.tagged("c05") else { return bad };
    if a.len() != 4 {
        return bad;
    }
    let Some(desc) = CodecDesc::parse(&a[0]) else { return bad };
    let Some(ebgp) = a[1].as_bool() else { return bad };
    let Some(u) = upd_of(&a[2]) else { return bad };
    let Some(cl) = a[3].tagged("corr") else { return bad };
    let Some(cs) = cl.iter().map(corr_of).collect::<Option<Vec<_>>>() else { return bad };
    if !desc.distinct() || !desc.all_modelled() || !renderable(&u, &cs) {
        return bad;
    }
    let bytes = render(&desc, &u, &cs);
    let mut codec = desc.build();
    let mut buf = BytesMut::from(&bytes[..]);
    let res = match try_parse_step(&mut codec, &mut buf) {
        Step::Panic => Term::list(vec![Term::atom("panic")]),
        Step::More { .. } => Term::list(vec![Term::atom("more")]),
        Step::Err { n, .. } => Term::tag("reset", notif_t(&n)),
        Step::Msg { msg, .. } => {
            let r = catch_unwind(AssertUnwindSafe(|| validate_message(msg, ebgp).map(|it| it.collect::<Vec<_>>())));
            match r {
                Err(_) => Term::list(vec![Term::atom("panic")]),
                Ok(Err(n)) => Term::tag("reset", notif_t(&n)),
                Ok(Ok(msgs)) => Term::tag(
                    "ok",
                    msgs.iter()
                        .map(|m| match message_t(m) {
                            t @ Term::List(_) if matches!(t.head(), Some("reach") | Some("unreach") | Some("eor")) => t,
                            _ => Term::atom("other"),
                        })
                        .collect(),
                ),
            }
        }
    };
    Term::tag("obs", vec![Term::bytes(&bytes), res]).to_string()
}

/// wrap a packet-level case into an end-to-end case
fn e2e_of(r: &mut verif_pt::sexp::Rng, line: &str) -> Option<String> {
    let t = Term::parse(line)?;
    let a = t.tagged("c05")?;
    let desc = CodecDesc::parse(&a[0])?;
    let ebgp = a[1].as_bool()?;
    let u = upd_of(&a[2])?;
    let cs = a[3].tagged("corr")?.iter().map(corr_of).collect::<Option<Vec<_>>>()?;
    if !desc.distinct() || !renderable(&u, &cs) {
        return None;
    }
    let bytes = render(&desc, &u, &cs);
    let max = if desc.ext { 65535 } else { 4096 };
    if bytes.len() > max {
        return None;
    }
    let kind = if ebgp { "ebgp" } else if r.chance(1, 2) { "ibgp" } else { "confed" };
    let pre = r.chance(1, 2);
    Some(format!("(e2e {} {} {} {})", kind, if pre { "t" } else { "f" }, line, hex_t(&bytes)))
}

/// deterministic end-to-end cases: one valid UPDATE with every attribute type of the generator; each attribute with
/// each Optional/Transitive flag conflict, a value one byte too long, omitted; NEXT_HOP omitted together with a malformed
/// optional non-transitive attribute; the same with a second family announced in MP_REACH; for three peer kinds
fn e2e_systematic() -> Vec<String> {
    let attrs: Vec<(u8, u8, Vec<u8>)> = vec![
        (0x40, 1, vec![0]),
        (0x40, 2, vec![2, 1, 0, 0, 0xfd, 0xe9]),
        (0x40, 3, vec![10, 0, 0, 1]),
        (0x80, 4, vec![0, 0, 0, 5]),
        (0x40, 5, vec![0, 0, 0, 200]),
        (0xc0, 7, vec![0, 0, 0xfd, 0xe9, 10, 0, 0, 9]),
        (0xc0, 8, vec![0xff, 0xff, 0xff, 0x01]),
        (0x80, 9, vec![10, 0, 0, 7]),
        (0x80, 10, vec![10, 0, 0, 8]),
        (0xc0, 16, vec![0, 2, 0xfd, 0xe8, 0, 0, 0, 100]),
        (0x80, 26, vec![1, 0, 11, 0, 0, 0, 0, 0, 0, 0, 100]),
        (0xc0, 32, vec![0, 0, 0xfd, 0xe8, 0, 0, 0, 1, 0, 0, 0, 2]),
    ];
    let attrs_t: Vec<String> = attrs.iter().map(|a| format!("(a {} {} {})", a.0, a.1, Term::bytes(&a.2))).collect();
    let mut corrs: Vec<String> = Vec::new();
    for (i, a) in attrs.iter().enumerate() {
        for f in [a.0 ^ 0x80, a.0 ^ 0x40, a.0 ^ 0xc0, a.0 | 0x20] {
            corrs.push(format!("(flags {} {})", i, f));
        }
        corrs.push(format!("(omit {})", i));
        let mut d = a.2.clone();
        d.push(0);
        corrs.push(format!("(data {} {})", i, Term::bytes(&d)));
        let mut d2 = a.2.clone();
        if let Some(x) = d2.last_mut() {
            *x ^= 1;
        }
        corrs.push(format!("(dup {} {})", i, Term::bytes(&d2)));
    }
    for i in [3usize, 7, 8, 10] {
        let mut d = attrs[i].2.clone();
        d.pop();
        corrs.push(format!("(omit 2) (data {} {})", i, Term::bytes(&d)));
    }
    corrs.push("(trunc 2)".into());
    corrs.push("(unknown 64 99 x01)".into());
    corrs.push("(unknown 128 99 x01)".into());
    let mut out = Vec::new();
    for (kind, ebgp, pre) in [("ebgp", "t", "t"), ("ibgp", "f", "f"), ("confed", "f", "t")] {
        for (v6, codec, mpr, nlri) in [
            (false, "(codec f f (fams (1 1 f)))", "none", "(nlri (0 24 xc0a801) (0 16 x0a02))"),
            (true, "(codec f f (fams (1 1 f) (2 1 f)))", "(mpr 2 1 x20010db8000000000000000000000001 (0 32 x20010db8))", "(nlri (0 24 xc0a801))"),
        ] {
            for (n, cr) in corrs.iter().enumerate() {
                // the two-family variant only for every third corruption
                if v6 && n % 3 != 0 {
                    continue;
                }
                let inner = format!(
                    "(c05 {} {} (upd (wd (0 24 x0a0909)) (attrs {}) {} none {}) (corr {}))",
                    codec,
                    ebgp,
                    attrs_t.join(" "),
                    mpr,
                    nlri,
                    cr
                );
                if let Some(l) = e2e_fixed(kind, pre, &inner) {
                    out.push(l);
                }
            }
        }
    }
    out
}

fn e2e_fixed(kind: &str, pre: &str, line: &str) -> Option<String> {
    let t = Term::parse(line)?;
    let a = t.tagged("c05")?;
    let desc = CodecDesc::parse(&a[0])?;
    let u = upd_of(&a[2])?;
    let cs = a[3].tagged("corr")?.iter().map(corr_of).collect::<Option<Vec<_>>>()?;
    if !renderable(&u, &cs) {
        return None;
    }
    let bytes = render(&desc, &u, &cs);
    Some(format!("(e2e {} {} {} {})", kind, pre, line, hex_t(&bytes)))
}

fn hex_t(b: &[u8]) -> String {
    bytes_split_t(b).to_string()
}

fn main() {
    let a: Vec<String> = std::env::args().collect();
    silence_panics();
    match a.get(1).map(|s| s.as_str()) {
        Some("run") if a.len() == 4 => run_lines(&a[2], &a[3], |l| run_case(l)),
        Some("gen") if a.len() == 5 => {
            let seed: u64 = a[2].parse().expect("seed");
            let n: usize = a[3].parse().expect("n");
            for l in wiregen::gen_c05(seed, n, &a[4]) {
                println!("{}", l);
            }
            // end-to-end stream (routed to the daemon harness by CONFIG["harnesses"]): the same kind of case with the
            // peer kind, whether the announced prefixes are installed beforehand, and the rendered frame
            for l in e2e_systematic() {
                println!("{}", l);
            }
            let n_e2e = if a[4] == "thorough" { 4000 } else { 160 };
            let mut r = verif_pt::sexp::Rng(seed.wrapping_mul(0x9E3779B97F4A7C15) ^ 0xE2E05);
            let mut made = 0;
            let mut tries = 0;
            while made < n_e2e && tries < n_e2e * 20 {
                tries += 1;
                let line = wiregen::gen_c05_case(&mut r);
                if let Some(l) = e2e_of(&mut r, &line) {
                    println!("{}", l);
                    made += 1;
                }
            }
        }
        _ => {
            eprintln!("usage: c05 run <in> <out> | c05 gen <seed> <n> <tier>");
            std::process::exit(2);
        }
    }
}
