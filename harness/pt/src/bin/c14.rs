// C14 harness: runs the REAL rustybgp-table policy engine on one case per line.
//
//   c14 run <in> <out>      case line -> observation line
//   c14 decode <attr-term>  (debug) show what the wire decoder makes of an attribute list
//
// Case    (case (probes ROUTE*) (ops OP*))
// Obs     (obs STEP*)   STEP = (step RES DUMP IMP EXP) | (step panic)
//
// Routes get their attribute vector from the real wire decoder (PeerCodec::try_parse +
// validate_message on an UPDATE built from the declared attributes), so every probed value is a
// value the decoder can produce.  The declared list must equal the decoded one, else (bad-case).
use std::net::{IpAddr, Ipv4Addr};
use verif_pt::sexp;
use verif_pt::sexp::{Term, run_lines};

#[path = "/verif/harness/common/c14_table.rs"]
mod tbl;
use tbl::*;

fn run_case(line: &str) -> String {
    match Term::parse(line) {
        Some(t) => run_table_case(&t),
        None => "(bad-case)".to_string(),
    }
}

fn main() {
    std::panic::set_hook(Box::new(|_| {}));
    let args: Vec<String> = std::env::args().collect();
    match args.get(1).map(|s| s.as_str()) {
        Some("run") if args.len() == 4 => run_lines(&args[2], &args[3], |l| run_case(l)),
        Some("decode") if args.len() == 3 => {
            let t = Term::parse(&args[2]).expect("term");
            let al: Vec<AAttr> = t.as_list().unwrap().iter().map(|x| aattr_of(x).expect("attr")).collect();
            match decode_route(&al, &IpAddr::V4(Ipv4Addr::new(10, 0, 0, 0)), 8) {
                None => println!("undecodable"),
                Some(v) => println!("{}", Term::list(abstract_attrs(&v).iter().map(aattr_t).collect())),
            }
        }
        _ => {
            eprintln!("usage: c14 run <in> <out>");
            std::process::exit(2)
        }
    }
}
