// C12 harness: runs the REAL table::RpkiTable (validate / insert / remove / drop_source / iter)
// on each case line and prints one canonical observation line.
//
//   case ::= (case LOCALASN (ops OP*))
//   OP   ::= (ins C A NET ML ASN) | (rem C A NET ML ASN) | (drop C A)
//          | (reset C A ((NET ML ASN)*))          -- table_manager::rpki_reset = drop_source + inserts
//          | (val NET PATH) | (iter F)
//   NET  ::= (4 x<8 hex> LEN) | (6 x<32 hex> LEN)
//   PATH ::= nopath | (path (T ASN*)*)            -- AS_PATH segments, T = segment type byte
//   C = cache address index (192.0.2.C), A = which Arc<IpAddr> instance of that address
//
//   obs  ::= (obs O*)        one O per val / iter op, in order
//   O    ::= none | (v STATE REASON (m E*) (ua E*) (ul E*)) | (it E*)
//   E    ::= (NET C A ML ASN)
use std::collections::HashMap;
use std::net::{IpAddr, Ipv4Addr, Ipv6Addr};
use std::sync::Arc;

use rustybgp_packet as packet;
use rustybgp_table as table;
use verif_pt::sexp::{run_lines, Term};

struct Ctx {
    arcs: HashMap<(u64, u64), Arc<IpAddr>>,
}

impl Ctx {
    fn arc(&mut self, c: u64, a: u64) -> Arc<IpAddr> {
        self.arcs
            .entry((c, a))
            .or_insert_with(|| Arc::new(IpAddr::V4(Ipv4Addr::new(192, 0, 2, c as u8))))
            .clone()
    }
    fn ident(&self, s: &Arc<IpAddr>) -> (u64, u64) {
        let mut hits: Vec<(u64, u64)> = self
            .arcs
            .iter()
            .filter(|(_, v)| Arc::ptr_eq(v, s))
            .map(|(k, _)| *k)
            .collect();
        hits.sort();
        hits.first().copied().unwrap_or((999, 999))
    }
}

fn net_of(t: &Term) -> Option<packet::IpNet> {
    let l = t.as_list()?;
    if l.len() != 3 {
        return None;
    }
    let fam = l[0].as_u64()?;
    let b = l[1].as_bytes()?;
    let len = l[2].as_u64()?;
    if len > 255 {
        return None;
    }
    match fam {
        4 if b.len() == 4 => {
            let mut o = [0u8; 4];
            o.copy_from_slice(&b);
            Some(packet::IpNet::new(IpAddr::V4(Ipv4Addr::from(o)), len as u8))
        }
        6 if b.len() == 16 => {
            let mut o = [0u8; 16];
            o.copy_from_slice(&b);
            Some(packet::IpNet::new(IpAddr::V6(Ipv6Addr::from(o)), len as u8))
        }
        _ => None,
    }
}

fn net_term(n: &packet::IpNet) -> Term {
    match n {
        packet::IpNet::V4(n) => Term::list(vec![Term::nat(4u8), Term::bytes(&n.addr.octets()), Term::nat(n.mask)]),
        packet::IpNet::V6(n) => Term::list(vec![Term::nat(6u8), Term::bytes(&n.addr.octets()), Term::nat(n.mask)]),
    }
}

fn nlri_of(n: &packet::IpNet) -> packet::Nlri {
    match n {
        packet::IpNet::V4(n) => packet::Nlri::V4(*n),
        packet::IpNet::V6(n) => packet::Nlri::V6(*n),
    }
}

fn vrp_of(t: &[Term]) -> Option<(packet::IpNet, u8, u32)> {
    if t.len() != 3 {
        return None;
    }
    let net = net_of(&t[0])?;
    let ml = t[1].as_u64()?;
    let asn = t[2].as_u64()?;
    if ml > 255 || asn > u32::MAX as u64 {
        return None;
    }
    Some((net, ml as u8, asn as u32))
}

enum Op {
    Ins(u64, u64, packet::IpNet, u8, u32),
    Rem(u64, u64, packet::IpNet, u8, u32),
    Drop(u64, u64),
    Reset(u64, u64, Vec<(packet::IpNet, u8, u32)>),
    Val(packet::IpNet, Option<Vec<u8>>),
    Iter(u64),
}

fn path_of(t: &Term) -> Option<Option<Vec<u8>>> {
    if t.as_atom() == Some("nopath") {
        return Some(None);
    }
    let segs = t.tagged("path")?;
    let mut out = Vec::new();
    for s in segs {
        let l = s.as_list()?;
        let ty = l.first()?.as_u64()?;
        if ty > 255 || l.len() - 1 > 255 {
            return None;
        }
        out.push(ty as u8);
        out.push((l.len() - 1) as u8);
        for a in &l[1..] {
            let a = a.as_u64()?;
            if a > u32::MAX as u64 {
                return None;
            }
            out.extend_from_slice(&(a as u32).to_be_bytes());
        }
    }
    Some(Some(out))
}

fn cid(t: &Term) -> Option<u64> {
    let v = t.as_u64()?;
    if v > 250 { None } else { Some(v) }
}

fn op_of(t: &Term) -> Option<Op> {
    let l = t.as_list()?;
    let h = l.first()?.as_atom()?;
    let a = &l[1..];
    match h {
        "ins" | "rem" if a.len() == 5 => {
            let (net, ml, asn) = vrp_of(&a[2..5])?;
            let (c, k) = (cid(&a[0])?, cid(&a[1])?);
            Some(if h == "ins" { Op::Ins(c, k, net, ml, asn) } else { Op::Rem(c, k, net, ml, asn) })
        }
        "drop" if a.len() == 2 => Some(Op::Drop(cid(&a[0])?, cid(&a[1])?)),
        "reset" if a.len() == 3 => {
            let mut v = Vec::new();
            for e in a[2].as_list()? {
                v.push(vrp_of(e.as_list()?)?);
            }
            Some(Op::Reset(cid(&a[0])?, cid(&a[1])?, v))
        }
        "val" if a.len() == 2 => Some(Op::Val(net_of(&a[0])?, path_of(&a[1])?)),
        "iter" if a.len() == 1 => {
            let f = a[0].as_u64()?;
            if f == 4 || f == 6 { Some(Op::Iter(f)) } else { None }
        }
        _ => None,
    }
}

fn entry(ctx: &Ctx, n: &packet::IpNet, r: &table::Roa) -> Term {
    let (c, a) = ctx.ident(&r.source);
    Term::list(vec![net_term(n), Term::nat(c), Term::nat(a), Term::nat(r.max_length), Term::nat(r.as_number)])
}

fn run_case(line: &str) -> String {
    let t = match Term::parse(line) {
        Some(t) => t,
        None => return "(bad-case)".into(),
    };
    let a = match t.tagged("case") {
        Some(a) if a.len() == 2 => a,
        _ => return "(bad-case)".into(),
    };
    let local_asn = match a[0].as_u64() {
        Some(v) if v <= u32::MAX as u64 => v as u32,
        _ => return "(bad-case)".into(),
    };
    let ops_t = match a[1].tagged("ops") {
        Some(o) => o,
        None => return "(bad-case)".into(),
    };
    let mut ops = Vec::new();
    for o in ops_t {
        match op_of(o) {
            Some(o) => ops.push(o),
            None => return "(bad-case)".into(),
        }
    }
    let source = Arc::new(table::Source::new(
        IpAddr::V4(Ipv4Addr::new(10, 0, 0, 1)),
        IpAddr::V4(Ipv4Addr::new(10, 0, 0, 254)),
        65000,
        local_asn,
        Ipv4Addr::new(1, 1, 1, 1),
        table::PeerRole::Ebgp,
    ));
    let mut ctx = Ctx { arcs: HashMap::new() };
    let mut tbl = table::RpkiTable::new();
    let mut obs = vec![Term::atom("obs")];
    for op in ops {
        match op {
            Op::Ins(c, k, net, ml, asn) => {
                let s = ctx.arc(c, k);
                tbl.insert(net, Arc::new(table::Roa::new(ml, asn, s)));
            }
            Op::Rem(c, k, net, ml, asn) => {
                let s = ctx.arc(c, k);
                tbl.remove(net, &table::Roa::new(ml, asn, s));
            }
            Op::Drop(c, k) => {
                let s = ctx.arc(c, k);
                tbl.drop_source(s);
            }
            Op::Reset(c, k, v) => {
                // transcription of TableManager::rpki_reset
                let s = ctx.arc(c, k);
                tbl.drop_source(s.clone());
                for (net, ml, asn) in v {
                    tbl.insert(net, Arc::new(table::Roa::new(ml, asn, s.clone())));
                }
            }
            Op::Val(net, path) => {
                let mut attrs = vec![packet::Attribute::new_with_value(packet::Attribute::ORIGIN, 0).unwrap()];
                if let Some(p) = path {
                    attrs.push(packet::Attribute::new_with_bin(packet::Attribute::AS_PATH, p).unwrap());
                }
                let attrs = Arc::new(attrs);
                match tbl.validate(&source, &nlri_of(&net), &attrs) {
                    None => obs.push(Term::atom("none")),
                    Some(v) => {
                        let st = match v.state {
                            table::RpkiValidationState::Valid => "valid",
                            table::RpkiValidationState::Invalid => "invalid",
                            table::RpkiValidationState::NotFound => "notfound",
                        };
                        let rs = match v.reason {
                            table::RpkiValidationReason::None => "none",
                            table::RpkiValidationReason::Asn => "asn",
                            table::RpkiValidationReason::Length => "length",
                        };
                        let f = |tag: &str, l: &Vec<(packet::IpNet, table::Roa)>| {
                            Term::tag(tag, l.iter().map(|(n, r)| entry(&ctx, n, r)).collect())
                        };
                        obs.push(Term::tag(
                            "v",
                            vec![
                                Term::atom(st),
                                Term::atom(rs),
                                f("m", &v.matched),
                                f("ua", &v.unmatched_asn),
                                f("ul", &v.unmatched_length),
                            ],
                        ));
                    }
                }
            }
            Op::Iter(f) => {
                let fam = if f == 4 { packet::Family::IPV4 } else { packet::Family::IPV6 };
                obs.push(Term::tag("it", tbl.iter(fam).map(|(n, r)| entry(&ctx, &n, r)).collect()));
            }
        }
    }
    Term::list(obs).to_string()
}

fn main() {
    let args: Vec<String> = std::env::args().collect();
    if args.len() == 4 && args[1] == "run" {
        std::panic::set_hook(Box::new(|_| {}));
        run_lines(&args[2], &args[3], |line| {
            match std::panic::catch_unwind(|| run_case(line)) {
                Ok(s) => s,
                Err(_) => "(panic)".into(),
            }
        });
    } else {
        eprintln!("usage: c12 run <in> <out>");
        std::process::exit(2);
    }
}
