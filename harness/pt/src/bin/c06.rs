// c06 harness binary: the shared Rib harness (C02 / C06 / C15 use one case and observation format).
#[path = "../rib.rs"]
mod rib;
fn main() {
    rib::main_with("c06")
}
