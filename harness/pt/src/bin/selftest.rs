use verif_pt::sexp::Term;
fn main() {
    let t = Term::parse("(a (b 1 x0aff) ())").unwrap();
    println!("{}", t);
}
