// C19 packet-level harness: runs the REAL BmpCodec / MrtCodec / encode_table_dump on case lines.
//
//   c19 run <in> <out>          one observation line per case line
//   c19 gen <seed> <n> <tier>   prints case lines (generation needs the real BGP encoder/decoder:
//                               the embedded BGP bytes and their parse-back are *inputs* of the Lean model/spec)
//   c19 mk                      stdin: cases whose EMB fields are `?` and whose tbl is empty -> completed cases
//
// Case:  (case (tbl (f AP xFRAME C)...) (recs REC...))
//   C = content the repository's own decoder (parse_message + validate_message) gives for FRAME with
//       add-path AP;  content terms:
//     (open ASN HOLD RID (caps CAP...)) | (reach FAM ((PID xNLRI)...) NH (ATTR...)) | (unreach FAM ((PID xNLRI)...))
//     | (eor FAM) | (notif CODE SUB xDATA) | keepalive | (rr FAM) | err | (multi C...)
//     NH = none | xBYTES ; ATTR = (CODE FLAGS val N) | (CODE FLAGS bin xDATA) | (CODE FLAGS opq xDATA)
//   REC:
//     (bmp-rm HDR AP EMB MON) | (bmp-up HDR IP LPORT RPORT EMB MONL MONR) | (bmp-down HDR REASON)
//     | (bmp-init (TYPE xVAL)...) | bmp-stats | bmp-term | bmp-mirror
//     | (mrt-mp (mph RASN LASN IFIDX IP IP ASN4) AP EMB MON)
//     | (td-peers TS xRID (peer xBGPID IP ASN)...) | (td-rib V6 TS SEQ (pfx MASK xADDR) (ent PIDX ORIG NH (ATTR...))...)
//     HDR = (hdr PTYPE FLAGS DIST IP ASN xBGPID TS) ; IP = (v4 x........) | (v6 x32hex) ; EMB = xBYTES | panic
//     REASON = (local-notif EMB MON) | (local-fsm N) | (remote-notif EMB MON) | remote-unexpected | deconfigured
//   EMB is what a stand-alone PeerCodec::new() (+ set_family(addpath_tx)) produces for MON; `run` re-computes it and the
//   tbl entries and answers (bad-case) when the case line disagrees (the shrinker produces such lines).
// Observation: (out xBYTES (tags (..)...)) | (panic) | (bad-case).  MRT BGP4MP timestamps (SystemTime::now) are zeroed.
use std::panic::{AssertUnwindSafe, catch_unwind};
use verif_pt::sexp;
use verif_pt::sexp::{Rng, Term, run_lines};
#[path = "/verif/harness/common/c19_core.rs"]
mod c19core;
use crate::c19core::*;

fn main() {
    std::panic::set_hook(Box::new(|_| {}));
    let args: Vec<String> = std::env::args().collect();
    match args.get(1).map(|s| s.as_str()) {
        Some("run") if args.len() == 4 => {
            run_lines(&args[2], &args[3], |l| catch_unwind(AssertUnwindSafe(|| run_case(l))).unwrap_or_else(|_| "(panic)".into()));
        }
        Some("gen") if args.len() == 5 => {
            let seed: u64 = args[2].parse().unwrap();
            let n: usize = args[3].parse().unwrap();
            let mut r = Rng(seed.wrapping_mul(1000003).wrapping_add(19));
            let mut i = 0;
            while i < n {
                let recs = g_case(&mut r, &args[4]);
                if let Some((c, _)) = complete(&recs) {
                    println!("{}", c);
                    i += 1;
                }
            }
        }
        Some("mk") => {
            use std::io::BufRead;
            for line in std::io::stdin().lock().lines() {
                let line = line.unwrap();
                if line.trim().is_empty() || line.starts_with(';') {
                    println!("{}", line);
                    continue;
                }
                let t = Term::parse(&line).expect("term");
                let a = t.tagged("case").expect("case");
                let recs = a.last().unwrap().tagged("recs").expect("recs");
                match complete(recs) {
                    Some((c, _)) => println!("{}", c),
                    None => println!("; cannot build: {}", line),
                }
            }
        }
        _ => {
            eprintln!("usage: c19 run <in> <out> | gen <seed> <n> <tier> | mk");
            std::process::exit(2);
        }
    }
}
