// Line protocol shared with the Lean driver (lean/Rbgp/Term.lean):
//   Term ::= atom | (Term*)      bytes = atom "x<hex>"
// Included with #[path] by every harness (pt crate and daemon hook modules).
#![allow(dead_code)]

#[derive(Clone, Debug, PartialEq, Eq)]
pub enum Term {
    Atom(String),
    List(Vec<Term>),
}

impl Term {
    pub fn parse(s: &str) -> Option<Term> {
        let mut stack: Vec<Vec<Term>> = Vec::new();
        let mut cur = String::new();
        let mut done: Option<Term> = None;
        fn flush(cur: &mut String, stack: &mut Vec<Vec<Term>>, done: &mut Option<Term>) -> bool {
            if cur.is_empty() {
                return true;
            }
            let t = Term::Atom(std::mem::take(cur));
            match stack.last_mut() {
                Some(top) => top.push(t),
                None => {
                    if done.is_some() {
                        return false;
                    }
                    *done = Some(t)
                }
            }
            true
        }
        for c in s.chars() {
            match c {
                '(' => {
                    if !flush(&mut cur, &mut stack, &mut done) || done.is_some() {
                        return None;
                    }
                    stack.push(Vec::new());
                }
                ')' => {
                    if !flush(&mut cur, &mut stack, &mut done) {
                        return None;
                    }
                    let l = stack.pop()?;
                    let t = Term::List(l);
                    match stack.last_mut() {
                        Some(top) => top.push(t),
                        None => {
                            if done.is_some() {
                                return None;
                            }
                            done = Some(t)
                        }
                    }
                }
                ' ' | '\t' | '\n' | '\r' => {
                    if !flush(&mut cur, &mut stack, &mut done) {
                        return None;
                    }
                }
                c => {
                    if done.is_some() && stack.is_empty() {
                        return None;
                    }
                    cur.push(c)
                }
            }
        }
        if !flush(&mut cur, &mut stack, &mut done) || !stack.is_empty() {
            return None;
        }
        done
    }

    pub fn atom<S: Into<String>>(s: S) -> Term {
        Term::Atom(s.into())
    }
    pub fn nat<N: Into<u128>>(n: N) -> Term {
        Term::Atom(format!("{}", n.into()))
    }
    pub fn boolean(b: bool) -> Term {
        Term::Atom(if b { "t" } else { "f" }.to_string())
    }
    pub fn list(v: Vec<Term>) -> Term {
        Term::List(v)
    }
    pub fn tag(name: &str, mut args: Vec<Term>) -> Term {
        let mut v = vec![Term::atom(name)];
        v.append(&mut args);
        Term::List(v)
    }
    pub fn opt(o: Option<Term>) -> Term {
        match o {
            None => Term::atom("none"),
            Some(t) => Term::List(vec![Term::atom("some"), t]),
        }
    }
    pub fn bytes(b: &[u8]) -> Term {
        let mut s = String::with_capacity(1 + b.len() * 2);
        s.push('x');
        for x in b {
            s.push_str(&format!("{:02x}", x));
        }
        Term::Atom(s)
    }

    pub fn as_atom(&self) -> Option<&str> {
        match self {
            Term::Atom(s) => Some(s),
            _ => None,
        }
    }
    pub fn as_list(&self) -> Option<&[Term]> {
        match self {
            Term::List(l) => Some(l),
            _ => None,
        }
    }
    pub fn as_u64(&self) -> Option<u64> {
        self.as_atom()?.parse().ok()
    }
    pub fn as_bool(&self) -> Option<bool> {
        match self.as_atom()? {
            "t" => Some(true),
            "f" => Some(false),
            _ => None,
        }
    }
    pub fn as_bytes(&self) -> Option<Vec<u8>> {
        let s = self.as_atom()?;
        let s = s.strip_prefix('x')?;
        if s.len() % 2 != 0 {
            return None;
        }
        (0..s.len() / 2)
            .map(|i| u8::from_str_radix(&s[2 * i..2 * i + 2], 16).ok())
            .collect()
    }
    /// `(name a b c)` -> Some(&[a,b,c]) when the head atom equals `name`.
    pub fn tagged(&self, name: &str) -> Option<&[Term]> {
        let l = self.as_list()?;
        if l.first()?.as_atom()? == name {
            Some(&l[1..])
        } else {
            None
        }
    }
    pub fn head(&self) -> Option<&str> {
        match self {
            Term::Atom(s) => Some(s),
            Term::List(l) => l.first()?.as_atom(),
        }
    }
}

impl std::fmt::Display for Term {
    fn fmt(&self, f: &mut std::fmt::Formatter<'_>) -> std::fmt::Result {
        match self {
            Term::Atom(s) => write!(f, "{}", s),
            Term::List(l) => {
                write!(f, "(")?;
                for (i, t) in l.iter().enumerate() {
                    if i > 0 {
                        write!(f, " ")?;
                    }
                    write!(f, "{}", t)?;
                }
                write!(f, ")")
            }
        }
    }
}

/// Deterministic PRNG (SplitMix64) so a disagreement replays exactly.
pub struct Rng(pub u64);
impl Rng {
    pub fn next(&mut self) -> u64 {
        self.0 = self.0.wrapping_add(0x9E3779B97F4A7C15);
        let mut z = self.0;
        z = (z ^ (z >> 30)).wrapping_mul(0xBF58476D1CE4E5B9);
        z = (z ^ (z >> 27)).wrapping_mul(0x94D049BB133111EB);
        z ^ (z >> 31)
    }
    pub fn below(&mut self, n: u64) -> u64 {
        if n == 0 { 0 } else { self.next() % n }
    }
    pub fn pick<'a, T>(&mut self, v: &'a [T]) -> &'a T {
        &v[self.below(v.len() as u64) as usize]
    }
    pub fn chance(&mut self, num: u64, den: u64) -> bool {
        self.below(den) < num
    }
}

/// Read cases from the file named by env `var_in`, call `f` per line (under
/// catch_unwind by the caller if needed), write one output line per case to `var_out`.
pub fn run_lines<F: FnMut(&str) -> String>(path_in: &str, path_out: &str, mut f: F) {
    use std::io::{BufRead, Write};
    let inp = std::io::BufReader::new(std::fs::File::open(path_in).expect("open input"));
    let mut out = std::io::BufWriter::new(std::fs::File::create(path_out).expect("create output"));
    for line in inp.lines() {
        let line = line.expect("read line");
        if line.is_empty() {
            continue;
        }
        let o = f(&line);
        writeln!(out, "{}", o).unwrap();
    }
    out.flush().unwrap();
}
