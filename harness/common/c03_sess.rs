// C03, session stream: byte-level conventions shared by the generator (pt binary c03), the daemon harness
// (harness/daemon/c03.rs) and mirrored in lean/Rbgp/Wire/Sess.lean.  Pure functions on bytes.
//
// Case:  (sess (codec <ext> <two> (fams (<afi> <safi> <addpath-rx>)*)) est|pre (chunks x.. x..) <eof:t|f>)
//   est: the chunks arrive after a valid OPEN / KEEPALIVE exchange that negotiated exactly the codec
//   pre: the chunks are the first bytes the remote speaker sends (the local side is in OpenSent)
// The remote speaker is an external peer, AS 64888, router id 10.0.0.1, hold time 0.
#![allow(dead_code)]

pub const PEER_ASN: u32 = 64888;
pub const PEER_RID: u32 = 0x0a000001;

/// families a session case may negotiate (both harness and Lean driver reject anything else)
pub fn sess_family(afi: u16, safi: u8) -> bool {
    ((afi == 1 || afi == 2) && (safi == 1 || safi == 2 || safi == 4 || safi == 128)) || (afi == 25 && safi == 70)
}

/// the optional-parameters part of the OPEN that negotiates the codec: parameter length, one capability parameter
/// with MP for every family, 4-octet AS (unless `two`), ADD-PATH "send" for the families with addpath-rx, extended
/// message (if `ext`)
pub fn canon_params(ext: bool, two: bool, fams: &[(u16, u8, bool)]) -> Vec<u8> {
    let mut caps: Vec<u8> = Vec::new();
    for (afi, safi, _) in fams {
        caps.extend_from_slice(&[1, 4]);
        caps.extend_from_slice(&afi.to_be_bytes());
        caps.extend_from_slice(&[0, *safi]);
    }
    if !two {
        caps.extend_from_slice(&[65, 4]);
        caps.extend_from_slice(&PEER_ASN.to_be_bytes());
    }
    let ap: Vec<&(u16, u8, bool)> = fams.iter().filter(|f| f.2).collect();
    if !ap.is_empty() {
        caps.extend_from_slice(&[69, (ap.len() * 4) as u8]);
        for (afi, safi, _) in ap {
            caps.extend_from_slice(&afi.to_be_bytes());
            caps.extend_from_slice(&[*safi, 2]);
        }
    }
    if ext {
        caps.extend_from_slice(&[6, 0]);
    }
    let mut p = vec![(caps.len() + 2) as u8, 2, caps.len() as u8];
    p.extend_from_slice(&caps);
    p
}

pub fn frame(ty: u8, body: &[u8]) -> Vec<u8> {
    let mut f = vec![0xffu8; 16];
    f.extend_from_slice(&((19 + body.len()) as u16).to_be_bytes());
    f.push(ty);
    f.extend_from_slice(body);
    f
}

/// the OPEN of the remote speaker (`my_as` = the 2-octet field)
pub fn open_frame(my_as: u16, hold: u16, rid: u32, params: &[u8]) -> Vec<u8> {
    let mut body: Vec<u8> = vec![4];
    body.extend_from_slice(&my_as.to_be_bytes());
    body.extend_from_slice(&hold.to_be_bytes());
    body.extend_from_slice(&rid.to_be_bytes());
    body.extend_from_slice(params);
    frame(1, &body)
}

pub fn canon_open(ext: bool, two: bool, fams: &[(u16, u8, bool)]) -> Vec<u8> {
    open_frame(PEER_ASN as u16, 0, PEER_RID, &canon_params(ext, two, fams))
}

/// A `pre` case is only judged when a complete OPEN-typed frame at the front of the stream carries exactly the
/// canonical optional parameters (then the codec it negotiates is the codec of the case); other OPENs are the
/// packet-level stream's business.
pub fn pre_admissible(ext: bool, two: bool, fams: &[(u16, u8, bool)], all: &[u8]) -> bool {
    if all.len() < 19 || all[18] != 1 {
        return true;
    }
    let l = ((all[16] as usize) << 8) | all[17] as usize;
    if l < 19 || l > 4096 || l > all.len() {
        return true;
    }
    if l < 29 {
        return true;
    }
    all[28..l] == canon_params(ext, two, fams)[..]
}
