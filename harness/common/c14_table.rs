// C14: everything that drives the REAL rustybgp-table policy engine on a case term — shared by the
// pt harness binary (harness/pt/src/bin/c14.rs) and the daemon harness (harness/daemon/c14.rs),
// which includes this file with #[path] next to a `sexp` module.
#![allow(dead_code, clippy::all)]
use std::net::{IpAddr, Ipv4Addr, Ipv6Addr};
use std::panic::{AssertUnwindSafe, catch_unwind};
use std::sync::Arc;

use rustybgp_packet::{self as packet, Attribute, bgp};
use rustybgp_table::*;
use super::sexp::Term;

// ------------------------------------------------------------------ small term helpers
pub fn addr_of(t: &Term) -> Option<IpAddr> {
    let l = t.as_list()?;
    if l.len() != 2 {
        return None;
    }
    let n: u128 = nat_of(&l[1])?;
    match l[0].as_atom()? {
        "4" => {
            if n > u32::MAX as u128 {
                return None;
            }
            Some(IpAddr::V4(Ipv4Addr::from(n as u32)))
        }
        "6" => Some(IpAddr::V6(Ipv6Addr::from(n))),
        _ => None,
    }
}
pub fn addr_t(a: &IpAddr) -> Term {
    match a {
        IpAddr::V4(a) => Term::list(vec![Term::atom("4"), Term::nat(u32::from(*a))]),
        IpAddr::V6(a) => Term::list(vec![Term::atom("6"), Term::nat(u128::from(*a))]),
    }
}
pub fn opt_addr_of(t: &Term) -> Option<Option<IpAddr>> {
    if t.as_atom() == Some("none") {
        return Some(None);
    }
    let a = t.tagged("some")?;
    if a.len() != 1 {
        return None;
    }
    Some(Some(addr_of(&a[0])?))
}
pub fn nh_of(a: IpAddr) -> bgp::Nexthop {
    match a {
        IpAddr::V4(a) => bgp::Nexthop::V4(a),
        IpAddr::V6(a) => bgp::Nexthop::V6(a),
    }
}
/// a number is digits only, as the Lean codec reads it (`str::parse` would also take a leading `+`)
pub fn nat_of(t: &Term) -> Option<u128> {
    let a = t.as_atom()?;
    if a.is_empty() || !a.bytes().all(|b| b.is_ascii_digit()) {
        return None;
    }
    a.parse().ok()
}
pub fn u32_of(t: &Term) -> Option<u32> {
    let v = nat_of(t)?;
    if v > u32::MAX as u128 { None } else { Some(v as u32) }
}
pub fn u8_of(t: &Term) -> Option<u8> {
    let v = nat_of(t)?;
    if v > 255 { None } else { Some(v as u8) }
}
pub fn i64_of(t: &Term) -> Option<i64> {
    let a = t.as_atom()?;
    let d = a.strip_prefix('-').unwrap_or(a);
    if d.is_empty() || !d.bytes().all(|b| b.is_ascii_digit()) {
        return None;
    }
    a.parse::<i64>().ok()
}
pub fn name_of(t: &Term) -> Option<String> {
    Some(t.as_atom()?.to_string())
}
pub fn names_of(t: &Term) -> Option<Vec<String>> {
    t.as_list()?.iter().map(name_of).collect()
}
pub fn mask_bits_ok(a: &IpAddr, mask: u8) -> bool {
    // no host bits to the right of the mask (the lookup-table crate asserts on them)
    match a {
        IpAddr::V4(a) => mask <= 32 && (mask == 32 || (u32::from(*a) << mask) == 0),
        IpAddr::V6(a) => mask <= 128 && (mask == 128 || (u128::from(*a) << mask) == 0),
    }
}

// ------------------------------------------------------------------ pattern fragment (mirror of lean/Rbgp/Policy/Regex.lean `classify`)
pub fn lit_ok(c: char) -> bool {
    c.is_ascii_alphanumeric() || c == ':' || c == '-'
}
/// items with optional postfix operator, optional trailing `$`
pub fn items_ok(cs: &[char]) -> bool {
    let mut i = 0;
    let mut prev_plain_atom = false;
    while i < cs.len() {
        let c = cs[i];
        if c == '$' && i + 1 == cs.len() {
            return true;
        }
        if c == '\\' && i + 1 < cs.len() && cs[i + 1] == 'd' {
            i += 2;
            prev_plain_atom = true;
        } else if (c == '*' || c == '+') && prev_plain_atom {
            i += 1;
            prev_plain_atom = false;
        } else if c == '.' || lit_ok(c) {
            i += 1;
            prev_plain_atom = true;
        } else {
            return false;
        }
    }
    true
}
/// `a [ b`: item sequences of the fragment around one never closed `[` (`a` without a final `$`)
pub fn unclosed_group(cs: &[char]) -> bool {
    match cs.iter().position(|c| *c == '[') {
        Some(i) => items_ok(&cs[..i]) && (i == 0 || cs[i - 1] != '$') && items_ok(&cs[i + 1..]),
        None => false,
    }
}
/// true = inside the fragment (valid or one of the designated invalid forms)
pub fn pat_supported(p: &str) -> bool {
    if !p.is_ascii() {
        return false;
    }
    let cs: Vec<char> = p.chars().collect();
    match cs.first() {
        Some('*') | Some('+') => items_ok(&cs[1..]),
        Some('^') => items_ok(&cs[1..]) || unclosed_group(&cs[1..]),
        _ => items_ok(&cs) || unclosed_group(&cs),
    }
}
/// mirror of `Regex.f32Whole?`: link-bandwidth values the Lean driver can render
pub fn lb_ok(c: &[u8]) -> bool {
    if !(c.len() == 8 && c[0] == 0x40 && c[1] == 0x04) {
        return true;
    }
    let bits = u32::from_be_bytes([c[4], c[5], c[6], c[7]]);
    let (e, m) = (bits >> 23, bits & 0x7f_ffff);
    if bits == 0 {
        return true;
    }
    if (127..=150).contains(&e) {
        let sig = 0x80_0000u32 + m;
        let sh = 150 - e;
        return sig % (1u32 << sh) == 0;
    }
    false
}
pub fn is_u32_str(s: &str) -> bool {
    !s.is_empty() && s.len() <= 10 && s.chars().all(|c| c.is_ascii_digit()) && s.parse::<u64>().map(|v| v <= u32::MAX as u64).unwrap_or(false)
}
pub fn has_digit_colon_digit(s: &str) -> bool {
    let b = s.as_bytes();
    (0..b.len().saturating_sub(2)).any(|i| b[i].is_ascii_digit() && b[i + 1] == b':' && b[i + 2].is_ascii_digit())
}
pub const WELL_KNOWN: [&str; 9] = ["graceful-shutdown", "accept-own", "llgr-stale", "no-llgr", "blackhole", "no-export", "no-advertise", "no-export-subconfed", "no-peer"];
pub fn comm_pat_ok(s: &str) -> bool {
    if !s.is_ascii() {
        return false;
    }
    if is_u32_str(s) {
        return true;
    }
    if has_digit_colon_digit(s) {
        return pat_supported(&format!("^{}$", s));
    }
    if WELL_KNOWN.contains(&s.to_ascii_lowercase().as_str()) {
        return true;
    }
    pat_supported(s)
}

// ------------------------------------------------------------------ routes
#[derive(Clone, PartialEq, Debug)]
pub enum AData {
    Val(u32),
    Bin(Vec<u8>),
}
#[derive(Clone, PartialEq, Debug)]
pub struct AAttr {
    pub code: u8,
    pub flags: u8,
    pub data: AData,
}
pub fn aattr_of(t: &Term) -> Option<AAttr> {
    let a = t.tagged("a")?;
    if a.len() != 3 {
        return None;
    }
    let code = u8_of(&a[0])?;
    let flags = u8_of(&a[1])?;
    let data = if let Some(v) = a[2].tagged("v") {
        if v.len() != 1 {
            return None;
        }
        AData::Val(u32_of(&v[0])?)
    } else {
        AData::Bin(a[2].as_bytes()?)
    };
    Some(AAttr { code, flags, data })
}
pub fn aattr_t(a: &AAttr) -> Term {
    Term::tag(
        "a",
        vec![
            Term::nat(a.code),
            Term::nat(a.flags),
            match &a.data {
                AData::Val(v) => Term::tag("v", vec![Term::nat(*v)]),
                AData::Bin(b) => Term::bytes(b),
            },
        ],
    )
}
pub fn abstract_attr(a: &Attribute) -> AAttr {
    AAttr {
        code: a.code(),
        flags: a.flags(),
        data: match a.value() {
            Some(v) => AData::Val(v),
            None => AData::Bin(a.binary().cloned().unwrap_or_default()),
        },
    }
}
pub fn abstract_attrs(v: &[Attribute]) -> Vec<AAttr> {
    v.iter().map(abstract_attr).collect()
}

pub fn codec() -> bgp::PeerCodec {
    let caps = vec![
        bgp::Capability::MultiProtocol(bgp::Family::IPV4),
        bgp::Capability::MultiProtocol(bgp::Family::IPV6),
        bgp::Capability::FourOctetAsNumber(65000),
        bgp::Capability::ExtendedMessage,
    ];
    bgp::PeerCodec::negotiate(&caps, &caps)
}

/// a well-formed segment list with some zero-count segment
pub fn has_empty_segment(b: &[u8]) -> bool {
    let mut pos = 0usize;
    let mut found = false;
    while pos < b.len() {
        if pos + 2 > b.len() {
            return false;
        }
        let (t, n) = (b[pos], b[pos + 1] as usize);
        if !(1..=4).contains(&t) || pos + 2 + 4 * n > b.len() {
            return false;
        }
        if n == 0 {
            found = true;
        }
        pos += 2 + 4 * n;
    }
    found
}

/// Encode the declared attributes + one NLRI as an UPDATE and push it through the real decoder.
pub fn decode_route(attrs: &[AAttr], net: &IpAddr, mask: u8) -> Option<Arc<Vec<Attribute>>> {
    // An AS_PATH with a zero-count segment: whether `Attribute::decode` accepts it has changed over
    // time (RFC 7606 §7.2), but the API builds such paths (`attr_from_api`: new_with_bin(AS_PATH, ..)).
    // Decode the UPDATE with an empty path and put the declared payload in the way the API does.
    let api_path: Option<Vec<u8>> = attrs.iter().find(|a| a.code == Attribute::AS_PATH).and_then(|a| match &a.data {
        AData::Bin(b) if has_empty_segment(b) => Some(b.clone()),
        _ => None,
    });
    if api_path.is_some() && attrs.iter().any(|a| a.code == Attribute::AS_PATH && a.flags != 64) {
        return None;
    }
    let mut pa: Vec<u8> = Vec::new();
    let mut plen = 0usize;
    for a in attrs {
        if ![1u8, 2, 4, 5, 6, 8, 9, 10, 16, 32, 99].contains(&a.code) {
            return None;
        }
        if a.code == 16 {
            if let AData::Bin(b) = &a.data {
                if b.chunks(8).any(|c| !lb_ok(c)) {
                    return None;
                }
            }
        }
        plen += match &a.data {
            AData::Val(_) => if a.code == 1 { 1 } else { 4 },
            AData::Bin(b) => b.len(),
        };
        if plen > 60000 {
            return None;
        }
        let payload: Vec<u8> = match &a.data {
            AData::Val(v) => {
                if a.code == Attribute::ORIGIN {
                    if *v > 255 {
                        return None;
                    }
                    vec![*v as u8]
                } else {
                    v.to_be_bytes().to_vec()
                }
            }
            AData::Bin(b) => {
                if a.code == Attribute::AS_PATH && api_path.is_some() {
                    Vec::new()
                } else {
                    b.clone()
                }
            }
        };
        pa.push(a.flags);
        pa.push(a.code);
        if a.flags & 0x10 != 0 {
            if payload.len() > 65535 {
                return None;
            }
            pa.extend_from_slice(&(payload.len() as u16).to_be_bytes());
        } else {
            if payload.len() > 255 {
                return None;
            }
            pa.push(payload.len() as u8);
        }
        pa.extend_from_slice(&payload);
    }
    // A vector without ORIGIN / AS_PATH is what the API builds for a locally originated route; the
    // wire needs both, so they are sent (last) and taken out of the decoded vector again.
    let no_origin = !attrs.iter().any(|a| a.code == Attribute::ORIGIN);
    let no_path = !attrs.iter().any(|a| a.code == Attribute::AS_PATH);
    if no_origin {
        pa.extend_from_slice(&[0x40, 1, 1, 0]);
    }
    if no_path {
        pa.extend_from_slice(&[0x40, 2, 0]);
    }
    let nbytes = (mask as usize).div_ceil(8);
    let mut nlri: Vec<u8> = vec![mask];
    let mut tail: Vec<u8> = Vec::new();
    match net {
        IpAddr::V4(a) => {
            nlri.extend_from_slice(&a.octets()[..nbytes]);
            // NEXT_HOP (fixed dummy; the policy's nexthop argument comes from the case)
            pa.extend_from_slice(&[0x40, 3, 4, 192, 0, 2, 1]);
            tail = nlri;
        }
        IpAddr::V6(a) => {
            nlri.extend_from_slice(&a.octets()[..nbytes]);
            let mut mp: Vec<u8> = vec![0, 2, 1, 16];
            mp.extend_from_slice(&Ipv6Addr::new(0x2001, 0xdb8, 0, 0, 0, 0, 0, 1).octets());
            mp.push(0);
            mp.extend_from_slice(&nlri);
            pa.extend_from_slice(&[0x90, 14]);
            pa.extend_from_slice(&(mp.len() as u16).to_be_bytes());
            pa.extend_from_slice(&mp);
        }
    }
    let total = 19 + 2 + 2 + pa.len() + tail.len();
    if total > 65535 {
        return None;
    }
    let mut msg: Vec<u8> = vec![0xff; 16];
    msg.extend_from_slice(&(total as u16).to_be_bytes());
    msg.push(2);
    msg.extend_from_slice(&[0, 0]);
    msg.extend_from_slice(&(pa.len() as u16).to_be_bytes());
    msg.extend_from_slice(&pa);
    msg.extend_from_slice(&tail);
    let mut c = codec();
    let mut buf = bytes::BytesMut::from(&msg[..]);
    let parsed = c.try_parse(&mut buf).ok()??;
    let msgs: Vec<bgp::Message> = bgp::validate_message(parsed, false).ok()?.collect();
    if msgs.len() != 1 {
        return None;
    }
    match &msgs[0] {
        bgp::Message::Update(bgp::Update::Reach { entries, attr, .. }) => {
            if entries.len() != 1 {
                return None;
            }
            let ok = match (&entries[0].nlri, net) {
                (packet::Nlri::V4(n), IpAddr::V4(a)) => n.addr == *a && n.mask == mask,
                (packet::Nlri::V6(n), IpAddr::V6(a)) => n.addr == *a && n.mask == mask,
                _ => false,
            };
            if !ok {
                return None;
            }
            if api_path.is_none() && !no_origin && !no_path {
                return Some(attr.clone());
            }
            let v: Vec<Attribute> = attr
                .iter()
                .filter(|a| !(no_origin && a.code() == Attribute::ORIGIN) && !(no_path && a.code() == Attribute::AS_PATH))
                .map(|a| match &api_path {
                    Some(b) if a.code() == Attribute::AS_PATH => Attribute::new_with_bin(Attribute::AS_PATH, b.clone()).unwrap(),
                    _ => a.clone(),
                })
                .collect();
            Some(Arc::new(v))
        }
        _ => None,
    }
}

#[derive(Clone, Copy, PartialEq)]
pub enum Rpki {
    None,
    NotFound,
    Valid,
    Invalid,
}

pub struct Route {
    pub source: Arc<Source>,
    pub net: packet::Nlri,
    pub attrs: Arc<Vec<Attribute>>,
    pub aattrs: Vec<AAttr>,
    pub nh: Option<IpAddr>,
    pub onh: Option<IpAddr>,
    pub confed: bool,
    pub laddr: IpAddr,
    pub paddr: IpAddr,
    pub rpki: Option<RpkiTable>,
}

/// last member of the final segment if that is a non-empty AS_SEQUENCE and the member is not 0
pub fn last_seq_origin(b: &[u8]) -> Option<u32> {
    let mut pos = 0usize;
    let mut last: Option<(u8, Option<u32>)> = None;
    while pos < b.len() {
        if pos + 2 > b.len() {
            return None;
        }
        let (t, n) = (b[pos], b[pos + 1] as usize);
        if pos + 2 + 4 * n > b.len() {
            return None;
        }
        let m = if n > 0 {
            let o = pos + 2 + 4 * (n - 1);
            Some(u32::from_be_bytes([b[o], b[o + 1], b[o + 2], b[o + 3]]))
        } else {
            None
        };
        last = Some((t, m));
        pos += 2 + 4 * n;
    }
    match last {
        Some((2, Some(a))) if a != 0 => Some(a),
        _ => None,
    }
}

/// `(tag x)` -> x (exactly one argument)
pub fn one<'a>(t: &'a Term, tag: &str) -> Option<&'a Term> {
    let a = t.tagged(tag)?;
    if a.len() == 1 { Some(&a[0]) } else { None }
}

pub fn route_of(t: &Term) -> Option<Route> {
    let r = t.tagged("route")?;
    if r.len() != 9 {
        return None;
    }
    let src = r[0].tagged("src")?;
    let source = if src.len() == 1 && src[0].as_atom() == Some("local") {
        Source::local()
    } else if src.len() == 1 {
        let p = src[0].tagged("peer")?;
        if p.len() != 4 {
            return None;
        }
        Arc::new(Source::new(
            addr_of(&p[2])?,
            addr_of(&p[3])?,
            u32_of(&p[0])?,
            u32_of(&p[1])?,
            Ipv4Addr::new(1, 1, 1, 1),
            PeerRole::Ebgp,
        ))
    } else {
        return None;
    };
    let n = r[1].tagged("net")?;
    if n.len() != 2 {
        return None;
    }
    let naddr = addr_of(&n[0])?;
    let mask = u8_of(&n[1])?;
    match naddr {
        IpAddr::V4(_) if mask > 32 => return None,
        IpAddr::V6(_) if mask > 128 => return None,
        _ => {}
    }
    // the wire form of an NLRI carries only ceil(mask/8) octets
    let nbytes = (mask as usize).div_ceil(8);
    match naddr {
        IpAddr::V4(a) => {
            if a.octets()[nbytes..].iter().any(|b| *b != 0) {
                return None;
            }
        }
        IpAddr::V6(a) => {
            if a.octets()[nbytes..].iter().any(|b| *b != 0) {
                return None;
            }
        }
    }
    let net = match naddr {
        IpAddr::V4(a) => packet::Nlri::V4(bgp::Ipv4Net { addr: a, mask }),
        IpAddr::V6(a) => packet::Nlri::V6(bgp::Ipv6Net { addr: a, mask }),
    };
    let al = r[2].tagged("attrs")?;
    let aattrs: Vec<AAttr> = al.iter().map(aattr_of).collect::<Option<Vec<_>>>()?;
    let attrs = decode_route(&aattrs, &naddr, mask)?;
    if abstract_attrs(&attrs) != aattrs {
        return None;
    }
    let nh = opt_addr_of(one(&r[3], "nh")?)?;
    let onh = opt_addr_of(one(&r[4], "onh")?)?;
    let confed = one(&r[5], "confed")?.as_bool()?;
    let laddr = addr_of(one(&r[6], "laddr")?)?;
    let paddr = addr_of(one(&r[7], "paddr")?)?;
    let rp = match one(&r[8], "rpki")?.as_atom()? {
        "none" => Rpki::None,
        "nf" => Rpki::NotFound,
        "valid" => Rpki::Valid,
        "invalid" => Rpki::Invalid,
        _ => return None,
    };
    // a validation state is declared only for routes that carry an AS_PATH
    if rp != Rpki::None && !aattrs.iter().any(|a| a.code == Attribute::AS_PATH) {
        return None;
    }
    // Build a VRP table that yields the declared state for this route (checked below).
    let rpki = match rp {
        Rpki::None => None,
        _ => {
            let mut t = RpkiTable::new();
            let src = Arc::new(IpAddr::V4(Ipv4Addr::new(203, 0, 113, 9)));
            // an unrelated, disjoint VRP so that the table is not empty
            t.insert(
                packet::IpNet::new(IpAddr::V4(Ipv4Addr::new(203, 0, 113, 0)), 24),
                Arc::new(Roa::new(24, 64999, src.clone())),
            );
            t.insert(
                packet::IpNet::new(IpAddr::V6(Ipv6Addr::new(0x3fff, 0, 0, 0, 0, 0, 0, 0)), 32),
                Arc::new(Roa::new(32, 64999, src.clone())),
            );
            match rp {
                Rpki::Invalid => t.insert(packet::IpNet::new(naddr, mask), Arc::new(Roa::new(mask, 0, src.clone()))),
                Rpki::Valid => {
                    // only for paths that end in a non-empty AS_SEQUENCE whose last member is not AS 0
                    // (every reading of RFC 6811 agrees on the origin AS of those)
                    let asn = aattrs.iter().find(|a| a.code == Attribute::AS_PATH).and_then(|a| match &a.data {
                        AData::Bin(b) => last_seq_origin(b),
                        _ => None,
                    })?;
                    t.insert(packet::IpNet::new(naddr, mask), Arc::new(Roa::new(mask, asn, src.clone())));
                }
                _ => {}
            }
            let want = match rp {
                Rpki::NotFound => RpkiValidationState::NotFound,
                Rpki::Valid => RpkiValidationState::Valid,
                _ => RpkiValidationState::Invalid,
            };
            let got = t.validate(&source, &net, &attrs)?;
            if got.state != want {
                return None;
            }
            Some(t)
        }
    };
    Some(Route { source, net, attrs, aattrs, nh, onh, confed, laddr, paddr, rpki })
}

// ------------------------------------------------------------------ ops
pub fn opt_of(t: &Term) -> Option<MatchOption> {
    match t.as_atom()? {
        "any" => Some(MatchOption::Any),
        "all" => Some(MatchOption::All),
        "invert" => Some(MatchOption::Invert),
        _ => None,
    }
}
pub fn opt_t(o: &MatchOption) -> Term {
    Term::atom(match o {
        MatchOption::Any => "any",
        MatchOption::All => "all",
        MatchOption::Invert => "invert",
    })
}
pub fn cmp_of(t: &Term) -> Option<Comparison> {
    match t.as_atom()? {
        "eq" => Some(Comparison::Eq),
        "ge" => Some(Comparison::Ge),
        "le" => Some(Comparison::Le),
        _ => None,
    }
}
pub fn cmp_t(c: &Comparison) -> Term {
    Term::atom(match c {
        Comparison::Eq => "eq",
        Comparison::Ge => "ge",
        Comparison::Le => "le",
    })
}
pub fn disp_of(t: &Term) -> Option<Disposition> {
    match t.as_atom()? {
        "accept" => Some(Disposition::Accept),
        "reject" => Some(Disposition::Reject),
        "pass" => Some(Disposition::Pass),
        _ => None,
    }
}
pub fn disp_t(d: Disposition) -> Term {
    Term::atom(match d {
        Disposition::Accept => "accept",
        Disposition::Reject => "reject",
        Disposition::Pass => "pass",
    })
}
pub fn odisp_of(t: &Term) -> Option<Option<Disposition>> {
    if t.as_atom() == Some("none") { Some(None) } else { Some(Some(disp_of(t)?)) }
}
pub fn odisp_t(d: Option<Disposition>) -> Term {
    match d {
        None => Term::atom("none"),
        Some(d) => disp_t(d),
    }
}
pub fn dir_of(t: &Term) -> Option<PolicyDirection> {
    match t.as_atom()? {
        "imp" => Some(PolicyDirection::Import),
        "exp" => Some(PolicyDirection::Export),
        _ => None,
    }
}

pub fn single_str(t: &Term) -> Option<String> {
    let l = t.as_list()?;
    let k = l.first()?.as_atom()?;
    let a = || u32_of(l.get(1)?);
    let b = || u32_of(l.get(2)?);
    Some(match (k, l.len()) {
        ("inc", 2) => format!("_{}_", a()?),
        ("left", 2) => format!("^{}_", a()?),
        ("orig", 2) => format!("_{}$", a()?),
        ("only", 2) => format!("^{}$", a()?),
        ("rinc", 3) => format!("_{}-{}_", a()?, b()?),
        ("rleft", 3) => format!("^{}-{}_", a()?, b()?),
        ("rorig", 3) => format!("_{}-{}$", a()?, b()?),
        ("ronly", 3) => format!("^{}-{}$", a()?, b()?),
        ("re", 2) => {
            let s = l[1].as_atom()?;
            if s.contains('_') || !pat_supported(s) {
                return None;
            }
            s.to_string()
        }
        _ => return None,
    })
}
pub fn single_t(s: &SingleAsPathMatch) -> Term {
    use SingleAsPathMatch::*;
    let (k, v): (&str, Vec<u32>) = match s {
        Include(a) => ("inc", vec![*a]),
        LeftMost(a) => ("left", vec![*a]),
        Origin(a) => ("orig", vec![*a]),
        Only(a) => ("only", vec![*a]),
        RangeInclude(a, b) => ("rinc", vec![*a, *b]),
        RangeLeftMost(a, b) => ("rleft", vec![*a, *b]),
        RangeOrigin(a, b) => ("rorig", vec![*a, *b]),
        RangeOnly(a, b) => ("ronly", vec![*a, *b]),
    };
    Term::tag(k, v.into_iter().map(Term::nat).collect())
}

/// `raw` element: a prefix / neighbor string `IpNet::from_str` refuses (which one depends on the position)
pub const BAD_NETS: [&str; 8] = ["10.0.0.0/33", "10.0.0.0", "2001:db8::/129", "x/8", "10.0.0.0/-1", "/", "10.0.0.0/8/8", "10.0.0.256/8"];

pub fn set_config_of(kind: &str, name: String, elems: &[Term]) -> Option<DefinedSetConfig> {
    Some(match kind {
        "prefix" => {
            let mut prefixes = Vec::new();
            for (i, e) in elems.iter().enumerate() {
                if e.as_atom() == Some("raw") {
                    prefixes.push(PrefixConfig { ip_prefix: BAD_NETS[i % BAD_NETS.len()].to_string(), mask_length_min: 0, mask_length_max: 32 });
                    continue;
                }
                let p = e.tagged("p")?;
                if p.len() != 4 {
                    return None;
                }
                let a = addr_of(&p[0])?;
                let m = u8_of(&p[1])?;
                if !mask_bits_ok(&a, m) {
                    return None;
                }
                prefixes.push(PrefixConfig {
                    ip_prefix: format!("{}/{}", a, m),
                    mask_length_min: u8_of(&p[2])?,
                    mask_length_max: u8_of(&p[3])?,
                });
            }
            DefinedSetConfig::Prefix { name, prefixes }
        }
        "neighbor" => {
            let mut neighbors = Vec::new();
            for (i, e) in elems.iter().enumerate() {
                if e.as_atom() == Some("raw") {
                    neighbors.push(BAD_NETS[i % BAD_NETS.len()].to_string());
                    continue;
                }
                let p = e.tagged("n")?;
                if p.len() != 2 {
                    return None;
                }
                let a = addr_of(&p[0])?;
                let m = u8_of(&p[1])?;
                if !mask_bits_ok(&a, m) {
                    return None;
                }
                neighbors.push(format!("{}/{}", a, m));
            }
            DefinedSetConfig::Neighbor { name, neighbors }
        }
        "aspath" => DefinedSetConfig::AsPath {
            name,
            patterns: elems.iter().map(single_str).collect::<Option<Vec<_>>>()?,
        },
        "comm" => {
            let patterns = elems.iter().map(name_of).collect::<Option<Vec<_>>>()?;
            if !patterns.iter().all(|p| comm_pat_ok(p)) {
                return None;
            }
            DefinedSetConfig::Community { name, patterns }
        }
        "ext" => {
            let patterns = elems.iter().map(name_of).collect::<Option<Vec<_>>>()?;
            if !patterns.iter().all(|p| pat_supported(p)) {
                return None;
            }
            DefinedSetConfig::ExtCommunity { name, patterns }
        }
        "large" => {
            let patterns = elems.iter().map(name_of).collect::<Option<Vec<_>>>()?;
            if !patterns.iter().all(|p| pat_supported(p)) {
                return None;
            }
            DefinedSetConfig::LargeCommunity { name, patterns }
        }
        _ => return None,
    })
}

pub fn rtype_of(t: &Term) -> Option<RouteType> {
    match t.as_atom()? {
        "internal" => Some(RouteType::Internal),
        "external" => Some(RouteType::External),
        "local" => Some(RouteType::Local),
        _ => None,
    }
}
pub fn rpki_state_of(t: &Term) -> Option<RpkiValidationState> {
    match t.as_atom()? {
        "nf" => Some(RpkiValidationState::NotFound),
        "valid" => Some(RpkiValidationState::Valid),
        "invalid" => Some(RpkiValidationState::Invalid),
        _ => None,
    }
}

pub fn cond_of(t: &Term) -> Option<ConditionConfig> {
    let l = t.as_list()?;
    let k = l.first()?.as_atom()?;
    let a = &l[1..];
    Some(match k {
        "cset" => {
            if a.len() != 3 {
                return None;
            }
            let name = name_of(&a[1])?;
            let o = opt_of(&a[2])?;
            match a[0].as_atom()? {
                "prefix" => ConditionConfig::PrefixSet(name, o),
                "neighbor" => ConditionConfig::NeighborSet(name, o),
                "aspath" => ConditionConfig::AsPathSet(name, o),
                "comm" => ConditionConfig::CommunitySet(name, o),
                "ext" => ConditionConfig::ExtCommunitySet(name, o),
                "large" => ConditionConfig::LargeCommunitySet(name, o),
                _ => return None,
            }
        }
        "nexthop" => ConditionConfig::Nexthop(a.iter().map(addr_of).collect::<Option<Vec<_>>>()?),
        "aslen" if a.len() == 2 => ConditionConfig::AsPathLength(cmp_of(&a[0])?, u32_of(&a[1])?),
        "rpki" if a.len() == 1 => ConditionConfig::Rpki(rpki_state_of(&a[0])?),
        "lpeq" if a.len() == 1 => ConditionConfig::LocalPrefEq(u32_of(&a[0])?),
        "medeq" if a.len() == 1 => ConditionConfig::MedEq(u32_of(&a[0])?),
        "origin" if a.len() == 1 => ConditionConfig::Origin(u8_of(&a[0])?),
        "rtype" if a.len() == 1 => ConditionConfig::RouteType(rtype_of(&a[0])?),
        "ccount" if a.len() == 2 => ConditionConfig::CommunityCount(cmp_of(&a[0])?, u32_of(&a[1])?),
        "afi" => {
            let mut v = Vec::new();
            for f in a {
                let p = f.as_list()?;
                if p.len() != 2 {
                    return None;
                }
                let afi = nat_of(&p[0])? as u64;
                if afi > 65535 {
                    return None;
                }
                v.push(bgp::Family::new(afi as u16, u8_of(&p[1])?));
            }
            ConditionConfig::AfiSafiIn(v)
        }
        _ => return None,
    })
}

pub fn cat_of(t: &Term) -> Option<CommunityActionType> {
    match t.as_atom()? {
        "add" => Some(CommunityActionType::Add),
        "remove" => Some(CommunityActionType::Remove),
        "replace" => Some(CommunityActionType::Replace),
        _ => None,
    }
}
pub fn cat_t(c: &CommunityActionType) -> Term {
    Term::atom(match c {
        CommunityActionType::Add => "add",
        CommunityActionType::Remove => "remove",
        CommunityActionType::Replace => "replace",
    })
}

pub fn actions_of(t: &Term) -> Option<Actions> {
    let mut acts = Actions::default();
    for it in t.as_list()? {
        let l = it.as_list()?;
        let k = l.first()?.as_atom()?;
        let a = &l[1..];
        match (k, a.len()) {
            ("nh", 1) => {
                acts.nexthop = Some(if a[0].tagged("addr").is_some() {
                    NexthopAction::Address(addr_of(one(&a[0], "addr")?)?)
                } else {
                    match a[0].as_atom()? {
                        "self" => NexthopAction::PeerSelf,
                        "peer" => NexthopAction::PeerAddress,
                        "unchanged" => NexthopAction::Unchanged,
                        _ => return None,
                    }
                })
            }
            ("comm", 2) => {
                acts.community = Some(CommunityAction {
                    action_type: cat_of(&a[0])?,
                    communities: a[1].as_list()?.iter().map(u32_of).collect::<Option<Vec<_>>>()?,
                })
            }
            ("lp", 1) => acts.local_pref = Some(LocalPrefAction { value: u32_of(&a[0])? }),
            ("med", 2) => {
                acts.med = Some(MedAction {
                    action_type: match a[0].as_atom()? {
                        "mod" => MedActionType::Mod,
                        "replace" => MedActionType::Replace,
                        _ => return None,
                    },
                    value: i64_of(&a[1])?,
                })
            }
            ("prep", 3) => {
                if u32_of(&a[1])? > 1000 {
                    return None;
                }
                acts.as_prepend = Some(AsPrependAction {
                    asn: u32_of(&a[0])?,
                    repeat: u32_of(&a[1])?,
                    use_left_most: a[2].as_bool()?,
                })
            }
            ("ext", 2) => {
                let mut v = Vec::new();
                for c in a[1].as_list()? {
                    let b = c.as_bytes()?;
                    let arr: [u8; 8] = b.try_into().ok()?;
                    if !lb_ok(&arr) {
                        return None;
                    }
                    v.push(arr);
                }
                acts.ext_community = Some(ExtCommunityAction { action_type: cat_of(&a[0])?, communities: v })
            }
            ("large", 2) => {
                let mut v = Vec::new();
                for c in a[1].as_list()? {
                    let p = c.as_list()?;
                    if p.len() != 3 {
                        return None;
                    }
                    v.push((u32_of(&p[0])?, u32_of(&p[1])?, u32_of(&p[2])?));
                }
                acts.large_community = Some(LargeCommunityAction { action_type: cat_of(&a[0])?, communities: v })
            }
            ("origin", 1) => acts.origin = Some(OriginAction { origin: u8_of(&a[0])? }),
            _ => return None,
        }
    }
    Some(acts)
}

pub fn actions_t(a: &Actions) -> Term {
    let mut v = Vec::new();
    if let Some(n) = &a.nexthop {
        v.push(Term::tag(
            "nh",
            vec![match n {
                NexthopAction::Address(x) => Term::tag("addr", vec![addr_t(x)]),
                NexthopAction::PeerSelf => Term::atom("self"),
                NexthopAction::PeerAddress => Term::atom("peer"),
                NexthopAction::Unchanged => Term::atom("unchanged"),
            }],
        ));
    }
    if let Some(c) = &a.community {
        v.push(Term::tag("comm", vec![cat_t(&c.action_type), Term::list(c.communities.iter().map(|x| Term::nat(*x)).collect())]));
    }
    if let Some(l) = &a.local_pref {
        v.push(Term::tag("lp", vec![Term::nat(l.value)]));
    }
    if let Some(m) = &a.med {
        v.push(Term::tag(
            "med",
            vec![
                Term::atom(match m.action_type {
                    MedActionType::Mod => "mod",
                    MedActionType::Replace => "replace",
                }),
                Term::atom(format!("{}", m.value)),
            ],
        ));
    }
    if let Some(p) = &a.as_prepend {
        v.push(Term::tag("prep", vec![Term::nat(p.asn), Term::nat(p.repeat), Term::boolean(p.use_left_most)]));
    }
    if let Some(c) = &a.ext_community {
        v.push(Term::tag("ext", vec![cat_t(&c.action_type), Term::list(c.communities.iter().map(|x| Term::bytes(x)).collect())]));
    }
    if let Some(c) = &a.large_community {
        v.push(Term::tag(
            "large",
            vec![
                cat_t(&c.action_type),
                Term::list(c.communities.iter().map(|(a, b, c)| Term::list(vec![Term::nat(*a), Term::nat(*b), Term::nat(*c)])).collect()),
            ],
        ));
    }
    if let Some(o) = &a.origin {
        v.push(Term::tag("origin", vec![Term::nat(o.origin)]));
    }
    Term::list(v)
}

pub fn err_t(e: &TableError) -> Term {
    Term::tag(
        "err",
        vec![Term::atom(match e {
            TableError::InvalidArgument(_) => "invalid",
            TableError::AlreadyExists(_) => "exists",
            TableError::NotFound => "notfound",
            TableError::StillInUse(_) => "inuse",
        })],
    )
}
pub fn res_t<T>(r: &Result<T, TableError>) -> Term {
    match r {
        Ok(_) => Term::atom("ok"),
        Err(e) => err_t(e),
    }
}

/// Some(result term) or None = ill-formed op.
pub fn exec_op(pt: &mut PolicyTable, t: &Term) -> Option<Term> {
    let l = t.as_list()?;
    let k = l.first()?.as_atom()?;
    let a = &l[1..];
    Some(match (k, a.len()) {
        ("set-add", 3) => {
            let cfg = set_config_of(a[0].as_atom()?, name_of(&a[1])?, a[2].as_list()?)?;
            res_t(&pt.add_defined_set(cfg))
        }
        ("set-replace", 3) => {
            let cfg = set_config_of(a[0].as_atom()?, name_of(&a[1])?, a[2].as_list()?)?;
            res_t(&pt.replace_defined_set(cfg))
        }
        ("set-del", 4) => {
            let cfg = set_config_of(a[0].as_atom()?, name_of(&a[1])?, a[3].as_list()?)?;
            res_t(&pt.delete_defined_set(cfg, a[2].as_bool()?))
        }
        ("stmt-add", 4) => {
            let conds = a[1].as_list()?.iter().map(cond_of).collect::<Option<Vec<_>>>()?;
            res_t(&pt.add_statement(a[0].as_atom()?, conds, odisp_of(&a[2])?, actions_of(&a[3])?))
        }
        ("stmt-del", 5) => {
            let conds = a[2].as_list()?.iter().map(cond_of).collect::<Option<Vec<_>>>()?;
            res_t(&pt.delete_statement(a[0].as_atom()?, a[1].as_bool()?, conds, odisp_of(&a[3])?, actions_of(&a[4])?))
        }
        ("pol-add", 2) => res_t(&pt.add_policy(a[0].as_atom()?, names_of(&a[1])?)),
        ("pol-del", 4) => res_t(&pt.delete_policy(a[0].as_atom()?, a[1].as_bool()?, a[2].as_bool()?, names_of(&a[3])?)),
        ("asg-add", 4) => res_t(&pt.add_assignment(a[1].as_atom()?, dir_of(&a[0])?, disp_of(&a[2])?, names_of(&a[3])?)),
        ("asg-set", 4) => res_t(&pt.set_policy_assignment(a[1].as_atom()?, dir_of(&a[0])?, disp_of(&a[2])?, names_of(&a[3])?)),
        ("asg-del", 3) => res_t(&pt.delete_policy_assignment(dir_of(&a[0])?, &names_of(&a[2])?, a[1].as_bool()?)),
        _ => return None,
    })
}

// ------------------------------------------------------------------ dump (what the names currently resolve to)
pub fn cond_t(c: &Condition) -> Term {
    let cset = |k: &str, n: &String, o: &MatchOption| Term::tag("cset", vec![Term::atom(k), Term::atom(n.clone()), opt_t(o)]);
    match c {
        Condition::Prefix(n, o, _) => cset("prefix", n, o),
        Condition::Neighbor(n, o, _) => cset("neighbor", n, o),
        Condition::AsPath(n, o, _) => cset("aspath", n, o),
        Condition::Community(n, o, _) => cset("comm", n, o),
        Condition::ExtCommunity(n, o, _) => cset("ext", n, o),
        Condition::LargeCommunity(n, o, _) => cset("large", n, o),
        Condition::Nexthop(v) => Term::tag("nexthop", v.iter().map(addr_t).collect()),
        Condition::AsPathLength(c, n) => Term::tag("aslen", vec![cmp_t(c), Term::nat(*n)]),
        Condition::Rpki(s) => Term::tag(
            "rpki",
            vec![Term::atom(match s {
                RpkiValidationState::NotFound => "nf",
                RpkiValidationState::Valid => "valid",
                RpkiValidationState::Invalid => "invalid",
            })],
        ),
        Condition::LocalPrefEq(n) => Term::tag("lpeq", vec![Term::nat(*n)]),
        Condition::MedEq(n) => Term::tag("medeq", vec![Term::nat(*n)]),
        Condition::Origin(n) => Term::tag("origin", vec![Term::nat(*n)]),
        Condition::RouteType(r) => Term::tag(
            "rtype",
            vec![Term::atom(match r {
                RouteType::Internal => "internal",
                RouteType::External => "external",
                RouteType::Local => "local",
            })],
        ),
        Condition::CommunityCount(c, n) => Term::tag("ccount", vec![cmp_t(c), Term::nat(*n)]),
        Condition::AfiSafiIn(v) => Term::tag(
            "afi",
            v.iter().map(|f| Term::list(vec![Term::nat(f.afi()), Term::nat(f.safi())])).collect(),
        ),
    }
}

pub fn zero_t(z: &Option<(u8, u8)>) -> Term {
    Term::opt(z.map(|(a, b)| Term::list(vec![Term::nat(a), Term::nat(b)])))
}

pub fn prefix_set_t(n: &str, p: &PrefixSet) -> Term {
    let mut es: Vec<(u8, u128, u32, Term)> = Vec::new();
    for (_a, _m, e) in p.v4.iter() {
        if let packet::IpNet::V4(x) = &e.net {
            es.push((4, u32::from(x.addr) as u128, x.mask as u32, Term::tag("p", vec![addr_t(&IpAddr::V4(x.addr)), Term::nat(x.mask), Term::nat(e.min_length), Term::nat(e.max_length)])));
        }
    }
    for (_a, _m, e) in p.v6.iter() {
        if let packet::IpNet::V6(x) = &e.net {
            es.push((6, u128::from(x.addr), x.mask as u32, Term::tag("p", vec![addr_t(&IpAddr::V6(x.addr)), Term::nat(x.mask), Term::nat(e.min_length), Term::nat(e.max_length)])));
        }
    }
    es.sort_by(|a, b| (a.0, a.1, a.2).cmp(&(b.0, b.1, b.2)));
    Term::tag("set", vec![Term::atom("prefix"), Term::atom(n), Term::list(es.into_iter().map(|x| x.3).collect()), zero_t(&p.zero), zero_t(&p.zero6)])
}
pub fn neighbor_set_t(n: &str, p: &NeighborSet) -> Term {
    let es = p
        .sets
        .iter()
        .map(|x| match x {
            packet::IpNet::V4(x) => Term::tag("n", vec![addr_t(&IpAddr::V4(x.addr)), Term::nat(x.mask)]),
            packet::IpNet::V6(x) => Term::tag("n", vec![addr_t(&IpAddr::V6(x.addr)), Term::nat(x.mask)]),
        })
        .collect();
    Term::tag("set", vec![Term::atom("neighbor"), Term::atom(n), Term::list(es)])
}
pub fn aspath_set_t(n: &str, p: &AsPathSet) -> Term {
    Term::tag(
        "set",
        vec![Term::atom("aspath"), Term::atom(n), Term::list(p.single_sets.iter().map(single_t).collect()), Term::list(p.sets.iter().map(|r| Term::atom(r.as_str())).collect())],
    )
}
pub fn regex_set_t(k: &str, n: &str, sources: Vec<String>) -> Term {
    Term::tag("set", vec![Term::atom(k), Term::atom(n), Term::list(sources.into_iter().map(Term::atom).collect())])
}

/// the set object a condition HOLDS (its `Arc`), rendered like a listed set
pub fn held_set_t(c: &Condition) -> Option<Term> {
    Some(match c {
        Condition::Prefix(n, _, s) => prefix_set_t(n, s),
        Condition::Neighbor(n, _, s) => neighbor_set_t(n, s),
        Condition::AsPath(n, _, s) => aspath_set_t(n, s),
        Condition::Community(n, _, s) => regex_set_t("comm", n, s.sets.iter().map(|r| r.as_str().to_string()).collect()),
        Condition::ExtCommunity(n, _, s) => regex_set_t("ext", n, s.sets.iter().map(|r| r.as_str().to_string()).collect()),
        Condition::LargeCommunity(n, _, s) => regex_set_t("large", n, s.sets.iter().map(|r| r.as_str().to_string()).collect()),
        _ => return None,
    })
}

/// `(stmt name conds disp acts H)`: H = `=` when every set the statement holds renders exactly like
/// the set listed under that name, else the held sets
pub fn stmt_t(s: &Statement, listed_sets: &[Term]) -> Term {
    let held: Vec<Term> = s.conditions.iter().filter_map(held_set_t).collect();
    let current = held.iter().all(|h| listed_sets.contains(h));
    Term::tag(
        "stmt",
        vec![
            Term::atom(s.name.as_ref()),
            Term::list(s.conditions.iter().map(cond_t).collect()),
            odisp_t(s.disposition),
            actions_t(&s.actions),
            if current { Term::atom("=") } else { Term::list(held) },
        ],
    )
}

pub fn dump(pt: &PolicyTable) -> Term {
    let mut sets: Vec<(u8, String, Term)> = Vec::new();
    for s in pt.iter_defined_sets() {
        match s {
            DefinedSetRef::Prefix(n, p) => sets.push((0, n.to_string(), prefix_set_t(n, p))),
            DefinedSetRef::Neighbor(n, p) => sets.push((1, n.to_string(), neighbor_set_t(n, p))),
            DefinedSetRef::AsPath(n, p) => sets.push((2, n.to_string(), aspath_set_t(n, p))),
            DefinedSetRef::Community(n, p) => sets.push((3, n.to_string(), regex_set_t("comm", n, p.sets.iter().map(|r| r.as_str().to_string()).collect()))),
            DefinedSetRef::ExtCommunity(n, p) => sets.push((4, n.to_string(), regex_set_t("ext", n, p.sets.iter().map(|r| r.as_str().to_string()).collect()))),
            DefinedSetRef::LargeCommunity(n, p) => sets.push((5, n.to_string(), regex_set_t("large", n, p.sets.iter().map(|r| r.as_str().to_string()).collect()))),
        }
    }
    sets.sort_by(|a, b| (a.0, &a.1).cmp(&(b.0, &b.1)));
    let listed_sets: Vec<Term> = sets.into_iter().map(|x| x.2).collect();
    let mut stmts: Vec<(String, Term)> = pt.iter_statements(String::new()).map(|s| (s.name.to_string(), stmt_t(s, &listed_sets))).collect();
    stmts.sort_by(|a, b| a.0.cmp(&b.0));
    let mut pols: Vec<(String, Term)> = pt
        .iter_policies(String::new())
        .map(|p| {
            // the statements the policy HOLDS; `=` when each renders exactly like the listed one
            let held: Vec<Term> = p.statements.iter().map(|s| stmt_t(s, &listed_sets)).collect();
            let current = held.iter().all(|h| stmts.iter().any(|x| &x.1 == h));
            (
                p.name.to_string(),
                Term::tag(
                    "pol",
                    vec![Term::atom(p.name.as_ref()), Term::list(p.statements.iter().map(|s| Term::atom(s.name.as_ref())).collect()), if current { Term::atom("=") } else { Term::list(held) }],
                ),
            )
        })
        .collect();
    pols.sort_by(|a, b| a.0.cmp(&b.0));
    let asg = |d: i32| -> Term {
        match pt.iter_assignments(d).next() {
            None => Term::atom("none"),
            Some((_, a)) => asg_t(a),
        }
    };
    Term::tag(
        "dump",
        vec![Term::list(listed_sets), Term::list(stmts.into_iter().map(|x| x.1).collect()), Term::list(pols.into_iter().map(|x| x.1).collect()), asg(1), asg(2)],
    )
}

// ------------------------------------------------------------------ probes
pub fn probe_result(attrs_in: &[AAttr], nh_in: Option<IpAddr>, d: &str, attrs: &[Attribute], nh: Option<bgp::Nexthop>) -> Term {
    let out = abstract_attrs(attrs);
    let at = if out == attrs_in { Term::atom("=") } else { Term::list(out.iter().map(aattr_t).collect()) };
    let nho = nh.map(|n| n.addr());
    let nt = if nho == nh_in { Term::atom("=") } else { Term::opt(nho.as_ref().map(addr_t)) };
    Term::tag("r", vec![Term::atom(d), at, nt])
}

/// one `apply_import` (dir 1) / `apply_export` (dir 2) call of assignment `a` on probe `r`
pub fn probe_asg(a: &PolicyAssignment, dir: i32, r: &Route) -> Term {
    let res = catch_unwind(AssertUnwindSafe(|| {
        let mut nh = r.nh.map(nh_of);
        if dir == 1 {
            let (filtered, attrs) = apply_import(a, r.rpki.as_ref(), &r.source, &r.net, &r.attrs, &mut nh);
            probe_result(&r.aattrs, r.nh, if filtered { "reject" } else { "accept" }, &attrs, nh)
        } else {
            let mut attrs = r.attrs.clone();
            let d = apply_export(a, r.rpki.as_ref(), &r.source, &r.net, &mut attrs, &mut nh, r.onh.map(nh_of), r.confed, r.laddr, r.paddr);
            probe_result(
                &r.aattrs,
                r.nh,
                match d {
                    Disposition::Accept => "accept",
                    Disposition::Reject => "reject",
                    Disposition::Pass => "pass",
                },
                &attrs,
                nh,
            )
        }
    }));
    res.unwrap_or_else(|_| Term::atom("panic"))
}

pub fn probes(pt: &PolicyTable, dir: i32, routes: &[Route]) -> Term {
    let tag = if dir == 1 { "imp" } else { "exp" };
    match pt.iter_assignments(dir).next() {
        None => Term::tag(tag, vec![Term::atom("none")]),
        Some((_, a)) => Term::tag(tag, routes.iter().map(|r| probe_asg(a, dir, r)).collect()),
    }
}

/// `(asg name default (policy names) needs_rpki)` of a live assignment
pub fn asg_t(a: &PolicyAssignment) -> Term {
    Term::tag(
        "asg",
        vec![Term::atom(a.name.as_ref()), disp_t(a.disposition), Term::list(a.policies.iter().map(|p| Term::atom(p.name.as_ref())).collect()), Term::boolean(a.needs_rpki)],
    )
}

/// the table-level case kind `(case (probes ..) (ops ..))`
pub fn run_table_case(t: &Term) -> String {
    let bad = "(bad-case)".to_string();
    let Some(c) = t.tagged("case") else { return bad };
    if c.len() != 2 {
        return bad;
    }
    let (Some(pr), Some(ops)) = (c[0].tagged("probes"), c[1].tagged("ops")) else { return bad };
    let Ok(routes) = catch_unwind(AssertUnwindSafe(|| pr.iter().map(route_of).collect::<Option<Vec<Route>>>())) else { return "(harness-panic)".to_string() };
    let Some(routes) = routes else { return bad };
    let mut pt = PolicyTable::new();
    let mut steps = Vec::new();
    let mut prev_dump = String::new();
    for op in ops {
        let r = catch_unwind(AssertUnwindSafe(|| exec_op(&mut pt, op)));
        match r {
            Err(_) => {
                steps.push(Term::tag("step", vec![Term::atom("panic")]));
                break;
            }
            Ok(None) => return bad,
            Ok(Some(res)) => {
                let d = dump(&pt);
                let ds = d.to_string();
                let dt = if ds == prev_dump { Term::atom("=") } else { d };
                prev_dump = ds;
                steps.push(Term::tag("step", vec![res, dt, probes(&pt, 1, &routes), probes(&pt, 2, &routes)]));
            }
        }
    }
    Term::tag("obs", steps).to_string()
}
