// C19: code shared by the packet-level harness (harness/pt/src/bin/c19.rs) and the daemon-level one
// (harness/daemon/c19.rs): term <-> rustybgp_packet values, the stand-alone BGP encoder / decoder table,
// building and running packet-level records, the packet-level generator.  Format: see pt/src/bin/c19.rs.
#![allow(dead_code)]
use bytes::BytesMut;
use rustybgp_packet::bgp::{
    self, Attribute, Capability, Family, HoldTime, Ipv4Net, Ipv6Net, Nexthop, Nlri, PathNlri,
};
use rustybgp_packet::{bmp, mrt};
use std::net::{IpAddr, Ipv4Addr, Ipv6Addr};
use std::panic::{AssertUnwindSafe, catch_unwind};
use std::sync::Arc;
use tokio_util::codec::Encoder;
use super::sexp::{Rng, Term};

// ------------------------------------------------------------------ small helpers
pub(crate) fn fam_num(f: Family) -> u64 {
    ((f.afi() as u64) << 16) | f.safi() as u64
}
pub(crate) fn fam_of(t: &Term) -> Option<Family> {
    let n = t.as_u64()?;
    if n >> 32 != 0 || n & 0xff00 != 0 {
        return None;
    }
    Some(Family::new((n >> 16) as u16, (n & 0xff) as u8))
}
pub(crate) fn u8_of(t: &Term) -> Option<u8> {
    u8::try_from(t.as_u64()?).ok()
}
pub(crate) fn u16_of(t: &Term) -> Option<u16> {
    u16::try_from(t.as_u64()?).ok()
}
pub(crate) fn u32_of(t: &Term) -> Option<u32> {
    u32::try_from(t.as_u64()?).ok()
}
pub(crate) fn ip_of(t: &Term) -> Option<IpAddr> {
    let l = t.as_list()?;
    if l.len() != 2 {
        return None;
    }
    let b = l[1].as_bytes()?;
    match l[0].as_atom()? {
        "v4" => Some(IpAddr::V4(Ipv4Addr::from(<[u8; 4]>::try_from(&b[..]).ok()?))),
        "v6" => Some(IpAddr::V6(Ipv6Addr::from(<[u8; 16]>::try_from(&b[..]).ok()?))),
        _ => None,
    }
}
pub(crate) fn ip_term(a: &IpAddr) -> Term {
    match a {
        IpAddr::V4(a) => Term::list(vec![Term::atom("v4"), Term::bytes(&a.octets())]),
        IpAddr::V6(a) => Term::list(vec![Term::atom("v6"), Term::bytes(&a.octets())]),
    }
}
pub(crate) fn v4_of(t: &Term) -> Option<Ipv4Addr> {
    let b = t.as_bytes()?;
    Some(Ipv4Addr::from(<[u8; 4]>::try_from(&b[..]).ok()?))
}

pub(crate) const PARSE_FAMILIES: [Family; 11] = [
    Family::IPV4,
    Family::IPV6,
    Family::IPV4_MC,
    Family::IPV6_MC,
    Family::IPV4_VPN,
    Family::IPV6_VPN,
    Family::IPV4_MPLS,
    Family::IPV6_MPLS,
    Family::IPV4_FLOWSPEC,
    Family::L2VPN_EVPN,
    Family::RTC,
];

/// NLRI of a family without public constructors: let the repository's decoder build it from its wire form (an
/// UPDATE with MP_REACH_NLRI holding just this NLRI); accepted only if it re-encodes to the same bytes.
fn nlri_via_decoder(fam: Family, b: &[u8]) -> Option<Nlri> {
    let nh: Vec<u8> = match fam {
        Family::IPV4_FLOWSPEC | Family::IPV6_FLOWSPEC => vec![],
        Family::IPV4_VPN | Family::IPV6_VPN => vec![0, 0, 0, 0, 0, 0, 0, 0, 10, 0, 0, 1],
        _ => vec![10, 0, 0, 1],
    };
    let mut mp: Vec<u8> = vec![];
    mp.extend_from_slice(&fam.afi().to_be_bytes());
    mp.push(fam.safi());
    mp.push(nh.len() as u8);
    mp.extend_from_slice(&nh);
    mp.push(0);
    mp.extend_from_slice(b);
    let mut attrs: Vec<u8> = vec![0x40, 1, 1, 0, 0x40, 2, 0, 0x90, 14];
    attrs.extend_from_slice(&(mp.len() as u16).to_be_bytes());
    attrs.extend_from_slice(&mp);
    let mut f = vec![0xffu8; 16];
    f.extend_from_slice(&((23 + attrs.len()) as u16).to_be_bytes());
    f.extend_from_slice(&[2, 0, 0]);
    f.extend_from_slice(&(attrs.len() as u16).to_be_bytes());
    f.extend_from_slice(&attrs);
    let r = catch_unwind(AssertUnwindSafe(|| {
        let mut codec = bgp::PeerCodec::new();
        codec.extended_length = true;
        codec.set_family(fam, bgp::FamilyState::default());
        let parsed = codec.parse_message(&f).ok()?;
        let v: Vec<bgp::Message> = rustybgp_packet::validate_message(parsed, false).ok()?.collect();
        match v.as_slice() {
            [bgp::Message::Update(bgp::Update::Reach { family, entries, .. })] if *family == fam && entries.len() == 1 => {
                Some(entries[0].nlri.clone())
            }
            _ => None,
        }
    }))
    .ok()??;
    if r.encode_to_bytes() == b { Some(r) } else { None }
}

pub(crate) fn nlri_of(fam: Family, b: &[u8]) -> Option<Nlri> {
    if !matches!(fam, Family::IPV4 | Family::IPV4_MC | Family::IPV6 | Family::IPV6_MC) {
        return nlri_via_decoder(fam, b);
    }
    let mask = *b.first()?;
    let n = (mask as usize).div_ceil(8);
    if b.len() != 1 + n {
        return None;
    }
    match fam {
        Family::IPV4 | Family::IPV4_MC => {
            if mask > 32 {
                return None;
            }
            let mut a = [0u8; 4];
            a[..n].copy_from_slice(&b[1..]);
            Some(Nlri::V4(Ipv4Net { addr: Ipv4Addr::from(a), mask }))
        }
        Family::IPV6 | Family::IPV6_MC => {
            if mask > 128 {
                return None;
            }
            let mut a = [0u8; 16];
            a[..n].copy_from_slice(&b[1..]);
            Some(Nlri::V6(Ipv6Net { addr: Ipv6Addr::from(a), mask }))
        }
        _ => None,
    }
}

pub(crate) fn ents_of(fam: Family, t: &Term) -> Option<Vec<PathNlri>> {
    t.as_list()?
        .iter()
        .map(|e| {
            let l = e.as_list()?;
            if l.len() != 2 {
                return None;
            }
            Some(PathNlri { path_id: u32_of(&l[0])?, nlri: nlri_of(fam, &l[1].as_bytes()?)? })
        })
        .collect()
}
pub(crate) fn ents_term(v: &[PathNlri]) -> Term {
    Term::list(
        v.iter()
            .map(|e| Term::list(vec![Term::nat(e.path_id), Term::bytes(&e.nlri.encode_to_bytes())]))
            .collect(),
    )
}

pub(crate) fn nh_of(t: &Term) -> Option<Option<Nexthop>> {
    if t.as_atom() == Some("none") {
        return Some(None);
    }
    let b = t.as_bytes()?;
    let nh = Nexthop::from_bytes(&b)?;
    if nh.to_bytes() != b {
        return None;
    }
    Some(Some(nh))
}
pub(crate) fn nh_term(nh: &Option<Nexthop>) -> Term {
    match nh {
        None => Term::atom("none"),
        Some(n) => Term::bytes(&n.to_bytes()),
    }
}

pub(crate) fn attr_of(t: &Term) -> Option<Attribute> {
    let l = t.as_list()?;
    if l.len() != 4 {
        return None;
    }
    let code = u8_of(&l[0])?;
    let flags = u8_of(&l[1])?;
    let a = match l[2].as_atom()? {
        "val" => Attribute::new_with_value(code, u32_of(&l[3])?)?,
        "bin" => Attribute::new_with_bin(code, l[3].as_bytes()?)?,
        "opq" => Attribute::new_opaque(code, flags, l[3].as_bytes()?),
        _ => return None,
    };
    if a.flags() != flags {
        return None;
    }
    Some(a)
}
pub(crate) fn attr_term(a: &Attribute) -> Term {
    let (k, v) = if a.is_opaque() {
        ("opq", Term::bytes(a.binary().unwrap()))
    } else if let Some(v) = a.value() {
        ("val", Term::nat(v))
    } else {
        ("bin", Term::bytes(a.binary().unwrap()))
    };
    Term::list(vec![Term::nat(a.code()), Term::nat(a.flags()), Term::atom(k), v])
}
pub(crate) fn attrs_of(t: &Term) -> Option<Vec<Attribute>> {
    t.as_list()?.iter().map(attr_of).collect()
}
pub(crate) fn attrs_term(v: &[Attribute]) -> Term {
    Term::list(v.iter().map(attr_term).collect())
}

pub(crate) fn famlist_of<T>(l: &[Term], f: impl Fn(Family, &[Term]) -> Option<T>) -> Option<Vec<T>> {
    l.iter()
        .map(|e| {
            let e = e.as_list()?;
            f(fam_of(e.first()?)?, &e[1..])
        })
        .collect()
}
pub(crate) fn cap_of(t: &Term) -> Option<Capability> {
    match t {
        Term::Atom(s) => match s.as_str() {
            "rr" => Some(Capability::RouteRefresh),
            "extmsg" => Some(Capability::ExtendedMessage),
            "err-rr" => Some(Capability::EnhancedRouteRefresh),
            _ => None,
        },
        Term::List(l) => {
            let a = &l[1..];
            match l.first()?.as_atom()? {
                "mp" if a.len() == 1 => Some(Capability::MultiProtocol(fam_of(&a[0])?)),
                "as4" if a.len() == 1 => Some(Capability::FourOctetAsNumber(u32_of(&a[0])?)),
                "enh" => Some(Capability::ExtendedNexthop(famlist_of(a, |f, r| {
                    if r.len() != 1 { None } else { Some((f, u16_of(&r[0])?)) }
                })?)),
                "addpath" => Some(Capability::AddPath(famlist_of(a, |f, r| {
                    if r.len() != 1 { None } else { Some((f, u8_of(&r[0])?)) }
                })?)),
                "gr" if a.len() >= 2 => Some(Capability::GracefulRestart {
                    flags: u8_of(&a[0])?,
                    restart_time: u16_of(&a[1])?,
                    families: famlist_of(&a[2..], |f, r| {
                        if r.len() != 1 { None } else { Some((f, u8_of(&r[0])?)) }
                    })?,
                }),
                "llgr" => Some(Capability::LongLivedGracefulRestart(famlist_of(a, |f, r| {
                    if r.len() != 2 { None } else { Some((f, u8_of(&r[0])?, u32_of(&r[1])?)) }
                })?)),
                "fqdn" if a.len() == 2 => Some(Capability::Fqdn {
                    hostname: String::from_utf8(a[0].as_bytes()?).ok()?,
                    domain: String::from_utf8(a[1].as_bytes()?).ok()?,
                }),
                "unk" if a.len() == 2 => Some(Capability::Unknown { code: u8_of(&a[0])?, bin: a[1].as_bytes()? }),
                _ => None,
            }
        }
    }
}
pub(crate) fn cap_term(c: &Capability) -> Term {
    let fl = |f: &Family, mut rest: Vec<Term>| {
        let mut v = vec![Term::nat(fam_num(*f))];
        v.append(&mut rest);
        Term::list(v)
    };
    match c {
        Capability::RouteRefresh => Term::atom("rr"),
        Capability::ExtendedMessage => Term::atom("extmsg"),
        Capability::EnhancedRouteRefresh => Term::atom("err-rr"),
        Capability::MultiProtocol(f) => Term::tag("mp", vec![Term::nat(fam_num(*f))]),
        Capability::FourOctetAsNumber(n) => Term::tag("as4", vec![Term::nat(*n)]),
        Capability::ExtendedNexthop(v) => Term::tag("enh", v.iter().map(|(f, a)| fl(f, vec![Term::nat(*a)])).collect()),
        Capability::AddPath(v) => Term::tag("addpath", v.iter().map(|(f, a)| fl(f, vec![Term::nat(*a)])).collect()),
        Capability::GracefulRestart { flags, restart_time, families } => {
            let mut v = vec![Term::nat(*flags), Term::nat(*restart_time)];
            v.extend(families.iter().map(|(f, a)| fl(f, vec![Term::nat(*a)])));
            Term::tag("gr", v)
        }
        Capability::LongLivedGracefulRestart(v) => {
            Term::tag("llgr", v.iter().map(|(f, a, t)| fl(f, vec![Term::nat(*a), Term::nat(*t)])).collect())
        }
        Capability::Fqdn { hostname, domain } => {
            Term::tag("fqdn", vec![Term::bytes(hostname.as_bytes()), Term::bytes(domain.as_bytes())])
        }
        Capability::Unknown { code, bin } => Term::tag("unk", vec![Term::nat(*code), Term::bytes(bin)]),
    }
}

pub(crate) fn mon_head(t: &Term) -> &'static str {
    match t.head() {
        Some("reach") => "reach",
        Some("unreach") => "unreach",
        Some("eor") => "eor",
        _ => "other",
    }
}

/// The UPDATE family whose add-path state the BMP/MRT encoders set before encoding.
pub(crate) fn msg_family(m: &bgp::Message) -> Option<Family> {
    match m {
        bgp::Message::Update(bgp::Update::Reach { family, .. }) => Some(*family),
        bgp::Message::Update(bgp::Update::Unreach { family, .. }) => Some(*family),
        bgp::Message::Update(bgp::Update::EndOfRib(family)) => Some(*family),
        _ => None,
    }
}

pub(crate) fn msg_of(t: &Term) -> Option<bgp::Message> {
    if t.as_atom() == Some("keepalive") {
        return Some(bgp::Message::Keepalive);
    }
    let l = t.as_list()?;
    let a = &l[1..];
    match l.first()?.as_atom()? {
        "open" if a.len() == 4 => Some(bgp::Message::Open(bgp::Open {
            as_number: u32_of(&a[0])?,
            holdtime: HoldTime::new(u16_of(&a[1])?)?,
            router_id: u32_of(&a[2])?,
            capability: a[3].tagged("caps")?.iter().map(cap_of).collect::<Option<Vec<_>>>()?,
        })),
        "reach" if a.len() == 4 => {
            let family = fam_of(&a[0])?;
            Some(bgp::Message::Update(bgp::Update::Reach {
                family,
                entries: ents_of(family, &a[1])?,
                nexthop: nh_of(&a[2])?,
                attr: Arc::new(attrs_of(&a[3])?),
            }))
        }
        "unreach" if a.len() == 2 => {
            let family = fam_of(&a[0])?;
            Some(bgp::Message::Update(bgp::Update::Unreach { family, entries: ents_of(family, &a[1])? }))
        }
        "eor" if a.len() == 1 => Some(bgp::Message::Update(bgp::Update::EndOfRib(fam_of(&a[0])?))),
        "notif" if a.len() == 3 => {
            let n = bgp::Notification::from_notification(u8_of(&a[0])?, u8_of(&a[1])?, a[2].as_bytes()?);
            Some(bgp::Message::Notification(n))
        }
        "rr" if a.len() == 1 => Some(bgp::Message::RouteRefresh { family: fam_of(&a[0])? }),
        _ => None,
    }
}
pub(crate) fn msg_term(m: &bgp::Message) -> Term {
    match m {
        bgp::Message::Open(o) => Term::tag(
            "open",
            vec![
                Term::nat(o.as_number),
                Term::nat(o.holdtime.seconds()),
                Term::nat(o.router_id),
                Term::tag("caps", o.capability.iter().map(cap_term).collect()),
            ],
        ),
        bgp::Message::Update(bgp::Update::Reach { family, entries, nexthop, attr }) => Term::tag(
            "reach",
            vec![Term::nat(fam_num(*family)), ents_term(entries), nh_term(nexthop), attrs_term(attr)],
        ),
        bgp::Message::Update(bgp::Update::Unreach { family, entries }) => {
            Term::tag("unreach", vec![Term::nat(fam_num(*family)), ents_term(entries)])
        }
        bgp::Message::Update(bgp::Update::EndOfRib(f)) => Term::tag("eor", vec![Term::nat(fam_num(*f))]),
        bgp::Message::Notification(n) => Term::tag(
            "notif",
            vec![Term::nat(n.notification_code()), Term::nat(n.notification_subcode()), Term::bytes(n.notification_data())],
        ),
        bgp::Message::Keepalive => Term::atom("keepalive"),
        bgp::Message::RouteRefresh { family } => Term::tag("rr", vec![Term::nat(fam_num(*family))]),
    }
}

/// Mirror of `bmp::embedded_codecs` / `bmp::wants_extended_nexthop` (crate-private there): the BGP codec the
/// BMP / MRT encoders use for `m`: RFC 8654 size limit; RFC 8950 extended next hop for an IPv4 route whose next hop
/// is IPv6.
pub(crate) fn embedded_codec_for(m: &bgp::Message) -> bgp::PeerCodec {
    let enh = matches!(m, bgp::Message::Update(bgp::Update::Reach { family: Family::IPV4, nexthop: Some(nh), .. }) if nh.addr().is_ipv6());
    let mut c = if enh {
        let caps = [
            Capability::MultiProtocol(Family::IPV4),
            Capability::ExtendedNexthop(vec![(Family::IPV4, Family::AFI_IP6)]),
            Capability::FourOctetAsNumber(0),
        ];
        bgp::PeerCodec::negotiate(&caps, &caps)
    } else {
        bgp::PeerCodec::new()
    };
    c.extended_length = true;
    c
}

/// What a stand-alone BGP encoder configured like the one inside BmpCodec/MrtCodec writes for `msgs`
/// (None = it panicked).
pub(crate) fn standalone(msgs: &[&bgp::Message], addpath: bool) -> Option<Vec<u8>> {
    catch_unwind(AssertUnwindSafe(|| {
        let mut buf = BytesMut::with_capacity(4096);
        let Some(first) = msgs.first() else { return vec![] };
        let mut codec = embedded_codec_for(first);
        for m in msgs {
            if let Some(f) = msg_family(m) {
                codec.set_family(f, bgp::FamilyState { addpath_tx: addpath, ..Default::default() });
            }
            codec.encode_to(m, &mut buf).unwrap();
        }
        buf.to_vec()
    }))
    .ok()
}

/// The repository's own reading of one BGP frame (receive path + validate_message).
pub(crate) fn parse_back(frame: &[u8], addpath: bool) -> Term {
    let r = catch_unwind(AssertUnwindSafe(|| {
        let mut codec = bgp::PeerCodec::new();
        for f in PARSE_FAMILIES {
            codec.set_family(f, bgp::FamilyState { addpath_rx: addpath, addpath_tx: addpath });
        }
        let parsed = match codec.parse_message(frame) {
            Ok(p) => p,
            Err(_) => return Term::atom("err"),
        };
        match rustybgp_packet::validate_message(parsed, false) {
            Ok(it) => {
                let v: Vec<bgp::Message> = it.collect();
                if v.len() == 1 { msg_term(&v[0]) } else { Term::tag("multi", v.iter().map(msg_term).collect()) }
            }
            Err(_) => Term::atom("err"),
        }
    }));
    r.unwrap_or_else(|_| Term::atom("err"))
}

/// Split a blob into BGP frames by the RFC 4271 length field (stops at the first irregularity).
pub(crate) fn split_frames(b: &[u8]) -> Vec<&[u8]> {
    let mut out = Vec::new();
    let mut p = 0;
    while b.len() - p >= 19 {
        let l = ((b[p + 16] as usize) << 8) | b[p + 17] as usize;
        if l < 19 || l > b.len() - p {
            break;
        }
        out.push(&b[p..p + l]);
        p += l;
    }
    out
}

pub(crate) fn emb_term(e: &Option<Vec<u8>>) -> Term {
    match e {
        None => Term::atom("panic"),
        Some(b) => Term::bytes(b),
    }
}

// ------------------------------------------------------------------ records
pub(crate) struct Hdr {
    pub(crate) ptype: u8,
    pub(crate) flags: u8,
    pub(crate) dist: u64,
    pub(crate) addr: IpAddr,
    pub(crate) asn: u32,
    pub(crate) id: Ipv4Addr,
    pub(crate) ts: u32,
}
pub(crate) fn hdr_of(t: &Term) -> Option<Hdr> {
    let a = t.tagged("hdr")?;
    if a.len() != 7 {
        return None;
    }
    Some(Hdr {
        ptype: u8_of(&a[0])?,
        flags: u8_of(&a[1])?,
        dist: a[2].as_u64()?,
        addr: ip_of(&a[3])?,
        asn: u32_of(&a[4])?,
        id: v4_of(&a[5])?,
        ts: u32_of(&a[6])?,
    })
}
impl Hdr {
    pub(crate) fn real(&self) -> bmp::PerPeerHeader {
        bmp::PerPeerHeader::new(self.flags, self.asn, self.id, self.dist, self.addr, self.ts).with_peer_type(self.ptype)
    }
    pub(crate) fn tags(&self, out: &mut Vec<Term>) {
        out.push(Term::atom(if self.addr.is_ipv6() { "peer-v6" } else { "peer-v4" }));
        if self.ptype == 3 {
            out.push(Term::atom("loc-rib"));
        }
        out.push(Term::atom(format!("flags-{}", self.flags)));
        // exact boundaries of the numeric header fields
        match self.asn {
            0 => out.push(Term::atom("asn-0")),
            65535 => out.push(Term::atom("asn-65535")),
            65536 => out.push(Term::atom("asn-65536")),
            u32::MAX => out.push(Term::atom("asn-max")),
            _ => {}
        }
        if self.dist == u64::MAX {
            out.push(Term::atom("dist-max"));
        }
        if self.ts == u32::MAX {
            out.push(Term::atom("ts-max"));
        }
    }
}

/// (recomputed record term, the real BMP/MRT/TD value to encode, embedded blobs, tags)
pub(crate) enum Real {
    Bmp(bmp::Message),
    Mrt(mrt::Message),
    Td(u32, mrt::TableDumpRecord),
    /// several messages produced by one daemon-level event (e.g. flush_peer_snapshot)
    Many(Vec<Real>),
    /// bytes a daemon function wrote itself (dump_table), timestamps already zeroed
    Raw(Vec<u8>),
}

pub(crate) fn encode_real(r: &Real, bmpc: &mut bmp::BmpCodec, mrtc: &mut mrt::MrtCodec, dst: &mut BytesMut) {
    match r {
        Real::Bmp(m) => bmpc.encode(m, dst).unwrap(),
        Real::Mrt(m) => {
            let start = dst.len();
            mrtc.encode(m, dst).unwrap();
            // SystemTime::now(): not an input (one record per BGP frame: walk them by their length fields)
            let mut p = start;
            while p + 12 <= dst.len() {
                for x in &mut dst[p..p + 4] {
                    *x = 0;
                }
                let l = u32::from_be_bytes([dst[p + 8], dst[p + 9], dst[p + 10], dst[p + 11]]) as usize;
                p += 12 + l;
            }
        }
        Real::Td(ts, r) => mrt::encode_table_dump(*ts, r, dst).unwrap(),
        Real::Many(v) => {
            for x in v {
                encode_real(x, bmpc, mrtc, dst);
            }
        }
        Real::Raw(b) => dst.extend_from_slice(b),
    }
}
pub(crate) struct Built {
    pub(crate) term: Term,
    pub(crate) real: Real,
    pub(crate) embs: Vec<(bool, Vec<u8>)>,
    pub(crate) tags: Vec<Term>,
}

pub(crate) fn emb_tags(e: &Option<Vec<u8>>, tags: &mut Vec<Term>) {
    match e {
        None => tags.push(Term::atom("emb-panic")),
        Some(b) if b.len() > 65535 => tags.push(Term::atom("multi-frame")),
        _ => {}
    }
}

pub(crate) fn attr_block_len(attrs: &[Attribute], nh: &Option<Nexthop>, v6: bool) -> usize {
    let mut n: usize = attrs.iter().map(|a| a.encode_to_bytes().len()).sum();
    if let Some(nh) = nh {
        n += nh.to_bytes().len() + if v6 { 4 } else { 3 };
    }
    n
}

/// Parse a record term (its EMB fields are ignored) and rebuild it with the EMB the real encoder gives.
pub(crate) fn build(t: &Term) -> Option<Built> {
    if let Some(k) = t.as_atom() {
        let m = match k {
            "bmp-stats" => bmp::Message::StatsReports,
            "bmp-term" => bmp::Message::Termination,
            "bmp-mirror" => bmp::Message::RouteMirroring,
            _ => return None,
        };
        return Some(Built { term: t.clone(), real: Real::Bmp(m), embs: vec![], tags: vec![Term::atom(k)] });
    }
    let l = t.as_list()?;
    let kind = l.first()?.as_atom()?;
    let a = &l[1..];
    let mut tags = vec![Term::atom(kind)];
    match kind {
        "bmp-rm" if a.len() == 4 => {
            let h = hdr_of(&a[0])?;
            let ap = a[1].as_bool()?;
            let msg = msg_of(&a[3])?;
            if msg_term(&msg) != a[3] {
                return None;
            }
            let emb = standalone(&[&msg], ap);
            h.tags(&mut tags);
            tags.push(Term::atom(if ap { "ap-on" } else { "ap-off" }));
            tags.push(Term::atom(mon_head(&a[3])));
            emb_tags(&emb, &mut tags);
            let term = Term::tag("bmp-rm", vec![a[0].clone(), a[1].clone(), emb_term(&emb), a[3].clone()]);
            let real = Real::Bmp(bmp::Message::RouteMonitoring { header: h.real(), update: msg, addpath: ap });
            Some(Built { term, real, embs: emb.into_iter().map(|e| (ap, e)).collect(), tags })
        }
        "bmp-up" if a.len() == 7 => {
            let h = hdr_of(&a[0])?;
            let local_addr = ip_of(&a[1])?;
            let (lp, rp) = (u16_of(&a[2])?, u16_of(&a[3])?);
            let (ml, mr) = (msg_of(&a[5])?, msg_of(&a[6])?);
            if msg_term(&ml) != a[5] || msg_term(&mr) != a[6] {
                return None;
            }
            let emb = standalone(&[&ml, &mr], false);
            h.tags(&mut tags);
            tags.push(Term::atom(if local_addr.is_ipv6() { "local-v6" } else { "local-v4" }));
            emb_tags(&emb, &mut tags);
            let term = Term::tag(
                "bmp-up",
                vec![a[0].clone(), a[1].clone(), a[2].clone(), a[3].clone(), emb_term(&emb), a[5].clone(), a[6].clone()],
            );
            let real = Real::Bmp(bmp::Message::PeerUp {
                header: h.real(),
                local_addr,
                local_port: lp,
                remote_port: rp,
                local_open: ml,
                remote_open: mr,
            });
            Some(Built { term, real, embs: emb.into_iter().map(|e| (false, e)).collect(), tags })
        }
        "bmp-down" if a.len() == 2 => {
            let h = hdr_of(&a[0])?;
            h.tags(&mut tags);
            let mut embs = vec![];
            let (rt, reason) = match &a[1] {
                Term::Atom(s) if s == "remote-unexpected" => {
                    tags.push(Term::atom("reason-4"));
                    (a[1].clone(), bmp::PeerDownReason::RemoteUnexpected)
                }
                Term::Atom(s) if s == "deconfigured" => {
                    tags.push(Term::atom("reason-5"));
                    (a[1].clone(), bmp::PeerDownReason::Deconfigured)
                }
                Term::List(r) => {
                    let rk = r.first()?.as_atom()?;
                    match rk {
                        "local-fsm" if r.len() == 2 => {
                            tags.push(Term::atom("reason-2"));
                            (a[1].clone(), bmp::PeerDownReason::LocalFsm(u16_of(&r[1])?))
                        }
                        "local-notif" | "remote-notif" if r.len() == 3 => {
                            let m = msg_of(&r[2])?;
                            if msg_term(&m) != r[2] {
                                return None;
                            }
                            let emb = standalone(&[&m], false);
                            emb_tags(&emb, &mut tags);
                            let rt = Term::tag(rk, vec![emb_term(&emb), r[2].clone()]);
                            embs.extend(emb.map(|e| (false, e)));
                            if rk == "local-notif" {
                                tags.push(Term::atom("reason-1"));
                                (rt, bmp::PeerDownReason::LocalNotification(m))
                            } else {
                                tags.push(Term::atom("reason-3"));
                                (rt, bmp::PeerDownReason::RemoteNotification(m))
                            }
                        }
                        _ => return None,
                    }
                }
                _ => return None,
            };
            let term = Term::tag("bmp-down", vec![a[0].clone(), rt]);
            Some(Built { term, real: Real::Bmp(bmp::Message::PeerDown { header: h.real(), reason }), embs, tags })
        }
        "bmp-init" => {
            let mut tlv = vec![];
            for e in a {
                let e = e.as_list()?;
                if e.len() != 2 {
                    return None;
                }
                tlv.push((u16_of(&e[0])?, e[1].as_bytes()?));
            }
            tags.push(Term::atom(format!("tlvs-{}", tlv.len().min(3))));
            for (_, v) in &tlv {
                match v.len() {
                    0 => tags.push(Term::atom("tlv-0")),
                    255 => tags.push(Term::atom("tlv-255")),
                    256 => tags.push(Term::atom("tlv-256")),
                    65535 => tags.push(Term::atom("tlv-65535")),
                    x if x > 65535 => tags.push(Term::atom("tlv-over")),
                    _ => {}
                }
            }
            Some(Built { term: t.clone(), real: Real::Bmp(bmp::Message::Initiation(tlv)), embs: vec![], tags })
        }
        "mrt-mp" if a.len() == 4 => {
            let h = a[0].tagged("mph")?;
            if h.len() != 6 {
                return None;
            }
            let (ra, la) = (ip_of(&h[3])?, ip_of(&h[4])?);
            let asn4 = h[5].as_bool()?;
            let header = mrt::MpHeader::new(u32_of(&h[0])?, u32_of(&h[1])?, u16_of(&h[2])?, ra, la, asn4);
            let ap = a[1].as_bool()?;
            let msg = msg_of(&a[3])?;
            if msg_term(&msg) != a[3] {
                return None;
            }
            let emb = standalone(&[&msg], ap);
            tags.push(Term::atom(if ra.is_ipv6() { "afi-v6" } else { "afi-v4" }));
            if ra.is_ipv6() != la.is_ipv6() {
                tags.push(Term::atom("mixed-local"));
            }
            if !asn4 {
                tags.push(Term::atom("asn2"));
            }
            tags.push(Term::atom(if ap { "ap-on" } else { "ap-off" }));
            tags.push(Term::atom(mon_head(&a[3])));
            emb_tags(&emb, &mut tags);
            let term = Term::tag("mrt-mp", vec![a[0].clone(), a[1].clone(), emb_term(&emb), a[3].clone()]);
            let real = Real::Mrt(mrt::Message::Mp { header, body: msg, addpath: ap });
            Some(Built { term, real, embs: emb.into_iter().map(|e| (ap, e)).collect(), tags })
        }
        "td-peers" if a.len() >= 2 => {
            let ts = u32_of(&a[0])?;
            let router_id = v4_of(&a[1])?;
            let mut peers = vec![];
            for p in &a[2..] {
                let p = p.tagged("peer")?;
                if p.len() != 3 {
                    return None;
                }
                let addr = ip_of(&p[1])?;
                tags.push(Term::atom(if addr.is_ipv6() { "peer-v6" } else { "peer-v4" }));
                peers.push(mrt::PeerEntry { bgp_id: v4_of(&p[0])?, addr, asn: u32_of(&p[2])? });
            }
            tags.push(Term::atom(match peers.len() {
                0 => "peers-0",
                1..=3 => "peers-few",
                _ => "peers-many",
            }));
            if peers.len() >= 65535 {
                tags.push(Term::atom("peers-65535+"));
            }
            Some(Built {
                term: t.clone(),
                real: Real::Td(ts, mrt::TableDumpRecord::PeerIndexTable { router_id, peers }),
                embs: vec![],
                tags,
            })
        }
        "td-rib" if a.len() >= 4 => {
            let v6 = a[0].as_bool()?;
            let ts = u32_of(&a[1])?;
            let seq = u32_of(&a[2])?;
            let p = a[3].tagged("pfx")?;
            if p.len() != 2 {
                return None;
            }
            let mask = u8_of(&p[0])?;
            let ab = p[1].as_bytes()?;
            let prefix = match ab.len() {
                4 => Nlri::V4(Ipv4Net { addr: Ipv4Addr::from(<[u8; 4]>::try_from(&ab[..]).ok()?), mask }),
                16 => Nlri::V6(Ipv6Net { addr: Ipv6Addr::from(<[u8; 16]>::try_from(&ab[..]).ok()?), mask }),
                _ => return None,
            };
            let mut entries = vec![];
            for e in &a[4..] {
                let e = e.tagged("ent")?;
                if e.len() != 4 {
                    return None;
                }
                let nexthop = nh_of(&e[2])?;
                let attrs = attrs_of(&e[3])?;
                if attrs_term(&attrs) != e[3] {
                    return None;
                }
                let n = attr_block_len(&attrs, &nexthop, v6);
                tags.push(Term::atom(match n {
                    0 => "attrlen-0",
                    65535 => "attrlen-max",
                    x if x > 65535 => "attrlen-over",
                    _ => "attrlen-some",
                }));
                for a in attrs.iter() {
                    match a.binary().map(|b| b.len()) {
                        Some(255) => tags.push(Term::atom("adata-255")),
                        Some(256) => tags.push(Term::atom("adata-256")),
                        _ => {}
                    }
                }
                entries.push(mrt::RibEntry {
                    peer_index: u16_of(&e[0])?,
                    originated: u32_of(&e[1])?,
                    nexthop,
                    attrs: Arc::new(attrs),
                });
            }
            {
                let bits = ab.len() * 8;
                let m = mask as usize;
                tags.push(Term::atom(if m == 0 {
                    "mask-0"
                } else if m > bits {
                    "mask-over"
                } else if m == bits {
                    "mask-full"
                } else if m % 8 != 0 {
                    "mask-part"
                } else {
                    "mask-octet"
                }));
            }
            if entries.len() >= 65535 {
                tags.push(Term::atom("ents-65535+"));
            }
            tags.push(Term::atom(if v6 { "rib6" } else { "rib4" }));
            tags.push(Term::atom(match entries.len() {
                0 => "ents-0",
                1..=3 => "ents-few",
                _ => "ents-many",
            }));
            let rec = if v6 {
                mrt::TableDumpRecord::RibIpv6Unicast { seq, prefix, entries }
            } else {
                mrt::TableDumpRecord::RibIpv4Unicast { seq, prefix, entries }
            };
            Some(Built { term: t.clone(), real: Real::Td(ts, rec), embs: vec![], tags })
        }
        _ => None,
    }
}

pub(crate) fn tbl_term(embs: &[(bool, Vec<u8>)]) -> Term {
    let mut seen: Vec<(bool, &[u8])> = vec![];
    let mut rows = vec![];
    for (ap, e) in embs {
        for f in split_frames(e) {
            if seen.contains(&(*ap, f)) {
                continue;
            }
            seen.push((*ap, f));
            rows.push(Term::tag("f", vec![Term::boolean(*ap), Term::bytes(f), parse_back(f, *ap)]));
        }
    }
    Term::tag("tbl", rows)
}

/// Complete / re-derive a case: returns (canonical case term, built records).
/// `head`/`key`: ("case","recs") for packet-level cases, ("dcase","items") for daemon-level ones.
pub(crate) fn complete_with(head: &str, key: &str, recs: &[Term], b: &dyn Fn(&Term) -> Option<Built>) -> Option<(Term, Vec<Built>)> {
    let built: Vec<Built> = recs.iter().map(b).collect::<Option<Vec<_>>>()?;
    let embs: Vec<(bool, Vec<u8>)> = built.iter().flat_map(|b| b.embs.iter().cloned()).collect();
    let case = Term::tag(head, vec![tbl_term(&embs), Term::tag(key, built.iter().map(|b| b.term.clone()).collect())]);
    Some((case, built))
}
pub(crate) fn complete(recs: &[Term]) -> Option<(Term, Vec<Built>)> {
    complete_with("case", "recs", recs, &build)
}

pub(crate) fn run_case(line: &str) -> String {
    run_case_with(line, "case", "recs", &build)
}

pub(crate) fn run_case_with(line: &str, head: &str, key: &str, b: &dyn Fn(&Term) -> Option<Built>) -> String {
    let Some(t) = Term::parse(line) else { return "(bad-case)".into() };
    let Some(a) = t.tagged(head) else { return "(bad-case)".into() };
    if a.len() != 2 || a[0].tagged("tbl").is_none() {
        return "(bad-case)".into();
    }
    let Some(recs) = a[1].tagged(key) else { return "(bad-case)".into() };
    let Some((canon, built)) = complete_with(head, key, recs, b) else { return "(bad-case)".into() };
    // the tbl of the case may list more frames than needed (the shrinker deletes records) but every
    // frame it lists must carry the real decoder's answer, and every needed frame must be listed
    let given = a[0].tagged("tbl").unwrap();
    let need = canon.tagged(head).unwrap()[0].tagged("tbl").unwrap().to_vec();
    for row in given {
        let Some(r) = row.tagged("f") else { return "(bad-case)".into() };
        if r.len() != 3 {
            return "(bad-case)".into();
        }
        let (Some(ap), Some(f)) = (r[0].as_bool(), r[1].as_bytes()) else { return "(bad-case)".into() };
        if parse_back(&f, ap) != r[2] {
            return "(bad-case)".into();
        }
    }
    for row in &need {
        if !given.contains(row) {
            return "(bad-case)".into();
        }
    }
    if canon.tagged(head).unwrap()[1] != a[1] {
        return "(bad-case)".into();
    }
    let tags = Term::tag("tags", built.iter().map(|b| Term::list(b.tags.clone())).collect());
    let r = catch_unwind(AssertUnwindSafe(|| {
        let mut bmpc = bmp::BmpCodec::new();
        let mut mrtc = mrt::MrtCodec::new();
        let mut dst = BytesMut::new();
        for b in &built {
            encode_real(&b.real, &mut bmpc, &mut mrtc, &mut dst);
        }
        dst.to_vec()
    }));
    match r {
        Ok(bytes) => Term::tag("out", vec![Term::bytes(&bytes), tags]).to_string(),
        Err(_) => "(panic)".into(),
    }
}

// ------------------------------------------------------------------ generator
pub(crate) const V4S: [[u8; 4]; 6] = [[10, 0, 0, 1], [10, 0, 0, 2], [192, 168, 0, 1], [0, 0, 0, 0], [255, 255, 255, 255], [1, 1, 1, 1]];
pub(crate) fn v6s(i: u64) -> [u8; 16] {
    let mut a = [0u8; 16];
    match i % 5 {
        0 => {
            a[..4].copy_from_slice(&[0x20, 0x01, 0x0d, 0xb8]);
            a[15] = 1
        }
        1 => {
            a[..4].copy_from_slice(&[0x20, 0x01, 0x0d, 0xb8]);
            a[15] = 2
        }
        2 => {
            a[0] = 0xfe;
            a[1] = 0x80;
            a[15] = 1
        }
        3 => {}
        _ => {
            a[10] = 0xff;
            a[11] = 0xff;
            a[12..].copy_from_slice(&[10, 0, 0, 1])
        }
    }
    a
}
pub(crate) fn pick_v4(r: &mut Rng) -> [u8; 4] {
    *r.pick(&V4S[..])
}
pub(crate) const ASNS: [u32; 9] = [0, 1, 65001, 65002, 23456, 65535, 65536, 4200000001, 4294967295];
pub(crate) const TSS: [u32; 5] = [0, 1, 1_000_000_000, 1_700_000_000, u32::MAX];

pub(crate) fn g_ip(r: &mut Rng, v6: bool) -> Term {
    if v6 {
        Term::list(vec![Term::atom("v6"), Term::bytes(&v6s(r.next()))])
    } else {
        Term::list(vec![Term::atom("v4"), Term::bytes(&pick_v4(r))])
    }
}
pub(crate) fn g_hdr(r: &mut Rng) -> Term {
    let locrib = r.chance(1, 6);
    let ptype: u8 = if locrib { 3 } else if r.chance(1, 25) { *r.pick(&[1u8, 2, 255]) } else { 0 };
    let flags: u8 = if r.chance(1, 40) { *r.pick(&[0x80u8, 0xc0, 0xff, 0x01]) } else { *r.pick(&[0u8, 0, 0x40, 0x10, 0x50]) };
    let dist: u64 = if r.chance(1, 8) {
        let x = r.next();
        *r.pick(&[x, u64::MAX, 1])
    } else {
        0
    };
    let addr = if locrib && r.chance(5, 6) {
        Term::list(vec![Term::atom("v4"), Term::bytes(&[0, 0, 0, 0])])
    } else {
        let v6 = r.chance(1, 2);
        g_ip(r, v6)
    };
    Term::tag(
        "hdr",
        vec![
            Term::nat(ptype),
            Term::nat(flags),
            Term::nat(dist),
            addr,
            Term::nat(*r.pick(&ASNS)),
            Term::bytes(&pick_v4(r)),
            Term::nat(*r.pick(&TSS)),
        ],
    )
}

pub(crate) fn g_attrs(r: &mut Rng, big: usize) -> Vec<Term> {
    let mut v = vec![];
    let a = |code: u64, flags: u64, k: &str, val: Term| Term::list(vec![Term::nat(code), Term::nat(flags), Term::atom(k), val]);
    v.push(a(1, 0x40, "val", Term::nat(r.below(3))));
    {
        let n = r.below(4) as usize;
        let mut p = vec![];
        if n > 0 {
            p.push(2u8);
            p.push(n as u8);
            for _ in 0..n {
                p.extend_from_slice(&r.pick(&ASNS).to_be_bytes());
            }
        }
        v.push(a(2, 0x40, "bin", Term::bytes(&p)));
    }
    if r.chance(1, 3) {
        v.push(a(4, 0x80, "val", Term::nat(r.below(1000))));
    }
    if r.chance(1, 3) {
        v.push(a(5, 0x40, "val", Term::nat(*r.pick(&[0u32, 100, u32::MAX]))));
    }
    if r.chance(1, 8) {
        v.push(a(6, 0x40, "bin", Term::bytes(&[])));
    }
    if r.chance(1, 8) {
        let mut b = r.pick(&ASNS).to_be_bytes().to_vec();
        b.extend_from_slice(&pick_v4(r));
        v.push(a(7, 0xc0, "bin", Term::bytes(&b)));
    }
    if r.chance(1, 3) || big > 0 {
        let n = if big > 0 { big / 4 } else { r.below(4) as usize };
        let mut b = vec![];
        for i in 0..n {
            b.extend_from_slice(&[0xfd, 0xe9, (i >> 8) as u8, i as u8]);
        }
        v.push(a(8, 0xc0, "bin", Term::bytes(&b)));
    }
    if r.chance(1, 10) {
        v.push(a(9, 0x80, "val", Term::nat(0x0a000001u32)));
        v.push(a(10, 0x80, "bin", Term::bytes(&[10, 0, 0, 9])));
    }
    if r.chance(1, 10) {
        v.push(a(32, 0xc0, "bin", Term::bytes(&[0, 0, 0xfd, 0xe9, 0, 0, 0, 1, 0, 0, 0, 2])));
    }
    if r.chance(1, 8) {
        // as the decoder stores it: wire flags, i.e. with the extended-length bit when the value needs it
        let n = *r.pick(&[0usize, 3, 255, 256, 300]);
        let fl = *r.pick(&[0xc0u64, 0xe0, 0xd0]) | if n > 255 { 0x10 } else { 0 };
        v.push(a(*r.pick(&[200u64, 250]), fl, "opq", Term::bytes(&vec![0xab; n])));
    }
    v
}

pub(crate) fn g_pfx_bytes(r: &mut Rng, v6: bool) -> Vec<u8> {
    if v6 {
        let mask = *r.pick(&[0u8, 1, 32, 48, 63, 64, 65, 127, 128]);
        let mut b = vec![mask];
        let full = [0x20, 0x01, 0x0d, 0xb8, 0, r.below(3) as u8, 0, 0, 0, 0, 0, 0, 0, 0, 0, r.below(3) as u8];
        b.extend_from_slice(&full[..(mask as usize).div_ceil(8)]);
        b
    } else {
        let mask = *r.pick(&[0u8, 1, 7, 8, 9, 16, 24, 24, 24, 25, 31, 32]);
        let mut b = vec![mask];
        let full = [10, r.below(3) as u8, r.below(4) as u8, r.below(2) as u8 * 128];
        b.extend_from_slice(&full[..(mask as usize).div_ceil(8)]);
        b
    }
}

pub(crate) fn g_nh(r: &mut Rng, v6: bool) -> Term {
    if v6 {
        if r.chance(1, 4) {
            let mut b = v6s(0).to_vec();
            b.extend_from_slice(&v6s(2));
            Term::bytes(&b)
        } else {
            Term::bytes(&v6s(r.below(3)))
        }
    } else {
        Term::bytes(&pick_v4(r))
    }
}

/// UPDATEs of the families without public NLRI constructors (VPNv4, labeled IPv4, flowspec IPv4, EVPN): wire NLRI
/// from a small pool, 1..3 entries, next hop as the family wants it.
pub(crate) fn g_update_other(r: &mut Rng) -> Term {
    let rd = [0u8, 0, 0xfd, 0xe9, 0, 0, 0, 1];
    let k = r.below(4);
    let fam = [Family::IPV4_VPN, Family::IPV4_MPLS, Family::IPV4_FLOWSPEC, Family::L2VPN_EVPN][k as usize];
    let mk = |i: u8| -> Vec<u8> {
        match k {
            0 => {
                let mut b = vec![112, 0, 6, 0x41];
                b.extend_from_slice(&rd);
                b.extend_from_slice(&[10, 1, i]);
                b
            }
            1 => vec![48, 0, 6, 0x41, 10, 2, i],
            2 => vec![5, 1, 24, 10, 3, i],
            _ => {
                let mut b = vec![3, 17];
                b.extend_from_slice(&rd);
                b.extend_from_slice(&[0, 0, 0, i, 32, 10, 0, 0, 1]);
                b
            }
        }
    };
    let n = 1 + r.below(3) as u8;
    let ap = k != 2 && r.chance(1, 3);
    let wd = r.chance(1, 4);
    let ents: Vec<Term> = (0..n)
        .map(|i| {
            let mut b = mk(i);
            if wd && k == 1 {
                // a withdrawn labeled prefix as the decoder stores it (RFC 8277 §2.4: the label is not significant)
                b[1..4].copy_from_slice(&[0, 0, 1]);
            }
            Term::list(vec![Term::nat(if ap { 1 + i as u32 } else { 0 }), Term::bytes(&b)])
        })
        .collect();
    if wd {
        return Term::tag("unreach", vec![Term::nat(fam_num(fam)), Term::list(ents)]);
    }
    let nh = if k == 2 { Term::atom("none") } else { Term::bytes(&pick_v4(r)) };
    Term::tag("reach", vec![Term::nat(fam_num(fam)), Term::list(ents), nh, Term::list(g_attrs(r, 0))])
}

/// An UPDATE content term. `n` entries.
pub(crate) fn g_update(r: &mut Rng, tier_big: bool) -> Term {
    if r.chance(1, 7) {
        return g_update_other(r);
    }
    let fam = *r.pick(&[Family::IPV4, Family::IPV4, Family::IPV6, Family::IPV6, Family::IPV4_MC, Family::IPV6_MC]);
    let v6 = fam.afi() == 2;
    let kind = r.below(10);
    if kind == 0 {
        return Term::tag("eor", vec![Term::nat(fam_num(fam))]);
    }
    // how many NLRI: mostly few; sometimes around / beyond what one 4096-byte frame holds
    // (the embedded codec uses the 65535-byte limit: one frame holds ~16000 IPv4 /24 or ~9300 IPv6 /48 NLRI
    //  without add-path; more than that is split into several frames = several records)
    let n = match r.below(if tier_big { 12 } else { 40 }) {
        0 => 0,
        1 => (500 + r.below(700)) as usize,
        2 if tier_big && r.chance(1, 30) => (16300 + r.below(600)) as usize,
        2 if tier_big => (1500 + r.below(1500)) as usize,
        3 | 4 => 20,
        _ => 1 + r.below(4) as usize,
    };
    let mut ents = vec![];
    for i in 0..n {
        let pid = if r.chance(1, 2) { 0 } else { r.below(3) as u32 + 1 };
        let mut b = g_pfx_bytes(r, v6);
        if n > 50 {
            // distinct /24s or /48s so that big updates are not degenerate
            b = if v6 {
                vec![48, 0x20, 0x01, 0x0d, 0xb8, (i >> 8) as u8, i as u8]
            } else {
                vec![24, 10, (i >> 8) as u8, i as u8]
            };
        }
        ents.push(Term::list(vec![Term::nat(pid), Term::bytes(&b)]));
    }
    if kind <= 3 {
        return Term::tag("unreach", vec![Term::nat(fam_num(fam)), Term::list(ents)]);
    }
    let nh = if r.chance(1, 60) {
        Term::atom("none")
    } else {
        let mixed = r.chance(1, 8);
        g_nh(r, v6 != mixed)
    };
    let big = if r.chance(1, 50) { *r.pick(&[3000usize, 4000, 4040, 4100, 5000]) } else { 0 };
    Term::tag("reach", vec![Term::nat(fam_num(fam)), Term::list(ents), nh, Term::list(g_attrs(r, big))])
}

pub(crate) fn g_open(r: &mut Rng) -> Term {
    let asn = *r.pick(&[1u32, 65001, 65002, 65536, 4200000001]);
    let mut caps = vec![];
    if asn > 65535 || r.chance(2, 3) {
        caps.push(Term::tag("as4", vec![Term::nat(asn)]));
    }
    let f4 = Term::nat(fam_num(Family::IPV4));
    let f6 = Term::nat(fam_num(Family::IPV6));
    if r.chance(2, 3) {
        caps.push(Term::tag("mp", vec![f4.clone()]));
    }
    if r.chance(1, 2) {
        caps.push(Term::tag("mp", vec![f6.clone()]));
    }
    if r.chance(1, 2) {
        caps.push(Term::atom("rr"));
    }
    if r.chance(1, 4) {
        caps.push(Term::atom("extmsg"));
    }
    if r.chance(1, 4) {
        caps.push(Term::atom("err-rr"));
    }
    if r.chance(1, 3) {
        caps.push(Term::tag(
            "addpath",
            vec![Term::list(vec![f4.clone(), Term::nat(1 + r.below(3))]), Term::list(vec![f6.clone(), Term::nat(1 + r.below(3))])],
        ));
    }
    if r.chance(1, 4) {
        caps.push(Term::tag("gr", vec![Term::nat(r.below(16)), Term::nat(r.below(4096)), Term::list(vec![f4.clone(), Term::nat(128u8)])]));
    }
    if r.chance(1, 6) {
        caps.push(Term::tag("llgr", vec![Term::list(vec![f4.clone(), Term::nat(128u8), Term::nat(3600u32)])]));
    }
    if r.chance(1, 6) {
        caps.push(Term::tag("enh", vec![Term::list(vec![f4.clone(), Term::nat(2u8)])]));
    }
    if r.chance(1, 6) {
        caps.push(Term::tag("fqdn", vec![Term::bytes(b"router1"), Term::bytes(b"example.net")]));
    }
    if r.chance(1, 6) {
        let n = *r.pick(&[0usize, 1, 40, 200]);
        caps.push(Term::tag("unk", vec![Term::nat(*r.pick(&[99u8, 128, 255])), Term::bytes(&vec![7u8; n])]));
    }
    if r.chance(1, 40) {
        // more than 255 bytes of capabilities (the embedded OPEN encoder's u8 length arithmetic)
        caps.push(Term::tag("unk", vec![Term::nat(131u8), Term::bytes(&vec![1u8; 250])]));
        caps.push(Term::tag("unk", vec![Term::nat(132u8), Term::bytes(&vec![2u8; 250])]));
    }
    let rid = u32::from_be_bytes(*r.pick(&[[10u8, 0, 0, 1], [10, 0, 0, 2], [1, 1, 1, 1], [192, 168, 0, 1]]));
    Term::tag("open", vec![Term::nat(asn), Term::nat(*r.pick(&[0u16, 3, 90, 180, 65535])), Term::nat(rid), Term::tag("caps", caps)])
}

pub(crate) const NOTIFS: [(u8, u8); 12] = [(1, 2), (2, 2), (2, 6), (3, 1), (4, 0), (5, 3), (6, 2), (6, 4), (6, 7), (6, 9), (7, 1), (9, 9)];
pub(crate) fn g_notif(r: &mut Rng) -> Term {
    let (c, s) = *r.pick(&NOTIFS);
    let n = bgp::Notification::from_notification(c, s, vec![0x5a; *r.pick(&[0usize, 0, 2, 64])]);
    msg_term(&bgp::Message::Notification(n))
}

pub(crate) fn q() -> Term {
    Term::atom("?")
}

pub(crate) fn g_rec(r: &mut Rng, big: bool) -> Term {
    match r.below(20) {
        0..=6 => {
            let mut h = g_hdr(r);
            let mon = if r.chance(1, 60) { r.pick(&[Term::atom("keepalive"), Term::tag("rr", vec![Term::nat(65537u32)])]).clone() } else { g_update(r, big) };
            let ap = if r.chance(1, 3) { "t" } else { "f" };
            // Loc-RIB headers go with add-path off in the daemon; keep both in the stream anyway
            if r.chance(1, 10) {
                h = g_hdr(r);
            }
            Term::tag("bmp-rm", vec![h, Term::atom(ap), q(), mon])
        }
        7 | 8 => {
            let h = g_hdr(r);
            // the local address is of the peer's family (one TCP session); a mismatch (outside the domain) only rarely
            let peer_v6 = h.as_list().and_then(|l| l.get(4)).and_then(|a| a.head()).map(|k| k == "v6").unwrap_or(false);
            let v6 = if r.chance(1, 12) { !peer_v6 } else { peer_v6 };
            Term::tag(
                "bmp-up",
                vec![h, g_ip(r, v6), Term::nat(*r.pick(&[0u16, 179, 65535])), Term::nat(*r.pick(&[0u16, 179, 12345])), q(), g_open(r), g_open(r)],
            )
        }
        9 | 10 => {
            let h = g_hdr(r);
            let reason = match r.below(6) {
                0 => Term::tag("local-notif", vec![q(), g_notif(r)]),
                1 => Term::tag("remote-notif", vec![q(), g_notif(r)]),
                2 | 3 => Term::tag("local-fsm", vec![Term::nat(*r.pick(&[0u16, 0, 1, 65535]))]),
                4 => Term::atom("remote-unexpected"),
                _ => Term::atom("deconfigured"),
            };
            Term::tag("bmp-down", vec![h, reason])
        }
        11 => {
            let n = r.below(4);
            let mut v = vec![];
            for _ in 0..n {
                let len = *r.pick(&[0usize, 7, 8, 255, 256]);
                v.push(Term::list(vec![Term::nat(*r.pick(&[0u16, 1, 2, 65535])), Term::bytes(&vec![0x41; len])]));
            }
            if big && r.chance(1, 20) {
                v.push(Term::list(vec![Term::nat(1u16), Term::bytes(&vec![0x42; *r.pick(&[65535usize, 65536])])]));
            }
            Term::tag("bmp-init", v)
        }
        12 => Term::atom(*r.pick(&["bmp-stats", "bmp-term", "bmp-mirror"])),
        13..=16 => {
            let v6 = r.chance(1, 2);
            let lv6 = if r.chance(1, 25) { !v6 } else { v6 };
            let asn4 = if r.chance(1, 25) { "f" } else { "t" };
            let mph = Term::tag(
                "mph",
                vec![Term::nat(*r.pick(&ASNS)), Term::nat(*r.pick(&ASNS)), Term::nat(*r.pick(&[0u16, 0, 7, 65535])), g_ip(r, v6), g_ip(r, lv6), Term::atom(asn4)],
            );
            let ap = if r.chance(1, 3) { "t" } else { "f" };
            Term::tag("mrt-mp", vec![mph, Term::atom(ap), q(), g_update(r, big)])
        }
        _ => g_td(r, big).remove(0),
    }
}

pub(crate) fn g_ent(r: &mut Rng, v6: bool, npeers: usize, big: bool) -> Term {
    let pidx = if npeers > 0 && !r.chance(1, 60) { r.below(npeers as u64) } else { *r.pick(&[0u64, 5, 65535]) };
    let nh = if r.chance(1, 10) {
        Term::atom("none")
    } else {
        let mixed = r.chance(1, 10);
        g_nh(r, v6 != mixed)
    };
    let mut attrs = if r.chance(1, 12) { vec![] } else { g_attrs(r, 0) };
    let nh_attr = if let Some(b) = nh.as_bytes() { b.len() + if v6 { 4 } else { 3 } } else { 0 };
    if r.chance(1, if big { 20 } else { 250 }) {
        // an attribute block of exactly 65535 / 65536 / 65534 bytes (opaque attribute with extended length)
        let cur: usize = attrs.iter().map(|a| attr_of(a).map(|x| x.encode_to_bytes().len()).unwrap_or(0)).sum::<usize>() + nh_attr;
        let target = *r.pick(&[65535usize, 65535, 65534, 65536]);
        if target >= cur + 4 + 256 {
            let n = target - cur - 4;
            attrs.push(Term::list(vec![Term::nat(201u8), Term::nat(0xd0u8), Term::atom("opq"), Term::bytes(&vec![0xcd; n])]));
        }
    }
    Term::tag("ent", vec![Term::nat(pidx), Term::nat(*r.pick(&TSS)), if r.chance(1, 12) && attrs.is_empty() { Term::atom("none") } else { nh }, Term::list(attrs)])
}

/// A TABLE_DUMP_V2 dump: PEER_INDEX_TABLE followed by RIB records.
pub(crate) fn g_td(r: &mut Rng, big: bool) -> Vec<Term> {
    let ts = *r.pick(&TSS);
    let npeers = match r.below(8) {
        0 => 0,
        1 if r.chance(1, 3) => 12 + r.below(if big { 300 } else { 40 }) as usize,
        _ => 1 + r.below(3) as usize,
    };
    let mut peers = vec![Term::nat(ts), Term::bytes(&pick_v4(r))];
    for _ in 0..npeers {
        let v6 = r.chance(1, 2);
        peers.push(Term::tag("peer", vec![Term::bytes(&pick_v4(r)), g_ip(r, v6), Term::nat(*r.pick(&ASNS))]));
    }
    let mut out = vec![Term::tag("td-peers", peers)];
    let nrec = r.below(4);
    for seq in 0..nrec {
        let v6 = r.chance(1, 2);
        let (mask, addr) = if v6 {
            (*r.pick(&[0u8, 1, 32, 48, 63, 64, 65, 127, 128]), v6s(r.below(2)).to_vec())
        } else {
            (*r.pick(&[0u8, 1, 7, 8, 9, 24, 25, 31, 32]), pick_v4(r).to_vec())
        };
        let mask = if r.chance(1, 40) { *r.pick(&[33u8, 129, 255]) } else { mask };
        let nent = match r.below(8) {
            0 => 0,
            1 => 5 + r.below(10) as usize,
            _ => 1 + r.below(3) as usize,
        };
        let mut v = vec![
            Term::atom(if v6 { "t" } else { "f" }),
            Term::nat(ts),
            Term::nat(if r.chance(1, 10) { u32::MAX } else { seq as u32 }),
            Term::tag("pfx", vec![Term::nat(mask), Term::bytes(&addr)]),
        ];
        for _ in 0..nent {
            v.push(g_ent(r, v6, npeers, big));
        }
        out.push(Term::tag("td-rib", v));
    }
    out
}

pub(crate) fn g_case(r: &mut Rng, tier: &str) -> Vec<Term> {
    let big = tier == "thorough";
    match r.below(10) {
        0 | 1 => g_td(r, big),
        2..=5 => vec![g_rec(r, big)],
        _ => {
            let n = 2 + r.below(3);
            (0..n).map(|_| g_rec(r, big)).collect()
        }
    }
}

