// harness module for C14 (not written yet)
