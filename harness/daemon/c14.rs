// Verification harness for C14, daemon half: the holders of policy objects OUTSIDE `PolicyTable` —
// the copies published in `TableManager.{import_policy, export_policy}` and every peer's
// `PeerState.export_policy` override — driven through the REAL daemon entry points:
//   the gRPC handlers of the real `GrpcService` for every policy call (add/delete defined set,
//   statement, policy, policy assignment; set_policy_assignment, set_policies, delete_peer),
//   Global::add_peer for peers (the gRPC AddPeer would start connecting), and `global.ptable`
//   directly only for the statements an `api::Statement` cannot say.
// Compiled into rustybgpd's unit-test binary only with `--cfg osrg_rustybgp_verif` and
// `--cfg verif_c14` (or verif_all).  Grand-child of `crate::event`.
//
// Two case kinds on one stream (lean/Rbgp/Policy/Codec.lean, DCodec.lean):
//   (case  (probes R*) (ops OP*))               table level, identical to the pt harness
//   (dcase (probes R*) (peers A*) (dops DOP*))  daemon level
// After EVERY call: the table listing, and for every holder (published import, published export,
// each peer's override) the assignment it holds and the result of every probe through it.
#![allow(dead_code, unused_imports)]

use super::super::*;

#[path = "/verif/harness/common/sexp.rs"]
mod sexp;
use sexp::Term;

#[path = "/verif/harness/common/c14_table.rs"]
mod tbl;
use tbl::*;

use crate::api::go_bgp_service_server::GoBgpService;

fn peer_params(remote_addr: IpAddr, export_policy: Option<(table::Disposition, Vec<String>)>) -> PeerParams {
    PeerParams {
        remote_addr,
        remote_port: Global::BGP_PORT,
        expected_remote_asn: 0,
        local_asn: 0,
        passive: true,
        rs_client: false,
        route_reflector: RouteReflectorConfig::default(),
        delete_on_disconnected: false,
        admin_down: false,
        state: SessionState::Idle,
        holdtime: PeerParams::DEFAULT_HOLD_TIME,
        connect_retry_time: PeerParams::DEFAULT_CONNECT_RETRY_TIME,
        multihop_ttl: None,
        ttl_security: None,
        password: None,
        families: FnvHashMap::default(),
        send_max: FnvHashMap::default(),
        prefix_limits: FnvHashMap::default(),
        graceful_restart: None,
        llgr: None,
        bfd_config: None,
        neighbor_interface: None,
        bind_interface: None,
        export_policy,
    }
}

/// The same the way the configuration file yields it: a `[[neighbors]]` entry (TOML text) through the
/// real deserializer and the real `PeerParams::try_from(&config::Neighbor)`, which reads the peer's
/// export policy from `apply-policy.config` (`pass` cannot be said there: None).
fn peer_params_cfg(addr: IpAddr, ep: &Option<(table::Disposition, Vec<String>)>) -> Option<Option<PeerParams>> {
    let mut s = format!("[config]\nneighbor-address = \"{}\"\npeer-as = 65002\n[transport.config]\npassive-mode = true\n", addr);
    if let Some((d, names)) = ep {
        s += "[apply-policy.config]\n";
        s += &format!("export-policy-list = [{}]\n", names.iter().map(|n| format!("\"{}\"", n)).collect::<Vec<_>>().join(", "));
        match d {
            table::Disposition::Reject => s += "default-export-policy = \"reject-route\"\n",
            // an absent default means accept
            table::Disposition::Accept if names.len() % 2 == 1 => s += "default-export-policy = \"accept-route\"\n",
            table::Disposition::Accept => {}
            table::Disposition::Pass => return Some(None),
        }
    }
    let n: rustybgp_config::generate::Neighbor = toml::from_str(&s).ok()?;
    Some(Some(PeerParams::try_from(&n).ok()?))
}

fn err_of(e: &Error) -> Term {
    let k = match e {
        Error::InvalidArgument(_) | Error::EmptyArgument => "invalid",
        Error::AlreadyExists(_) => "exists",
        Error::Table(table::TableError::InvalidArgument(_)) => "invalid",
        Error::Table(table::TableError::AlreadyExists(_)) => "exists",
        Error::Table(table::TableError::NotFound) => "notfound",
        Error::Table(table::TableError::StillInUse(_)) => "inuse",
        _ => "other",
    };
    Term::tag("err", vec![Term::atom(k)])
}
fn dres<T>(r: &Result<T, Error>) -> Term {
    match r {
        Ok(_) => Term::atom("ok"),
        Err(e) => err_of(e),
    }
}
fn status_res<T>(r: &Result<T, tonic::Status>) -> Term {
    match r {
        Ok(_) => Term::atom("ok"),
        Err(s) => {
            if std::env::var("VERIF_DEBUG").is_ok() {
                eprintln!("status: {:?} {}", s.code(), s.message());
            }
            Term::tag(
            "err",
            vec![Term::atom(match s.code() {
                tonic::Code::InvalidArgument => "invalid",
                tonic::Code::AlreadyExists => "exists",
                tonic::Code::NotFound => "notfound",
                tonic::Code::FailedPrecondition => "inuse",
                _ => "other",
            })],
        )}
    }
}

/// holder name: `global` or a peer address
fn holder_of(t: &Term) -> Option<(String, Option<IpAddr>)> {
    if t.as_atom() == Some("global") {
        return Some(("global".to_string(), None));
    }
    let a = addr_of(t)?;
    Some((a.to_string(), Some(a)))
}

/// the name of a live assignment, canonical: a peer address prints as `@4:N` / `@6:N`
fn canon_name(n: &str) -> String {
    match n.parse::<IpAddr>() {
        Ok(IpAddr::V4(a)) => format!("@4:{}", u32::from(a)),
        Ok(IpAddr::V6(a)) => format!("@6:{}", u128::from(a)),
        Err(_) => n.to_string(),
    }
}
fn hasg_t(a: &table::PolicyAssignment) -> Term {
    Term::tag(
        "asg",
        vec![
            Term::atom(canon_name(a.name.as_ref())),
            disp_t(a.disposition),
            Term::list(a.policies.iter().map(|p| Term::atom(p.name.as_ref())).collect()),
            Term::boolean(a.needs_rpki),
        ],
    )
}

fn api_dir(d: table::PolicyDirection) -> i32 {
    match d {
        table::PolicyDirection::Import => api::PolicyDirection::Import as i32,
        table::PolicyDirection::Export => api::PolicyDirection::Export as i32,
    }
}
fn api_action(d: table::Disposition) -> i32 {
    match d {
        table::Disposition::Accept => api::RouteAction::Accept as i32,
        table::Disposition::Reject => api::RouteAction::Reject as i32,
        table::Disposition::Pass => 0,
    }
}
fn api_assignment(name: &str, dir: table::PolicyDirection, dflt: table::Disposition, pols: &[String]) -> api::PolicyAssignment {
    api::PolicyAssignment {
        name: name.to_string(),
        direction: api_dir(dir),
        policies: pols.iter().map(|p| api::Policy { name: p.clone(), statements: Vec::new() }).collect(),
        default_action: api_action(dflt),
    }
}

fn api_policy(name: &str, stmts: &[String]) -> api::Policy {
    api::Policy {
        name: name.to_string(),
        statements: stmts.iter().map(|n| api::Statement { name: n.clone(), conditions: None, actions: None }).collect(),
    }
}

// ---- SetPolicies payload from the flat op list (set-add* ; (stmt-add | pol-add)* ; asg-add*)
fn api_match_set(name: &str, o: &str) -> Option<api::MatchSet> {
    Some(api::MatchSet {
        name: name.to_string(),
        r#type: match o {
            "any" => 0,
            "all" => 1,
            "invert" => 2,
            _ => return None,
        },
    })
}

/// The converters read `MatchSet.type` and `Comparison` as 0/1/2 (any/all/invert, eq/ge/le) although
/// api/proto/gobgp.proto numbers them 1/2/3 after an UNSPECIFIED = 0; the harness speaks the
/// numbering the daemon implements (reported separately, it belongs to the API conversions).
fn api_cmp(c: &str) -> Option<i32> {
    Some(match c {
        "eq" => 0,
        "ge" => 1,
        "le" => 2,
        _ => return None,
    })
}

/// conditions the message can carry, in the order `conditions_from_api` emits them
fn api_conditions(conds: &[Term]) -> Option<api::Conditions> {
    let mut c = api::Conditions::default();
    // `conditions_from_api` rejects the proto default (UNSPECIFIED = 0) as "invalid rpki condition";
    // say NONE explicitly, as `statement_to_api` does
    c.rpki_result = api::ValidationState::None as i32;
    let mut last = -1i32;
    for t in conds {
        let l = t.as_list()?;
        let k = l.first()?.as_atom()?;
        let idx: i32;
        match (k, l.len()) {
            ("cset", 4) => {
                let name = l[2].as_atom()?;
                let ms = api_match_set(name, l[3].as_atom()?)?;
                match l[1].as_atom()? {
                    "prefix" => {
                        idx = 0;
                        c.prefix_set = Some(ms)
                    }
                    "neighbor" => {
                        idx = 1;
                        c.neighbor_set = Some(ms)
                    }
                    "aspath" => {
                        idx = 2;
                        c.as_path_set = Some(ms)
                    }
                    "comm" => {
                        idx = 4;
                        c.community_set = Some(ms)
                    }
                    "ext" => {
                        idx = 5;
                        c.ext_community_set = Some(ms)
                    }
                    "large" => {
                        idx = 6;
                        c.large_community_set = Some(ms)
                    }
                    _ => return None,
                }
            }
            ("aslen", 3) => {
                idx = 3;
                c.as_path_length = Some(api::AsPathLength { r#type: api_cmp(l[1].as_atom()?)?, length: u32_of(&l[2])? })
            }
            ("nexthop", n) if n >= 2 => {
                idx = 7;
                c.next_hop_in_list = l[1..].iter().map(|a| addr_of(a).map(|x| x.to_string())).collect::<Option<Vec<_>>>()?
            }
            ("rpki", 2) => {
                idx = 8;
                c.rpki_result = match l[1].as_atom()? {
                    "nf" => api::ValidationState::NotFound as i32,
                    "valid" => api::ValidationState::Valid as i32,
                    "invalid" => api::ValidationState::Invalid as i32,
                    _ => return None,
                }
            }
            ("origin", 2) => {
                idx = 11;
                c.origin = match u8_of(&l[1])? {
                    0 => api::OriginType::Igp as i32,
                    1 => api::OriginType::Egp as i32,
                    2 => api::OriginType::Incomplete as i32,
                    _ => return None,
                }
            }
            ("rtype", 2) => {
                idx = 12;
                c.route_type = match l[1].as_atom()? {
                    "internal" => api::conditions::RouteType::Internal as i32,
                    "external" => api::conditions::RouteType::External as i32,
                    "local" => api::conditions::RouteType::Local as i32,
                    _ => return None,
                }
            }
            ("ccount", 3) => {
                idx = 13;
                c.community_count = Some(api::CommunityCount { r#type: api_cmp(l[1].as_atom()?)?, count: u32_of(&l[2])? })
            }
            ("afi", n) if n >= 2 => {
                idx = 14;
                let mut v = Vec::new();
                for f in &l[1..] {
                    let p = f.as_list()?;
                    if p.len() != 2 {
                        return None;
                    }
                    v.push(api::Family { afi: nat_of(&p[0])? as i32, safi: nat_of(&p[1])? as i32 });
                }
                c.afi_safi_in = v
            }
            ("lpeq", 2) => {
                idx = 9;
                c.local_pref_eq = Some(api::LocalPrefEq { value: u32_of(&l[1])? })
            }
            ("medeq", 2) => {
                idx = 10;
                c.med_eq = Some(api::MedEq { value: u32_of(&l[1])? })
            }
            _ => return None,
        }
        if idx <= last {
            return None;
        }
        last = idx;
    }
    Some(c)
}

fn api_cat(c: &str) -> Option<i32> {
    Some(match c {
        "add" => api::community_action::Type::Add as i32,
        "remove" => api::community_action::Type::Remove as i32,
        "replace" => api::community_action::Type::Replace as i32,
        _ => return None,
    })
}

fn api_actions(disp: &Term, acts: &Term) -> Option<api::Actions> {
    let mut a = api::Actions::default();
    a.route_action = match disp.as_atom()? {
        "none" => 0,
        "accept" => api::RouteAction::Accept as i32,
        "reject" => api::RouteAction::Reject as i32,
        _ => return None,
    };
    for it in acts.as_list()? {
        let l = it.as_list()?;
        let k = l.first()?.as_atom()?;
        match (k, l.len()) {
            ("nh", 2) => {
                let mut n = api::NexthopAction::default();
                if let Some(x) = l[1].tagged("addr") {
                    if x.len() != 1 {
                        return None;
                    }
                    n.address = addr_of(&x[0])?.to_string();
                } else {
                    match l[1].as_atom()? {
                        "self" => n.self_ = true,
                        "peer" => n.peer_address = true,
                        "unchanged" => n.unchanged = true,
                        _ => return None,
                    }
                }
                a.nexthop = Some(n)
            }
            ("comm", 3) => {
                a.community = Some(api::CommunityAction {
                    r#type: api_cat(l[1].as_atom()?)?,
                    communities: l[2].as_list()?.iter().map(|c| u32_of(c).map(|v| format!("{}:{}", v >> 16, v & 0xffff))).collect::<Option<Vec<_>>>()?,
                })
            }
            ("prep", 4) => a.as_prepend = Some(api::AsPrependAction { asn: u32_of(&l[1])?, repeat: u32_of(&l[2])?, use_left_most: l[3].as_bool()? }),
            ("large", 3) => {
                let mut v = Vec::new();
                for c in l[2].as_list()? {
                    let p = c.as_list()?;
                    if p.len() != 3 {
                        return None;
                    }
                    v.push(format!("{}:{}:{}", u32_of(&p[0])?, u32_of(&p[1])?, u32_of(&p[2])?));
                }
                a.large_community = Some(api::CommunityAction { r#type: api_cat(l[1].as_atom()?)?, communities: v })
            }
            ("origin", 2) => {
                a.origin_action = Some(api::OriginAction {
                    origin: match u8_of(&l[1])? {
                        0 => api::OriginType::Igp as i32,
                        1 => api::OriginType::Egp as i32,
                        2 => api::OriginType::Incomplete as i32,
                        _ => return None,
                    },
                })
            }
            ("lp", 2) => a.local_pref = Some(api::LocalPrefAction { value: u32_of(&l[1])? }),
            ("med", 3) => {
                a.med = Some(api::MedAction {
                    r#type: match l[1].as_atom()? {
                        "mod" => api::med_action::Type::Mod as i32,
                        "replace" => api::med_action::Type::Replace as i32,
                        _ => return None,
                    },
                    value: i64_of(&l[2])?,
                })
            }
            _ => return None,
        }
    }
    Some(a)
}

fn api_defined_set(a: &[Term]) -> Option<api::DefinedSet> {
    // (set-add K name (elems))
    if a.len() != 3 {
        return None;
    }
    let cfg = set_config_of(a[0].as_atom()?, name_of(&a[1])?, a[2].as_list()?)?;
    use table::DefinedSetConfig as D;
    Some(match cfg {
        D::Prefix { name, prefixes } => api::DefinedSet {
            defined_type: api::DefinedType::Prefix as i32,
            name,
            list: Vec::new(),
            prefixes: prefixes
                .into_iter()
                .map(|p| api::Prefix { ip_prefix: p.ip_prefix, mask_length_min: p.mask_length_min as u32, mask_length_max: p.mask_length_max as u32 })
                .collect(),
        },
        D::Neighbor { name, neighbors } => api::DefinedSet { defined_type: api::DefinedType::Neighbor as i32, name, list: neighbors, prefixes: Vec::new() },
        D::AsPath { name, patterns } => api::DefinedSet { defined_type: api::DefinedType::AsPath as i32, name, list: patterns, prefixes: Vec::new() },
        D::Community { name, patterns } => api::DefinedSet { defined_type: api::DefinedType::Community as i32, name, list: patterns, prefixes: Vec::new() },
        D::ExtCommunity { name, patterns } => api::DefinedSet { defined_type: api::DefinedType::ExtCommunity as i32, name, list: patterns, prefixes: Vec::new() },
        D::LargeCommunity { name, patterns } => api::DefinedSet { defined_type: api::DefinedType::LargeCommunity as i32, name, list: patterns, prefixes: Vec::new() },
    })
}

fn set_policies_request(ops: &[Term]) -> Option<api::SetPoliciesRequest> {
    let mut req = api::SetPoliciesRequest::default();
    let mut stmts: Vec<(String, api::Statement, bool)> = Vec::new();
    let mut phase = 0;
    for op in ops {
        let l = op.as_list()?;
        let k = l.first()?.as_atom()?;
        let a = &l[1..];
        match (k, a.len()) {
            ("set-add", 3) if phase == 0 => req.defined_sets.push(api_defined_set(a)?),
            ("stmt-add", 4) if phase <= 1 => {
                phase = 1;
                let name = name_of(&a[0])?;
                if stmts.iter().any(|s| s.0 == name) {
                    return None;
                }
                if !(a[1].as_list()?.iter().all(|c| cond_of(c).is_some()) && actions_of(&a[3]).is_some()) {
                    return None;
                }
                let st = api::Statement { name: name.clone(), conditions: Some(api_conditions(a[1].as_list()?)?), actions: Some(api_actions(&a[2], &a[3])?) };
                stmts.push((name, st, false));
            }
            ("pol-add", 2) if phase <= 1 => {
                phase = 1;
                let mut v = Vec::new();
                for n in names_of(&a[1])? {
                    let s = stmts.iter_mut().find(|s| s.0 == n)?;
                    s.2 = true;
                    v.push(s.1.clone());
                }
                req.policies.push(api::Policy { name: name_of(&a[0])?, statements: v });
            }
            ("asg-add", 4) => {
                phase = 2;
                let d = dir_of(&a[0])?;
                req.assignments.push(api_assignment("global", d, disp_of(&a[2])?, &names_of(&a[3])?));
                if a[1].as_atom()? != "global" {
                    return None;
                }
            }
            _ => return None,
        }
    }
    // a statement no policy lists would silently not be part of the message
    if stmts.iter().any(|s| !s.2) {
        return None;
    }
    Some(req)
}

struct World {
    svc: GrpcService,
    global: GlobalHandle,
    tables: TableHandle,
}

/// Some(result) or None = ill-formed op
async fn exec_dop(w: &World, t: &Term) -> Option<Term> {
    let l = t.as_list()?;
    let k = l.first()?.as_atom()?;
    let a = &l[1..];
    Some(match (k, a.len()) {
        ("tbl", 1) => {
            // through the real gRPC handler whenever the call can be said in an API message;
            // otherwise (condition order / kinds / actions the message cannot carry) on
            // `global.ptable` directly, which is what the handler does after conversion
            let h = a[0].head()?;
            let o = &a[0].as_list()?[1..];
            match (h, o.len()) {
                ("set-add", 3) | ("set-replace", 3) => {
                    let ds = api_defined_set(o)?;
                    status_res(&w.svc.add_defined_set(tonic::Request::new(api::AddDefinedSetRequest { defined_set: Some(ds), replace: h == "set-replace" })).await)
                }
                ("set-del", 4) => {
                    let ds = api_defined_set(&[o[0].clone(), o[1].clone(), o[3].clone()])?;
                    status_res(&w.svc.delete_defined_set(tonic::Request::new(api::DeleteDefinedSetRequest { defined_set: Some(ds), all: o[2].as_bool()? })).await)
                }
                ("stmt-add", 4) if !(o[1].as_list()?.iter().all(|c| cond_of(c).is_some()) && odisp_of(&o[2]).is_some() && actions_of(&o[3]).is_some()) => return None,
                ("stmt-del", 5) if !(o[2].as_list()?.iter().all(|c| cond_of(c).is_some()) && odisp_of(&o[3]).is_some() && actions_of(&o[4]).is_some() && o[1].as_bool().is_some()) => return None,
                ("stmt-add", 4) => match (api_conditions(o[1].as_list()?), api_actions(&o[2], &o[3])) {
                    (Some(c), Some(ac)) if !o[3].as_list()?.is_empty() || o[2].as_atom() != Some("none") || !o[1].as_list()?.is_empty() => {
                        if std::env::var("VERIF_DEBUG").is_ok() {
                            eprintln!("add_statement via handler");
                        }
                        let st = api::Statement { name: name_of(&o[0])?, conditions: Some(c), actions: Some(ac) };
                        status_res(&w.svc.add_statement(tonic::Request::new(api::AddStatementRequest { statement: Some(st) })).await)
                    }
                    _ => exec_op(&mut w.global.write().await.ptable, &a[0])?,
                },
                ("stmt-del", 5) => match (api_conditions(o[2].as_list()?), api_actions(&o[3], &o[4])) {
                    (Some(c), Some(ac)) => {
                        let st = api::Statement { name: name_of(&o[0])?, conditions: Some(c), actions: Some(ac) };
                        status_res(&w.svc.delete_statement(tonic::Request::new(api::DeleteStatementRequest { statement: Some(st), all: o[1].as_bool()? })).await)
                    }
                    _ => exec_op(&mut w.global.write().await.ptable, &a[0])?,
                },
                _ => return None,
            }
        }
        // policies and assignments: the real AddPolicy / DeletePolicy / AddPolicyAssignment /
        // DeletePolicyAssignment handlers (message -> Global wrapper -> published copies)
        ("pol-add", 2) => {
            let pol = api_policy(a[0].as_atom()?, &names_of(&a[1])?);
            status_res(&w.svc.add_policy(tonic::Request::new(api::AddPolicyRequest { policy: Some(pol), ..Default::default() })).await)
        }
        ("pol-del", 4) => {
            let pol = api_policy(a[0].as_atom()?, &names_of(&a[3])?);
            status_res(&w.svc.delete_policy(tonic::Request::new(api::DeletePolicyRequest { policy: Some(pol), preserve_statements: a[1].as_bool()?, all: a[2].as_bool()? })).await)
        }
        ("asg-add", 4) => {
            let (name, _) = holder_of(&a[0])?;
            let req = api_assignment(&name, dir_of(&a[1])?, disp_of(&a[2])?, &names_of(&a[3])?);
            status_res(&w.svc.add_policy_assignment(tonic::Request::new(api::AddPolicyAssignmentRequest { assignment: Some(req) })).await)
        }
        ("asg-del", 4) => {
            let (name, _) = holder_of(&a[0])?;
            let req = api_assignment(&name, dir_of(&a[1])?, table::Disposition::Accept, &names_of(&a[3])?);
            status_res(&w.svc.delete_policy_assignment(tonic::Request::new(api::DeletePolicyAssignmentRequest { assignment: Some(req), all: a[2].as_bool()? })).await)
        }
        ("asg-set", 4) => {
            let (name, _) = holder_of(&a[0])?;
            let req = api_assignment(&name, dir_of(&a[1])?, disp_of(&a[2])?, &names_of(&a[3])?);
            status_res(&w.svc.set_policy_assignment(tonic::Request::new(api::SetPolicyAssignmentRequest { assignment: Some(req) })).await)
        }
        ("peer-add", 2) => {
            let addr = addr_of(&a[0])?;
            let ep = if a[1].as_atom() == Some("none") {
                None
            } else {
                let s = a[1].tagged("some")?;
                if s.len() != 2 {
                    return None;
                }
                Some((disp_of(&s[0])?, names_of(&s[1])?))
            };
            // through the configuration-file conversion whenever the default action can be said there
            let params = match peer_params_cfg(addr, &ep)? {
                Some(p) => p,
                None => peer_params(addr, ep),
            };
            dres(&w.global.write().await.add_peer(params, None))
        }
        ("peer-del", 1) => {
            let addr = addr_of(&a[0])?;
            status_res(&w.svc.delete_peer(tonic::Request::new(api::DeletePeerRequest { address: addr.to_string(), ..Default::default() })).await)
        }
        ("set-policies", 1) => {
            let req = set_policies_request(a[0].as_list()?)?;
            status_res(&w.svc.set_policies(tonic::Request::new(req)).await)
        }
        _ => return None,
    })
}

fn holder_t(a: Option<Arc<table::PolicyAssignment>>, dir: i32, routes: &[Route]) -> Term {
    match a {
        None => Term::atom("none"),
        Some(a) => {
            let mut v = vec![hasg_t(&a)];
            v.extend(routes.iter().map(|r| probe_asg(&a, dir, r)));
            Term::list(v)
        }
    }
}

async fn holders(w: &World, routes: &[Route]) -> Vec<Term> {
    let g = w.global.read().await;
    let mut ps: Vec<(u8, u128, IpAddr)> = g
        .peers
        .keys()
        .map(|a| match a {
            IpAddr::V4(x) => (4u8, u32::from(*x) as u128, *a),
            IpAddr::V6(x) => (6u8, u128::from(*x), *a),
        })
        .collect();
    ps.sort();
    let peers: Vec<Term> = ps
        .iter()
        .map(|(_, _, a)| {
            let p = g.peers.get(a).unwrap();
            Term::list(vec![addr_t(a), holder_t(p.state.export_policy.load_full(), 2, routes)])
        })
        .collect();
    vec![
        Term::tag("himp", vec![holder_t(w.tables.import_policy.load_full(), 1, routes)]),
        Term::tag("hexp", vec![holder_t(w.tables.export_policy.load_full(), 2, routes)]),
        Term::tag("hpeers", peers),
    ]
}

async fn run_dcase(t: &Term) -> String {
    let bad = "(bad-case)".to_string();
    let Some(c) = t.tagged("dcase") else { return bad };
    if c.len() != 3 {
        return bad;
    }
    let (Some(pr), Some(peers), Some(ops)) = (c[0].tagged("probes"), c[1].tagged("peers"), c[2].tagged("dops")) else { return bad };
    let Some(routes) = pr.iter().map(route_of).collect::<Option<Vec<Route>>>() else { return bad };
    let Some(addrs) = peers.iter().map(addr_of).collect::<Option<Vec<IpAddr>>>() else { return bad };
    let (tx, _rx) = mpsc::unbounded_channel();
    let (bfd_tx, _bfd_rx) = mpsc::unbounded_channel();
    let mut g = Global::new(tx, bfd_tx);
    g.asn = 65001;
    g.router_id = Ipv4Addr::new(1, 0, 0, 1);
    for a in &addrs {
        let Some(Some(p)) = peer_params_cfg(*a, &None) else { return bad };
        if g.add_peer(p, None).is_err() {
            return bad;
        }
    }
    let global: GlobalHandle = Arc::new(tokio::sync::RwLock::new(g));
    let tables: TableHandle = Arc::new(TableManager::new(1));
    let (atx, _arx) = mpsc::unbounded_channel();
    let w = World { svc: GrpcService::new(Arc::new(tokio::sync::Notify::new()), atx, global.clone(), tables.clone()), global, tables };
    let mut steps = Vec::new();
    let mut prev_dump = String::new();
    for op in ops {
        let Some(res) = exec_dop(&w, op).await else { return bad };
        let d = dump(&w.global.read().await.ptable);
        let ds = d.to_string();
        let dt = if ds == prev_dump { Term::atom("=") } else { d };
        prev_dump = ds;
        let mut v = vec![res, dt];
        v.extend(holders(&w, &routes).await);
        steps.push(Term::tag("dstep", v));
    }
    Term::tag("dobs", steps).to_string()
}

fn run_case(line: &str) -> String {
    let Some(t) = Term::parse(line) else { return "(bad-case)".to_string() };
    match t.head() {
        Some("case") => run_table_case(&t),
        Some("dcase") => {
            let rt = tokio::runtime::Builder::new_current_thread().enable_all().build().unwrap();
            rt.block_on(run_dcase(&t))
        }
        _ => "(bad-case)".to_string(),
    }
}

#[test]
fn verif_main() {
    let (Ok(prop), Ok(inp), Ok(out)) = (std::env::var("VERIF_PROP"), std::env::var("VERIF_IN"), std::env::var("VERIF_OUT")) else {
        return; // not invoked by /verif/check
    };
    if prop != "C14" {
        return;
    }
    std::panic::set_hook(Box::new(|_| {}));
    sexp::run_lines(&inp, &out, |l| {
        let l = l.to_string();
        std::panic::catch_unwind(move || run_case(&l)).unwrap_or_else(|_| "(panic)".into())
    });
}
