// Verification harness module included at the end of daemon/src/rpki.rs under
// cfg(all(test, osrg_rustybgp_verif)).  C13: drives the REAL `RpkiClient::serve_inner` over
// `tokio::io::duplex` with scripted RTR byte streams delivered in arbitrary fragments and
// observes the installed ROAs (`TableManager::collect_roa`), `RpkiState` and the queries the
// client wrote.  Always compiled (not under a verif_cXX sub-cfg).
//
//   case ::= (case (streams (SID CACHE (PDU*))*) (steps STEP*)) | (case-tcp N)
//   PDU  ::= (cr V SESS) | (p4 V FLAGS LEN ML x<8hex> ASN) | (p6 V FLAGS LEN ML x<32hex> ASN)
//          | (eod V SESS SERIAL) | (notify V SESS SERIAL) | (creset V) | (err V CODE x<body>)
//          | (raw V TYPE SESS x<body>) | (junk x<bytes>)
//          | (case-tcp-reset N) | (case-tcp-reconnect N)
//   STEP ::= (start SID) | (send SID N) | (sendq SID N) | (soft SID) | (wfail SID)
//          | (end SID eof|cancel) | (snap)
//          sendq = queue bytes without running the client (must be followed by (end SID eof));
//          wfail = every later write of the client fails
//   obs  ::= (obs SNAP*)
//   SNAP ::= (snap (roas (SID CACHE NET ML ASN)*) (sess (SID SERIAL SESSID RX (Q*))*) (done SID*))
//          a ROA row is labelled with the session whose Arc<IpAddr> it carries (999 = none);
//          RX = sum of the RpkiState receive counters
//   Q    ::= reset | (serial SESS SERIAL)
#![allow(dead_code, unused_imports)]

use super::*;
use std::collections::BTreeMap;
use std::future::Future;
use std::net::Ipv4Addr;
use std::pin::Pin;
use std::sync::atomic::AtomicBool;
use std::task::{Context, Poll, Wake, Waker};

use futures::FutureExt;
use tokio::io::{AsyncReadExt, AsyncWriteExt};

#[path = "/verif/harness/common/sexp.rs"]
mod sexp;
use sexp::Term;

use crate::api;
use crate::table_manager::TableManager;

#[path = "/verif/harness/daemon/rpki_c12.rs"]
mod c12;
// C03 (b-wire): hostile RTR byte streams through the same real client loop
#[path = "/verif/harness/daemon/rpki_c03.rs"]
mod c03;

struct Flag(AtomicBool);
impl Wake for Flag {
    fn wake(self: Arc<Self>) {
        self.0.store(true, Ordering::SeqCst);
    }
}

/// duplex end whose writes can be made to fail
struct FaultIo {
    inner: tokio::io::DuplexStream,
    fail: Arc<AtomicBool>,
}
impl tokio::io::AsyncRead for FaultIo {
    fn poll_read(
        mut self: Pin<&mut Self>,
        cx: &mut Context<'_>,
        buf: &mut tokio::io::ReadBuf<'_>,
    ) -> Poll<std::io::Result<()>> {
        Pin::new(&mut self.inner).poll_read(cx, buf)
    }
}
impl tokio::io::AsyncWrite for FaultIo {
    fn poll_write(mut self: Pin<&mut Self>, cx: &mut Context<'_>, buf: &[u8]) -> Poll<std::io::Result<usize>> {
        if self.fail.load(Ordering::SeqCst) {
            return Poll::Ready(Err(std::io::Error::new(std::io::ErrorKind::BrokenPipe, "injected")));
        }
        Pin::new(&mut self.inner).poll_write(cx, buf)
    }
    fn poll_flush(mut self: Pin<&mut Self>, cx: &mut Context<'_>) -> Poll<std::io::Result<()>> {
        if self.fail.load(Ordering::SeqCst) {
            return Poll::Ready(Err(std::io::Error::new(std::io::ErrorKind::BrokenPipe, "injected")));
        }
        Pin::new(&mut self.inner).poll_flush(cx)
    }
    fn poll_shutdown(mut self: Pin<&mut Self>, cx: &mut Context<'_>) -> Poll<std::io::Result<()>> {
        Pin::new(&mut self.inner).poll_shutdown(cx)
    }
}

struct Sess {
    remote: Option<Arc<IpAddr>>,
    wfail: Arc<AtomicBool>,
    cache: u8,
    stream: Vec<u8>,
    pos: usize,
    fut: Option<Pin<Box<dyn Future<Output = Result<(), Error>>>>>,
    server: Option<tokio::io::DuplexStream>,
    cancel: CancellationToken,
    soft: Arc<Notify>,
    state: Arc<RpkiState>,
    started: bool,
    done: bool,
    from_client: Vec<u8>,
}

impl Sess {
    /// Poll the client until it is blocked with no wake-up pending.
    fn drive(&mut self) {
        let Some(fut) = self.fut.as_mut() else { return };
        if self.done {
            return;
        }
        let flag = Arc::new(Flag(AtomicBool::new(false)));
        let waker = Waker::from(flag.clone());
        let mut cx = Context::from_waker(&waker);
        for _ in 0..100_000 {
            flag.0.store(false, Ordering::SeqCst);
            match fut.as_mut().poll(&mut cx) {
                Poll::Ready(_) => {
                    self.done = true;
                    break;
                }
                Poll::Pending => {
                    if !flag.0.load(Ordering::SeqCst) {
                        break;
                    }
                }
            }
        }
        self.drain();
    }
    /// Collect what the client has written so far.
    fn drain(&mut self) {
        if let Some(s) = self.server.as_mut() {
            let mut buf = [0u8; 4096];
            loop {
                match s.read(&mut buf).now_or_never() {
                    Some(Ok(n)) if n > 0 => self.from_client.extend_from_slice(&buf[..n]),
                    _ => break,
                }
            }
        }
    }
    fn queries(&self) -> Vec<Term> {
        let b = &self.from_client;
        let mut out = Vec::new();
        let mut i = 0;
        while i + 8 <= b.len() {
            let len = u32::from_be_bytes([b[i + 4], b[i + 5], b[i + 6], b[i + 7]]) as usize;
            if len < 8 || i + len > b.len() {
                out.push(Term::atom("garbled"));
                break;
            }
            match (b[i + 1], len) {
                (2, 8) => out.push(Term::atom("reset")),
                (1, 12) => out.push(Term::tag(
                    "serial",
                    vec![
                        Term::nat(u16::from_be_bytes([b[i + 2], b[i + 3]])),
                        Term::nat(u32::from_be_bytes([b[i + 8], b[i + 9], b[i + 10], b[i + 11]])),
                    ],
                )),
                (t, _) => out.push(Term::tag("other", vec![Term::nat(t)])),
            }
            i += len;
        }
        out
    }
}

fn u(t: &Term, max: u64) -> Option<u64> {
    let v = t.as_u64()?;
    if v <= max { Some(v) } else { None }
}

fn header(out: &mut Vec<u8>, ver: u64, ty: u64, sess: u64, len: usize) {
    out.push(ver as u8);
    out.push(ty as u8);
    out.extend_from_slice(&(sess as u16).to_be_bytes());
    out.extend_from_slice(&(len as u32).to_be_bytes());
}

fn encode_pdu(t: &Term, out: &mut Vec<u8>) -> Option<()> {
    let l = t.as_list()?;
    let h = l.first()?.as_atom()?;
    let a = &l[1..];
    match (h, a.len()) {
        ("cr", 2) => header(out, u(&a[0], 255)?, 3, u(&a[1], 65535)?, 8),
        ("p4", 6) | ("p6", 6) => {
            let addr = a[4].as_bytes()?;
            let (ty, n) = if h == "p4" { (4, 4) } else { (6, 16) };
            if addr.len() != n {
                return None;
            }
            let (flags, len, ml, asn) = (u(&a[1], 255)?, u(&a[2], 255)?, u(&a[3], 255)?, u(&a[5], 4294967295)?);
            header(out, u(&a[0], 255)?, ty, 0, 16 + n);
            out.extend_from_slice(&[flags as u8, len as u8, ml as u8, 0]);
            out.extend_from_slice(&addr);
            out.extend_from_slice(&(asn as u32).to_be_bytes());
        }
        ("eod", 3) => {
            let v = u(&a[0], 255)?;
            let (sess, serial) = (u(&a[1], 65535)?, u(&a[2], 4294967295)?);
            if v >= 1 {
                header(out, v, 7, sess, 24);
                out.extend_from_slice(&(serial as u32).to_be_bytes());
                out.extend_from_slice(&3600u32.to_be_bytes());
                out.extend_from_slice(&600u32.to_be_bytes());
                out.extend_from_slice(&7200u32.to_be_bytes());
            } else {
                header(out, v, 7, sess, 12);
                out.extend_from_slice(&(serial as u32).to_be_bytes());
            }
        }
        ("notify", 3) => {
            header(out, u(&a[0], 255)?, 0, u(&a[1], 65535)?, 12);
            out.extend_from_slice(&(u(&a[2], 4294967295)? as u32).to_be_bytes());
        }
        ("creset", 1) => header(out, u(&a[0], 255)?, 8, 0, 8),
        ("err", 3) => {
            let body = a[2].as_bytes()?;
            header(out, u(&a[0], 255)?, 10, u(&a[1], 65535)?, 8 + body.len());
            out.extend_from_slice(&body);
        }
        ("raw", 4) => {
            let body = a[3].as_bytes()?;
            header(out, u(&a[0], 255)?, u(&a[1], 255)?, u(&a[2], 65535)?, 8 + body.len());
            out.extend_from_slice(&body);
        }
        ("junk", 1) => out.extend_from_slice(&a[0].as_bytes()?),
        _ => return None,
    }
    Some(())
}

fn net_term(n: &packet::IpNet) -> Term {
    match n {
        packet::IpNet::V4(n) => Term::list(vec![Term::nat(4u8), Term::bytes(&n.addr.octets()), Term::nat(n.mask)]),
        packet::IpNet::V6(n) => Term::list(vec![Term::nat(6u8), Term::bytes(&n.addr.octets()), Term::nat(n.mask)]),
    }
}

fn cache_of(a: &IpAddr) -> u64 {
    match a {
        IpAddr::V4(a) => a.octets()[3] as u64,
        _ => 999,
    }
}

fn rx_of(st: &RpkiState) -> u64 {
    (st.received_ipv4.load(Ordering::Relaxed)
        + st.received_ipv6.load(Ordering::Relaxed)
        + st.serial_notify.load(Ordering::Relaxed)
        + st.cache_reset.load(Ordering::Relaxed)
        + st.cache_response.load(Ordering::Relaxed)
        + st.end_of_data.load(Ordering::Relaxed)
        + st.error.load(Ordering::Relaxed)) as u64
}

fn snapshot(tables: &TableHandle, sess: &BTreeMap<u64, Sess>) -> Term {
    let mut roas = Vec::new();
    for fam in [packet::Family::IPV4, packet::Family::IPV6] {
        for (net, roa) in tables.collect_roa(fam) {
            let owner = sess
                .iter()
                .find(|(_, s)| s.remote.as_ref().is_some_and(|a| Arc::ptr_eq(a, &roa.source)))
                .map(|(sid, _)| *sid)
                .unwrap_or(999);
            roas.push(Term::list(vec![
                Term::nat(owner),
                Term::nat(cache_of(&roa.source)),
                net_term(&net),
                Term::nat(roa.max_length),
                Term::nat(roa.as_number),
            ]));
        }
    }
    let mut ss = Vec::new();
    let mut done = Vec::new();
    for (sid, s) in sess.iter() {
        if !s.started {
            continue;
        }
        ss.push(Term::list(vec![
            Term::nat(*sid),
            Term::nat(s.state.serial.load(Ordering::Relaxed)),
            Term::nat(s.state.session_id.load(Ordering::Relaxed)),
            Term::nat(rx_of(&s.state)),
            Term::list(s.queries()),
        ]));
        if s.done {
            done.push(Term::nat(*sid));
        }
    }
    Term::tag("snap", vec![Term::tag("roas", roas), Term::tag("sess", ss), Term::tag("done", done)])
}

fn run_case(line: &str) -> String {
    let bad = || "(bad-case)".to_string();
    let Some(t) = Term::parse(line) else { return bad() };
    if let Some(a) = t.tagged("case-tcp") {
        if a.len() != 1 {
            return bad();
        }
        return match u(&a[0], 64) {
            Some(n) => run_tcp(n),
            None => bad(),
        };
    }
    if let Some(a) = t.tagged("case-tcp-reconnect") {
        if a.len() != 1 {
            return bad();
        }
        return match u(&a[0], 64) {
            Some(n) => run_tcp_reconnect(n),
            None => bad(),
        };
    }
    if let Some(a) = t.tagged("case-tcp-reset") {
        if a.len() != 1 {
            return bad();
        }
        return match u(&a[0], 64) {
            Some(n) => run_tcp_reset(n),
            None => bad(),
        };
    }
    let Some(a) = t.tagged("case") else { return bad() };
    if a.len() != 2 {
        return bad();
    }
    let (Some(streams), Some(steps)) = (a[0].tagged("streams"), a[1].tagged("steps")) else { return bad() };
    let tables: TableHandle = Arc::new(TableManager::new(1));
    let mut sess: BTreeMap<u64, Sess> = BTreeMap::new();
    for s in streams {
        let Some(l) = s.as_list() else { return bad() };
        if l.len() != 3 {
            return bad();
        }
        let (Some(sid), Some(cache), Some(pdus)) = (u(&l[0], 250), u(&l[1], 250), l[2].as_list()) else { return bad() };
        if sess.contains_key(&sid) {
            return bad();
        }
        let mut stream = Vec::new();
        for p in pdus {
            if encode_pdu(p, &mut stream).is_none() {
                return bad();
            }
        }
        sess.insert(
            sid,
            Sess {
                remote: None,
                wfail: Arc::new(AtomicBool::new(false)),
                cache: cache as u8,
                stream,
                pos: 0,
                fut: None,
                server: None,
                cancel: CancellationToken::new(),
                soft: Arc::new(Notify::new()),
                state: Arc::new(RpkiState::default()),
                started: false,
                done: false,
                from_client: Vec::new(),
            },
        );
    }
    // validate the steps first so that an ill-formed case has no partial effect
    enum Step {
        Start(u64),
        Send(u64, usize),
        SendQ(u64, usize),
        Soft(u64),
        WFail(u64),
        End(u64, bool),
        Snap,
    }
    let mut plan = Vec::new();
    let mut started = std::collections::BTreeSet::new();
    for st in steps {
        if st.as_list().map(|l| l.len() == 1 && l[0].as_atom() == Some("snap")) == Some(true) {
            plan.push(Step::Snap);
            continue;
        }
        let Some(l) = st.as_list() else { return bad() };
        let Some(h) = l.first().and_then(|h| h.as_atom()) else { return bad() };
        let a = &l[1..];
        if a.is_empty() {
            return bad();
        }
        let Some(sid) = u(&a[0], 250) else { return bad() };
        if !sess.contains_key(&sid) {
            return bad();
        }
        match (h, a.len()) {
            ("start", 1) => {
                if !started.insert(sid) {
                    return bad();
                }
                plan.push(Step::Start(sid));
            }
            ("send", 2) if started.contains(&sid) => {
                let Some(n) = u(&a[1], 1 << 20) else { return bad() };
                plan.push(Step::Send(sid, n as usize));
            }
            ("sendq", 2) if started.contains(&sid) => {
                let Some(n) = u(&a[1], 1 << 20) else { return bad() };
                plan.push(Step::SendQ(sid, n as usize));
            }
            ("soft", 1) if started.contains(&sid) => plan.push(Step::Soft(sid)),
            ("wfail", 1) if started.contains(&sid) => plan.push(Step::WFail(sid)),
            ("end", 2) if started.contains(&sid) => match a[1].as_atom() {
                Some("eof") => plan.push(Step::End(sid, true)),
                Some("cancel") => plan.push(Step::End(sid, false)),
                _ => return bad(),
            },
            _ => return bad(),
        }
    }
    // a queued send must be followed at once by the end of the stream
    for i in 0..plan.len() {
        if let Step::SendQ(sid, _) = plan[i] {
            match plan.get(i + 1) {
                Some(Step::End(s2, true)) if *s2 == sid => {}
                _ => return bad(),
            }
        }
    }
    // timers created by the client (none today) must find a runtime context
    let rt = tokio::runtime::Builder::new_current_thread().enable_all().build().unwrap();
    let _guard = rt.enter();
    let mut obs = vec![Term::atom("obs")];
    for st in plan {
        match st {
            Step::Start(sid) => {
                let s = sess.get_mut(&sid).unwrap();
                let (client_io, server_io) = tokio::io::duplex(1 << 22);
                let remote_addr = Arc::new(IpAddr::V4(Ipv4Addr::new(192, 0, 2, s.cache)));
                let client_io = FaultIo { inner: client_io, fail: s.wfail.clone() };
                s.remote = Some(remote_addr.clone());
                let framed = Framed::new(client_io, rpki::RtrCodec::new());
                s.fut = Some(Box::pin(RpkiClient::serve_inner(
                    framed,
                    remote_addr,
                    s.cancel.clone(),
                    s.soft.clone(),
                    s.state.clone(),
                    tables.clone(),
                )));
                s.server = Some(server_io);
                s.started = true;
                s.drive();
            }
            Step::Send(sid, n) => {
                let s = sess.get_mut(&sid).unwrap();
                let end = (s.pos + n).min(s.stream.len());
                let chunk = s.stream[s.pos..end].to_vec();
                s.pos = end;
                if let Some(srv) = s.server.as_mut() {
                    let _ = srv.write_all(&chunk).now_or_never();
                }
                s.drive();
            }
            Step::SendQ(sid, n) => {
                let s = sess.get_mut(&sid).unwrap();
                let end = (s.pos + n).min(s.stream.len());
                let chunk = s.stream[s.pos..end].to_vec();
                s.pos = end;
                if let Some(srv) = s.server.as_mut() {
                    let _ = srv.write_all(&chunk).now_or_never();
                }
            }
            Step::Soft(sid) => {
                let s = sess.get_mut(&sid).unwrap();
                s.soft.notify_one();
                s.drive();
            }
            Step::WFail(sid) => {
                let s = sess.get_mut(&sid).unwrap();
                s.drain();
                s.wfail.store(true, Ordering::SeqCst);
            }
            Step::End(sid, eof) => {
                let s = sess.get_mut(&sid).unwrap();
                if eof {
                    // half-close: the client reads what is queued, then end of stream; what it
                    // still writes can be collected
                    if let Some(srv) = s.server.as_mut() {
                        let _ = srv.shutdown().now_or_never();
                    }
                } else {
                    s.cancel.cancel();
                }
                s.drive();
            }
            Step::Snap => obs.push(snapshot(&tables, &sess)),
        }
    }
    Term::list(obs).to_string()
}

/// `try_connect` over a loopback TCP socket: install one VRP, cancel, report whether the
/// cache's VRPs were removed.  Repeated `n` times (the defect it guards against was a race).
fn run_tcp(n: u64) -> String {
    let rt = tokio::runtime::Builder::new_current_thread().enable_all().build().unwrap();
    let mut res = vec![Term::atom("tcp")];
    for _ in 0..n {
        let r = rt.block_on(async {
            use tokio::time::{sleep, timeout, Duration};
            let listener = tokio::net::TcpListener::bind("127.0.0.1:0").await.ok()?;
            let addr = listener.local_addr().ok()?;
            let tables: TableHandle = Arc::new(TableManager::new(1));
            let cancel = CancellationToken::new();
            RpkiClient::try_connect(
                addr,
                cancel.clone(),
                Arc::new(Notify::new()),
                Arc::new(RpkiState::default()),
                tables.clone(),
            );
            let (mut sock, _) = timeout(Duration::from_secs(5), listener.accept()).await.ok()?.ok()?;
            let mut q = [0u8; 8];
            timeout(Duration::from_secs(5), sock.read_exact(&mut q)).await.ok()?.ok()?;
            let mut bytes = Vec::new();
            for p in ["(cr 1 7)", "(p4 1 1 8 24 x0a000000 65001)", "(eod 1 7 5)"] {
                encode_pdu(&Term::parse(p)?, &mut bytes)?;
            }
            sock.write_all(&bytes).await.ok()?;
            let mut installed = false;
            for _ in 0..1000 {
                if tables.collect_roa(packet::Family::IPV4).len() == 1 {
                    installed = true;
                    break;
                }
                sleep(Duration::from_millis(2)).await;
            }
            if !installed {
                return Some("not-installed");
            }
            cancel.cancel();
            for _ in 0..2500 {
                if tables.collect_roa(packet::Family::IPV4).is_empty() {
                    return Some("cleared");
                }
                sleep(Duration::from_millis(2)).await;
            }
            Some("stale")
        });
        res.push(Term::atom(r.unwrap_or("io-failed")));
    }
    Term::list(res).to_string()
}

/// The body of the gRPC `reset_rpki` (hard reset) around the real `try_connect`/`serve`: the old
/// session is cancelled, `rpki_drop_all(Arc::new(addr))` is called, a new client connects to the
/// same address while the old connection is still open.  Afterwards exactly the new session's
/// VRP must be installed, and nothing once that one is cancelled too.
fn run_tcp_reset(n: u64) -> String {
    let rt = tokio::runtime::Builder::new_current_thread().enable_all().build().unwrap();
    let mut res = vec![Term::atom("tcp-reset")];
    for _ in 0..n {
        let r = rt.block_on(async {
            use tokio::time::{sleep, timeout, Duration};
            let listener = tokio::net::TcpListener::bind("127.0.0.1:0").await.ok()?;
            let addr = listener.local_addr().ok()?;
            let tables: TableHandle = Arc::new(TableManager::new(1));
            let state = Arc::new(RpkiState::default());
            let soft = Arc::new(Notify::new());
            let cancel1 = CancellationToken::new();
            RpkiClient::try_connect(addr, cancel1.clone(), soft.clone(), state.clone(), tables.clone());
            let (mut sock1, _) = timeout(Duration::from_secs(5), listener.accept()).await.ok()?.ok()?;
            let mut q = [0u8; 8];
            timeout(Duration::from_secs(5), sock1.read_exact(&mut q)).await.ok()?.ok()?;
            let mut bytes = Vec::new();
            for p in ["(cr 1 7)", "(p4 1 1 8 24 x0a000000 65001)", "(p4 1 1 16 24 x0a010000 65002)", "(eod 1 7 5)"] {
                encode_pdu(&Term::parse(p)?, &mut bytes)?;
            }
            sock1.write_all(&bytes).await.ok()?;
            let mut ok = false;
            for _ in 0..2500 {
                if tables.collect_roa(packet::Family::IPV4).len() == 2 {
                    ok = true;
                    break;
                }
                sleep(Duration::from_millis(2)).await;
            }
            if !ok {
                return Some("not-installed");
            }
            // reset_rpki, hard
            cancel1.cancel();
            let cancel2 = CancellationToken::new();
            tables.rpki_drop_all(Arc::new(addr.ip()));
            RpkiClient::try_connect(addr, cancel2.clone(), soft.clone(), state.clone(), tables.clone());
            let (mut sock2, _) = timeout(Duration::from_secs(5), listener.accept()).await.ok()?.ok()?;
            timeout(Duration::from_secs(5), sock2.read_exact(&mut q)).await.ok()?.ok()?;
            let mut bytes = Vec::new();
            for p in ["(cr 1 8)", "(p4 1 1 16 24 x0a010000 65002)", "(eod 1 8 1)"] {
                encode_pdu(&Term::parse(p)?, &mut bytes)?;
            }
            sock2.write_all(&bytes).await.ok()?;
            let mut ok = false;
            for _ in 0..2500 {
                let roas = tables.collect_roa(packet::Family::IPV4);
                if roas.len() == 1 && roas[0].1.as_number == 65002 {
                    ok = true;
                    break;
                }
                sleep(Duration::from_millis(2)).await;
            }
            if !ok {
                return Some(if tables.collect_roa(packet::Family::IPV4).len() > 1 { "stale-or-duplicate" } else { "missing" });
            }
            cancel2.cancel();
            for _ in 0..2500 {
                if tables.collect_roa(packet::Family::IPV4).is_empty() {
                    drop(sock1);
                    return Some("ok");
                }
                sleep(Duration::from_millis(2)).await;
            }
            Some("stale-end")
        });
        res.push(Term::atom(r.unwrap_or("io-failed")));
    }
    Term::list(res).to_string()
}

/// The REAL reconnect loop of `try_connect` under tokio's paused clock: the cache closes the
/// connection (the VRPs must go), the client waits its 10 s and connects again with the same
/// RpkiState, starting over with a Reset Query; then the cache is gone altogether (connect fails,
/// retried every 10 s) until the client is cancelled.
fn run_tcp_reconnect(n: u64) -> String {
    let mut res = vec![Term::atom("tcp-reconnect")];
    for _ in 0..n {
        let rt = tokio::runtime::Builder::new_current_thread()
            .enable_all()
            .start_paused(true)
            .build()
            .unwrap();
        let r = rt.block_on(async {
            use tokio::time::{sleep, Duration, Instant};
            // a connection on which the client really talks (a connect attempt that timed out is closed at once)
            async fn accept_live(l: &tokio::net::TcpListener) -> Option<(tokio::net::TcpStream, [u8; 8])> {
                for _ in 0..50 {
                    let (mut s, _) = l.accept().await.ok()?;
                    let mut q = [0u8; 8];
                    if s.read_exact(&mut q).await.is_ok() {
                        return Some((s, q));
                    }
                }
                None
            }
            async fn until(tables: &TableHandle, want: usize) -> bool {
                for _ in 0..200_000 {
                    if tables.collect_roa(packet::Family::IPV4).len() == want {
                        return true;
                    }
                    std::thread::sleep(std::time::Duration::from_micros(20));
                    tokio::task::yield_now().await;
                }
                false
            }
            let listener = tokio::net::TcpListener::bind("127.0.0.1:0").await.ok()?;
            let addr = listener.local_addr().ok()?;
            let tables: TableHandle = Arc::new(TableManager::new(1));
            let state = Arc::new(RpkiState::default());
            let cancel = CancellationToken::new();
            RpkiClient::try_connect(addr, cancel.clone(), Arc::new(Notify::new()), state.clone(), tables.clone());
            let (mut sock1, q1) = accept_live(&listener).await?;
            if q1 != [1, 2, 0, 0, 0, 0, 0, 8] {
                return Some("first-query-not-reset");
            }
            let mut bytes = Vec::new();
            for p in ["(cr 1 7)", "(p4 1 1 8 24 x0a000000 65001)", "(p4 1 1 16 24 x0a010000 65002)", "(eod 1 7 5)"] {
                encode_pdu(&Term::parse(p)?, &mut bytes)?;
            }
            sock1.write_all(&bytes).await.ok()?;
            if !until(&tables, 2).await {
                return Some("not-installed");
            }
            if !state.up.load(Ordering::Relaxed) {
                return Some("not-up");
            }
            // the cache closes the connection
            let t0 = Instant::now();
            drop(sock1);
            if !until(&tables, 0).await {
                return Some("stale-after-close");
            }
            if state.up.load(Ordering::Relaxed) {
                return Some("still-up");
            }
            let (mut sock2, q2) = accept_live(&listener).await?;
            if Instant::now().duration_since(t0) < Duration::from_secs(10) {
                return Some("reconnected-too-early");
            }
            if q2 != [1, 2, 0, 0, 0, 0, 0, 8] {
                return Some("reconnect-query-not-reset");
            }
            let mut bytes = Vec::new();
            for p in ["(cr 1 8)", "(p4 1 1 24 24 x0a010100 65003)", "(eod 1 8 9)"] {
                encode_pdu(&Term::parse(p)?, &mut bytes)?;
            }
            sock2.write_all(&bytes).await.ok()?;
            if !until(&tables, 1).await {
                return Some("not-installed-after-reconnect");
            }
            if state.serial.load(Ordering::Relaxed) != 9 || state.session_id.load(Ordering::Relaxed) != 8 {
                return Some("state-not-updated");
            }
            // the cache disappears: the listener is closed, then the connection
            drop(listener);
            drop(sock2);
            if !until(&tables, 0).await {
                return Some("stale-after-second-close");
            }
            // several failed connection attempts later the client is removed
            sleep(Duration::from_secs(35)).await;
            cancel.cancel();
            sleep(Duration::from_secs(30)).await;
            if !tables.collect_roa(packet::Family::IPV4).is_empty() || state.up.load(Ordering::Relaxed) {
                return Some("stale-at-end");
            }
            Some("ok")
        });
        res.push(Term::atom(r.unwrap_or("io-failed")));
    }
    Term::list(res).to_string()
}

#[test]
fn verif_main() {
    let (Ok(prop), Ok(inp), Ok(out)) = (
        std::env::var("VERIF_PROP"),
        std::env::var("VERIF_IN"),
        std::env::var("VERIF_OUT"),
    ) else {
        return; // not invoked by /verif/check
    };
    if std::env::var("VERIF_PANIC").is_err() {
        std::panic::set_hook(Box::new(|_| {}));
    }
    match prop.as_str() {
        "C13" => sexp::run_lines(&inp, &out, |l| {
            let l = l.to_string();
            std::panic::catch_unwind(move || run_case(&l)).unwrap_or_else(|_| "(panic)".into())
        }),
        "C03" => sexp::run_lines(&inp, &out, |l| c03::run_case(l)),
        "C12" => sexp::run_lines(&inp, &out, |l| {
            let l = l.to_string();
            std::panic::catch_unwind(move || c12::run_case(&l)).unwrap_or_else(|_| "(panic)".into())
        }),
        _ => {}
    }
}
