// Verification harness modules included at the end of daemon/src/main.rs under
// cfg(all(test, osrg_rustybgp_verif)) (crate root: reaches `convert`, `bmp`, `mrt`).
#![allow(dead_code, unused_imports)]

// (c17.rs is included from event.rs: it needs `event::GrpcService`)
