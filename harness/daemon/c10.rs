// harness module for C10 (not written yet)
