// Verification harness for C10 (GR/LLGR helper: stale routes live only while a timer or an
// End-of-RIB is pending), compiled into rustybgpd's unit-test binary only with
// `--cfg osrg_rustybgp_verif` and `--cfg verif_c10` (or verif_all).  Grand-child of `crate::event`,
// so it reaches `PeerContext`, `PeerSession::{new_for_test, process_effects, finish_session}`,
// `apply_disconnect`, `GlobalEffect`, `DisconnectInfo`.
//
// Case syntax: lean/Rbgp/Gr/Helper/Codec.lean.
//   (glue ev ...)  one peer, a REAL `Global` (the peer added with `add_peer`), its REAL `PeerContext`,
//                  a REAL `TableManager`; every event calls the real glue function; timers are
//                  observed as "slot holds a sender whose task is still alive" and fired by sending
//                  on the oneshot (the code's own `fire_gr_timer` path), so no real time passes.
//   (glue-tcp ev ...)  the same world, but the peer's session is a real session task on a loopback TCP
//                  connection and the harness is the remote speaker (c10t.rs)
//   (pure in ...)  the pure `GrState` machine: outputs and `is_peer_restarting` per input.
#![allow(dead_code, unused_imports)]

use super::super::*;
use super::super::grpc;

#[path = "/verif/harness/common/sexp.rs"]
mod sexp;
use sexp::Term;

const MAX_FAM: u64 = 3;
const MAX_PFX: u64 = 3;

fn fam_of(i: u64) -> Family {
    match i {
        0 => Family::IPV4,
        1 => Family::IPV6,
        _ => Family::IPV4_MC,
    }
}
fn fam_idx(f: Family) -> u64 {
    if f == Family::IPV4 {
        0
    } else if f == Family::IPV6 {
        1
    } else if f == Family::IPV4_MC {
        2
    } else {
        99
    }
}
fn net_of(f: u64, n: u64) -> packet::Nlri {
    if f == 1 {
        format!("2001:db8:{}::/48", n + 1).parse().unwrap()
    } else {
        format!("10.{}.0.0/16", n + 1).parse().unwrap()
    }
}
fn pfx_idx(net: &packet::Nlri) -> u64 {
    let s = net.to_string();
    for n in 0..MAX_PFX {
        if s == format!("2001:db8:{}::/48", n + 1) || s == format!("10.{}.0.0/16", n + 1) {
            return n;
        }
    }
    99
}
fn small(t: &Term, max: u64) -> Option<u64> {
    let n = t.as_u64()?;
    if n < max { Some(n) } else { None }
}
fn fams_of(t: &Term) -> Option<Vec<u64>> {
    t.as_list()?.iter().map(|x| small(x, MAX_FAM)).collect()
}
fn fams_ne_of(t: &Term) -> Option<Vec<u64>> {
    // negotiated family lists are never empty (negotiate_gr / negotiate_llgr return None then)
    let v = fams_of(t)?;
    if v.is_empty() { None } else { Some(v) }
}
fn opt_of<'a>(t: &'a Term) -> Option<Option<&'a Term>> {
    if t.as_atom() == Some("none") {
        return Some(None);
    }
    let s = t.tagged("some")?;
    if s.len() == 1 { Some(Some(&s[0])) } else { None }
}

#[derive(Clone)]
enum Reason {
    Io,
    Hold,
    Remote(u8, u8),
    Local(u8, u8),
    Fsm,
    Admin,
}

enum Ev {
    Est {
        fams: Vec<u64>,
        gr: Option<(Vec<u64>, bool)>,
        llgr: Option<Vec<u64>>,
        lr: bool,
    },
    Ann(u64, u64, bool, bool),
    Eor(u64),
    Down(Reason),
    Attempt,
    GrTimer,
    LlgrTimer(u64),
    Force,
    Disable,
    Enable,
    Wait,
}

fn reason_of(t: &Term) -> Option<Reason> {
    match t.as_atom() {
        Some("io") => return Some(Reason::Io),
        Some("hold") => return Some(Reason::Hold),
        Some("fsm") => return Some(Reason::Fsm),
        Some("admin") => return Some(Reason::Admin),
        Some(_) => return None,
        None => {}
    }
    let l = t.as_list()?;
    if l.len() != 3 {
        return None;
    }
    let c = small(&l[1], 8)? as u8;
    let s = small(&l[2], 12)? as u8;
    match l[0].as_atom()? {
        "rnotif" => Some(Reason::Remote(c, s)),
        "lnotif" => Some(Reason::Local(c, s)),
        _ => None,
    }
}

fn ev_of(t: &Term) -> Option<Ev> {
    match t.as_atom() {
        Some("attempt") => return Some(Ev::Attempt),
        Some("gr-timer") => return Some(Ev::GrTimer),
        Some("force") => return Some(Ev::Force),
        Some("disable") => return Some(Ev::Disable),
        Some("enable") => return Some(Ev::Enable),
        Some("wait") => return Some(Ev::Wait),
        Some(_) => return None,
        None => {}
    }
    let l = t.as_list()?;
    let h = l.first()?.as_atom()?;
    match (h, l.len()) {
        ("est", 5) => {
            let gr = match opt_of(&l[2])? {
                None => None,
                Some(g) => {
                    let g = g.as_list()?;
                    if g.len() != 2 {
                        return None;
                    }
                    Some((fams_of(&g[0])?, g[1].as_bool()?))
                }
            };
            let llgr = match opt_of(&l[3])? {
                None => None,
                Some(g) => Some(fams_of(g)?),
            };
            let fams = fams_of(&l[1])?;
            Some(Ev::Est {
                fams,
                gr,
                llgr,
                lr: l[4].as_bool()?,
            })
        }
        ("ann", 5) => Some(Ev::Ann(
            small(&l[1], MAX_FAM)?,
            small(&l[2], MAX_PFX)?,
            l[3].as_bool()?,
            l[4].as_bool()?,
        )),
        ("eor", 2) => Some(Ev::Eor(small(&l[1], MAX_FAM)?)),
        ("down", 2) => Some(Ev::Down(reason_of(&l[1])?)),
        ("llgr-timer", 2) => Some(Ev::LlgrTimer(small(&l[1], MAX_FAM)?)),
        _ => None,
    }
}

fn notification(c: u8, s: u8) -> bgp::Message {
    bgp::Message::Notification(rustybgp_packet::Notification::from_notification(c, s, vec![]))
}

fn down_reason(r: &Reason) -> crate::fsm::SessionDownReason {
    use crate::fsm::SessionDownReason as R;
    match r {
        Reason::Io => R::IoError,
        Reason::Hold => R::HoldTimerExpired,
        Reason::Remote(c, s) => R::RemoteNotification(notification(*c, *s)),
        Reason::Local(c, s) => R::LocalNotification(notification(*c, *s)),
        Reason::Fsm => R::FsmError,
        Reason::Admin => R::AdminShutdown,
    }
}

thread_local! {
    /// is the current case running on tokio's paused clock?
    static PAUSED: std::cell::Cell<bool> = const { std::cell::Cell::new(false) };
    /// did a real-clock `wait` of the current run take much longer than it should?
    static STALLED: std::cell::Cell<bool> = const { std::cell::Cell::new(false) };
}

struct World {
    global: GlobalHandle,
    tables: TableHandle,
    addr: IpAddr,
    context: Arc<std::sync::Mutex<PeerContext>>,
    session: Option<PeerSession>,
    /// restart time / LLGR stale time advertised by the peer (seconds)
    restart_secs: u16,
    llgr_secs: u32,
    /// the REAL gRPC service on the same `Global` / `TableManager` (shutdown / disable / enable)
    svc: grpc::GrpcService,
    /// receiving end of the live session's close channel (`ConnArbiter.passive_close_tx`)
    close_rx: Option<tokio::sync::oneshot::Receiver<CloseReason>>,
}

fn peer_params(remote_addr: IpAddr) -> PeerParams {
    PeerParams {
        remote_addr,
        remote_port: Global::BGP_PORT,
        expected_remote_asn: 0,
        local_asn: 0,
        passive: true,
        rs_client: false,
        route_reflector: RouteReflectorConfig::default(),
        delete_on_disconnected: false,
        admin_down: false,
        state: SessionState::Idle,
        holdtime: PeerParams::DEFAULT_HOLD_TIME,
        connect_retry_time: PeerParams::DEFAULT_CONNECT_RETRY_TIME,
        multihop_ttl: None,
        ttl_security: None,
        password: None,
        families: FnvHashMap::default(),
        send_max: FnvHashMap::default(),
        prefix_limits: FnvHashMap::default(),
        graceful_restart: None,
        llgr: None,
        bfd_config: None,
        neighbor_interface: None,
        bind_interface: None,
        export_policy: None,
    }
}

async fn settle() {
    // let the timer tasks woken by a `send` run to completion (they never await anything that is
    // not immediately ready: std mutexes and synchronous table calls only)
    for _ in 0..8 {
        tokio::task::yield_now().await;
    }
}

fn gr_armed(ctx: &PeerContext) -> bool {
    ctx.gr_restart_timer.as_ref().is_some_and(|tx| !tx.is_closed())
}
fn llgr_armed(ctx: &PeerContext) -> Vec<u64> {
    let mut v: Vec<u64> = ctx
        .llgr_family_timers
        .iter()
        .filter(|(_, tx)| !tx.is_closed())
        .map(|(f, _)| fam_idx(*f))
        .collect();
    v.sort_unstable();
    v
}

fn observe(w: &World) -> Term {
    observe_up(w, w.session.is_some())
}

fn observe_up(w: &World, up: bool) -> Term {
    let mut routes: Vec<(u64, u64, bool, bool, bool, bool)> = Vec::new();
    for f in 0..MAX_FAM {
        for d in w
            .tables
            .collect_paths(table::TableQuery::AdjIn(w.addr), fam_of(f), vec![], true)
        {
            for p in &d.paths {
                let comms: Vec<u32> = p
                    .attr
                    .iter()
                    .find(|a| a.code() == packet::Attribute::COMMUNITY)
                    .and_then(|a| a.binary())
                    .map(|b| {
                        b.chunks(4)
                            .filter_map(|c| c.try_into().ok().map(u32::from_be_bytes))
                            .collect()
                    })
                    .unwrap_or_default();
                routes.push((
                    f,
                    pfx_idx(&d.net),
                    p.source.is_stale(),
                    p.source.is_llgr_stale(),
                    comms.contains(&0xffff_0007),
                    comms.contains(&0xffff_0006),
                ));
            }
        }
    }
    routes.sort();
    let ctx = w.context.lock().unwrap();
    Term::list(vec![
        Term::tag(
            "rib",
            routes
                .into_iter()
                .map(|(f, n, s, l, nl, lc)| {
                    Term::list(vec![
                        Term::nat(f),
                        Term::nat(n),
                        Term::boolean(s),
                        Term::boolean(l),
                        Term::boolean(nl),
                        Term::boolean(lc),
                    ])
                })
                .collect(),
        ),
        Term::boolean(gr_armed(&ctx)),
        Term::tag("llt", llgr_armed(&ctx).into_iter().map(Term::nat).collect()),
        Term::boolean(ctx.gr_state.is_peer_restarting()),
        Term::boolean(up),
    ])
}

/// The end of an established session: the REAL `PeerSession::finish_session` (eligibility,
/// admin-down override, `unregister_peer`) followed by the REAL `apply_disconnect`, in the order
/// `session_loop` / `run` call them.
async fn session_down(w: &mut World, reason: &Reason) {
    let Some(mut s) = w.session.take() else {
        return;
    };
    w.close_rx = None;
    let disconnect = DisconnectInfo {
        role: s.role,
        remote_addr: s.remote_addr,
        export_map: ExportMap::default(),
        negotiated_gr: None,
        negotiated_llgr: None,
    };
    let info = s
        .finish_session(down_reason(reason), &w.global, disconnect)
        .await;
    let _ = apply_disconnect(&w.context, w.addr, &w.tables, info).await;
}

/// After an operator action that calls `PeerContext::force_down`: the timer tasks it woke run, and a
/// live session that was told to close terminates.  `run_select` maps every `CloseReason` to
/// `SessionDownReason::AdminShutdown` (3 lines transcribed: it needs a TCP stream); the session is
/// only ended here if the close reason really arrived on its channel.
async fn after_force(w: &mut World) {
    settle().await;
    let told = w
        .close_rx
        .as_mut()
        .is_some_and(|rx| rx.try_recv().is_ok());
    if told {
        session_down(w, &Reason::Admin).await;
    }
}

async fn run_glue(evs: Vec<Ev>, short: bool) -> String {
    let (tx, _rx) = mpsc::unbounded_channel();
    let (bfd_tx, _bfd_rx) = mpsc::unbounded_channel();
    let mut g = Global::new(tx, bfd_tx);
    g.asn = 65001;
    g.router_id = Ipv4Addr::new(1, 0, 0, 1);
    let addr: IpAddr = "10.0.0.2".parse().unwrap();
    g.add_peer(peer_params(addr), None).unwrap();
    let context = Arc::clone(&g.peers.get(&addr).unwrap().context);
    let global: GlobalHandle = Arc::new(tokio::sync::RwLock::new(g));
    let tables: TableHandle = Arc::new(TableManager::new(2));
    let (active_conn_tx, _active_conn_rx) = mpsc::unbounded_channel();
    let svc = grpc::GrpcService::new(
        Arc::new(tokio::sync::Notify::new()),
        active_conn_tx,
        global.clone(),
        tables.clone(),
    );
    let mut w = World {
        global,
        tables,
        addr,
        context,
        session: None,
        // short mode: timers really elapse during a `wait` event (1.25 s of real time)
        restart_secs: if short { 1 } else { 3600 },
        llgr_secs: if short { 1 } else { 7200 },
        svc,
        close_rx: None,
    };
    let mut steps = Vec::new();
    for ev in evs {
        match ev {
            Ev::Est { fams, gr, llgr, lr } => {
                if w.session.is_none() {
                    // The REAL establishment path: `apply_outputs` on the FSM's
                    // SessionNegotiated + SessionEstablished outputs (negotiate_gr / negotiate_llgr on the
                    // capabilities, on_established creating one Source per session family), then
                    // `process_effects` on the effects it returns.
                    let mut s =
                        PeerSession::new_for_test(w.addr, w.context.clone(), w.tables.clone());
                    let all: Vec<Family> = (0..MAX_FAM).map(fam_of).collect();
                    let mut local_cap: Vec<packet::Capability> = all
                        .iter()
                        .map(|f| packet::Capability::MultiProtocol(*f))
                        .collect();
                    local_cap.push(packet::Capability::GracefulRestart {
                        flags: 0x4,
                        restart_time: 120,
                        families: all.iter().map(|f| (*f, 0)).collect(),
                    });
                    local_cap.push(packet::Capability::LongLivedGracefulRestart(
                        all.iter().map(|f| (*f, 0, w.llgr_secs)).collect(),
                    ));
                    s.local_cap = local_cap.clone();
                    let mut remote_cap: Vec<packet::Capability> = fams
                        .iter()
                        .map(|f| packet::Capability::MultiProtocol(fam_of(*f)))
                        .collect();
                    if let Some((fs, nbit)) = &gr {
                        remote_cap.push(packet::Capability::GracefulRestart {
                            flags: if *nbit { 0x4 } else { 0 },
                            restart_time: w.restart_secs,
                            families: fs.iter().map(|f| (fam_of(*f), 0)).collect(),
                        });
                    }
                    if let Some(fs) = &llgr {
                        remote_cap.push(packet::Capability::LongLivedGracefulRestart(
                            fs.iter().map(|f| (fam_of(*f), 0, w.llgr_secs)).collect(),
                        ));
                    }
                    let codec = bgp::PeerCodec::negotiate(&local_cap, &remote_cap);
                    // local speaker itself in selection deferral?
                    w.global.write().await.selection_deferral = if lr {
                        let mut m: FnvHashMap<IpAddr, Vec<Family>> = FnvHashMap::default();
                        m.insert("10.0.0.99".parse().unwrap(), vec![Family::IPV4]);
                        Some(crate::gr::RestartingDeferral::new(m, None).0)
                    } else {
                        None
                    };
                    let role = s.role;
                    let sa: SocketAddr = "127.0.0.1:179".parse().unwrap();
                    let ra: SocketAddr = SocketAddr::new(w.addr, 40000);
                    let (_, effects) = s
                        .apply_outputs(
                            vec![
                                crate::fsm::PeerFsmOutput::Connection(
                                    role,
                                    crate::fsm::Output::SessionNegotiated(codec),
                                ),
                                crate::fsm::PeerFsmOutput::Connection(
                                    role,
                                    crate::fsm::Output::SessionEstablished {
                                        remote_asn: 65002,
                                        remote_id: u32::from(Ipv4Addr::new(10, 0, 0, 2)),
                                        remote_holdtime: 90,
                                        remote_capabilities: remote_cap,
                                        effective_max: FnvHashMap::default(),
                                    },
                                ),
                            ],
                            sa,
                            ra,
                        )
                        .await;
                    s.process_effects(effects, &w.global).await;
                    w.global.write().await.selection_deferral = None;
                    // accept_connection gives every live session a close channel in the arbiter
                    let (ctx_tx, ctx_rx) = tokio::sync::oneshot::channel::<CloseReason>();
                    s.conn_arbiter.lock().unwrap().passive_close_tx = Some(ctx_tx);
                    w.close_rx = Some(ctx_rx);
                    w.session = Some(s);
                }
            }
            Ev::Ann(f, n, nl, lc) => {
                // the REAL `rx_update` (loop checks, import policy, prefix limit, insert_route)
                if let Some(s) = &mut w.session
                    && s.source.contains_key(&fam_of(f))
                {
                    let mut comm: Vec<u8> = Vec::new();
                    if nl {
                        comm.extend_from_slice(&0xffff_0007u32.to_be_bytes());
                    }
                    if lc {
                        comm.extend_from_slice(&0xffff_0006u32.to_be_bytes());
                    }
                    let mut attrs = Vec::new();
                    if !comm.is_empty() {
                        attrs.push(
                            packet::Attribute::new_with_bin(packet::Attribute::COMMUNITY, comm)
                                .unwrap(),
                        );
                    }
                    let reach = bgp::ReachNlri {
                        family: fam_of(f),
                        entries: vec![packet::PathNlri::new(net_of(f, n))],
                        nexthop: Some(bgp::Nexthop::V4(Ipv4Addr::new(10, 0, 0, 2))),
                    };
                    let _ = s.rx_update(Some(reach), None, Arc::new(attrs), 0).await;
                }
            }
            Ev::Eor(f) => {
                // handle_message: `if self.negotiated_gr.is_some() { process_effects(GrEorReceived) }`
                if let Some(s) = &mut w.session
                    && s.negotiated_gr.is_some()
                {
                    s.process_effects(
                        vec![GlobalEffect::GrEorReceived { family: fam_of(f) }],
                        &w.global,
                    )
                    .await;
                }
            }
            Ev::Down(r) => session_down(&mut w, &r).await,
            Ev::Attempt => {
                // a connection that never reached Established ends: the REAL `finish_session`
                // (no sources, nothing negotiated) then the REAL `apply_disconnect`
                let saved = w.context.lock().unwrap().conn_arbiter.clone();
                let mut s2 = PeerSession::new_for_test(w.addr, w.context.clone(), w.tables.clone());
                w.context.lock().unwrap().conn_arbiter = saved; // new_for_test installs a fresh arbiter
                s2.role = crate::fsm::Role::Active;
                let disconnect = DisconnectInfo {
                    role: crate::fsm::Role::Active,
                    remote_addr: w.addr,
                    export_map: ExportMap::default(),
                    negotiated_gr: None,
                    negotiated_llgr: None,
                };
                let info = s2
                    .finish_session(crate::fsm::SessionDownReason::IoError, &w.global, disconnect)
                    .await;
                let _ = apply_disconnect(&w.context, w.addr, &w.tables, info).await;
            }
            Ev::GrTimer => {
                // the restart time elapses: the sender is dropped (the task's `timeout` wrapper is
                // exercised by `wait` in short mode) and the REAL expiry handler runs, not forced
                let armed = gr_armed(&w.context.lock().unwrap());
                if armed {
                    w.context.lock().unwrap().gr_restart_timer.take();
                    gr_restart_timer_expired(w.context.clone(), w.tables.clone(), w.addr, false).await;
                    settle().await;
                }
            }
            Ev::LlgrTimer(f) => {
                let armed = {
                    let mut ctx = w.context.lock().unwrap();
                    if ctx
                        .llgr_family_timers
                        .get(&fam_of(f))
                        .is_some_and(|tx| !tx.is_closed())
                    {
                        ctx.llgr_family_timers.remove(&fam_of(f));
                        true
                    } else {
                        false
                    }
                };
                if armed {
                    llgr_timer_expired(w.context.clone(), w.tables.clone(), w.addr, fam_of(f)).await;
                    settle().await;
                }
            }
            Ev::Wait => {
                // short mode only: every armed timer (1 s) elapses in its own task
                // the timer tasks spawned by the previous steps are polled once (they register their
                // timeout at the current instant, as they do in production right after the spawn)
                settle().await;
                if PAUSED.with(|p| p.get()) {
                    // (a timer armed by an expiry in this window — LLGR after the restart time — gets its
                    //  deadline from the advanced clock and is not reached, as in real time)
                    tokio::time::advance(Duration::from_millis(1250)).await;
                } else {
                    // real clock: if the machine stalled so long that a timer armed DURING this window
                    // (1 s after an expiry at 1 s) could be due as well, the run says nothing: it is repeated
                    let t0 = std::time::Instant::now();
                    tokio::time::sleep(Duration::from_millis(1250)).await;
                    if t0.elapsed() > Duration::from_millis(1750) {
                        STALLED.with(|p| p.set(true));
                    }
                }
                settle().await;
            }
            Ev::Force => {
                // the REAL ShutdownPeer RPC (force_down(CloseReason::AdminShutdown, false))
                let _ = w
                    .svc
                    .shutdown_peer(tonic::Request::new(api::ShutdownPeerRequest {
                        address: w.addr.to_string(),
                        ..Default::default()
                    }))
                    .await;
                after_force(&mut w).await;
            }
            Ev::Disable => {
                // the REAL DisablePeer RPC (admin_down := true, force_down unless already down)
                let _ = w
                    .svc
                    .disable_peer(tonic::Request::new(api::DisablePeerRequest {
                        address: w.addr.to_string(),
                        ..Default::default()
                    }))
                    .await;
                after_force(&mut w).await;
            }
            Ev::Enable => {
                let _ = w
                    .svc
                    .enable_peer(tonic::Request::new(api::EnablePeerRequest {
                        address: w.addr.to_string(),
                        ..Default::default()
                    }))
                    .await;
            }
        }
        steps.push(observe(&w));
    }
    Term::tag("trace", steps).to_string()
}

// ---- pure machine ---------------------------------------------------------------------------

fn fam_list_t(fs: &[Family]) -> Term {
    let mut v: Vec<u64> = fs.iter().map(|f| fam_idx(*f)).collect();
    v.sort_unstable();
    Term::list(v.into_iter().map(Term::nat).collect())
}

fn gout_t(o: &crate::gr::GrOutput) -> Term {
    use crate::gr::GrOutput as O;
    match o {
        O::StartTimer(_) => Term::atom("start-timer"),
        O::StopTimer => Term::atom("stop-timer"),
        O::DeleteStaleRoutes(fs) => Term::tag("del-stale", vec![fam_list_t(fs)]),
        O::StartLlgrTimers(fs) => {
            let fs: Vec<Family> = fs.iter().map(|(f, _)| *f).collect();
            Term::tag("start-llgr", vec![fam_list_t(&fs)])
        }
        O::StopLlgrTimers => Term::atom("stop-llgr"),
        O::DeleteLlgrStaleRoutes(fs) => Term::tag("del-llgr", vec![fam_list_t(fs)]),
    }
}

fn opt_fams(t: &Term) -> Option<Option<Vec<Family>>> {
    Some(match opt_of(t)? {
        None => None,
        Some(x) => Some(fams_of(x)?.into_iter().map(fam_of).collect()),
    })
}

fn gin_of(t: &Term) -> Option<crate::gr::GrInput> {
    use crate::gr::GrInput as I;
    if t.as_atom() == Some("timer") {
        return Some(I::TimerExpired);
    }
    let l = t.as_list()?;
    match (l.first()?.as_atom()?, l.len()) {
        ("dropped", 3) => Some(I::SessionDropped {
            gr: opt_fams(&l[1])?.map(|families| crate::gr::GrParams {
                families,
                restart_time: Duration::from_secs(90),
            }),
            llgr: opt_fams(&l[2])?.map(|fs| crate::gr::LlgrParams {
                families: fs
                    .into_iter()
                    .map(|f| (f, Duration::from_secs(600)))
                    .collect(),
            }),
        }),
        ("established", 2) => Some(I::SessionEstablished {
            gr_families: fams_of(&l[1])?.into_iter().map(fam_of).collect(),
        }),
        ("eor", 2) => Some(I::EorReceived(fam_of(small(&l[1], MAX_FAM)?))),
        ("llgr-timer", 2) => Some(I::LlgrTimerExpired(fam_of(small(&l[1], MAX_FAM)?))),
        _ => None,
    }
}

fn run_pure(ins: Vec<crate::gr::GrInput>) -> String {
    let mut m = crate::gr::GrState::new();
    let mut steps = Vec::new();
    for i in ins {
        let outs = m.process(i);
        steps.push(Term::list(vec![
            Term::list(outs.iter().map(gout_t).collect()),
            Term::boolean(m.is_peer_restarting()),
        ]));
    }
    Term::tag("ptrace", steps).to_string()
}

#[path = "/verif/harness/daemon/c10t.rs"]
mod tcp;

/// A runtime per case; when the machine is short of descriptors for a moment this waits instead of panicking.
fn build_rt(io: bool, paused: bool) -> tokio::runtime::Runtime {
    let mut tries = 0;
    loop {
        let mut b = tokio::runtime::Builder::new_current_thread();
        if io {
            b.enable_all();
        } else {
            b.enable_time();
        }
        b.start_paused(paused);
        match b.build() {
            Ok(rt) => return rt,
            Err(e) => {
                tries += 1;
                if tries > 600 {
                    panic!("cannot create a runtime: {e}");
                }
                std::thread::sleep(Duration::from_millis(100));
            }
        }
    }
}

fn run_case(line: &str) -> String {
    let Some(t) = Term::parse(line) else {
        return "(bad-case)".into();
    };
    if let Some(evs) = t.tagged("glue-tcp") {
        let Some(evs) = evs.iter().map(ev_of).collect::<Option<Vec<_>>>() else {
            return "(bad-case)".into();
        };
        if !tcp::tcp_ok(&evs) {
            return "(bad-case)".into();
        }
        drop(evs);
        // A busy machine must not turn into a wrong observation: a case that could not set its sockets up
        // or ran out of time is run again (the daemon side is deterministic, the result is the same).
        let mut out = String::new();
        for attempt in 0..4u64 {
            if attempt > 0 {
                std::thread::sleep(Duration::from_millis(500 * attempt));
            }
            let evs = t
                .tagged("glue-tcp")
                .unwrap()
                .iter()
                .map(ev_of)
                .collect::<Option<Vec<_>>>()
                .unwrap();
            let rt = build_rt(true, false);
            out = rt.block_on(async {
                match tokio::time::timeout(Duration::from_secs(400), tcp::run_tcp(evs)).await {
                    Ok(s) => s,
                    Err(_) => "(tcp-timeout)".into(),
                }
            });
            rt.shutdown_timeout(Duration::from_millis(200));
            if !(out.starts_with("(tcp-timeout") || out.starts_with("(tcp-setup-failed")) {
                break;
            }
            eprintln!("verif harness: tcp case attempt {attempt} failed to set up: {out}");
        }
        return out;
    }
    // `glue-short`: 1 s timers on tokio's PAUSED clock: `wait` advances it by 1.25 s, the real timer tasks
    // (spawned by apply_disconnect / spawn_llgr_timers) elapse, are cancelled or are fired exactly as in
    // production, no wall-clock time passes.  `glue-real`: the same with the real clock (1.25 s per `wait`).
    let real = t.tagged("glue-real").is_some();
    let short = t.tagged("glue-short").is_some() || real;
    if let Some(evs) = t.tagged("glue").or(t.tagged("glue-short")).or(t.tagged("glue-real")) {
        let Some(evs) = evs.iter().map(ev_of).collect::<Option<Vec<_>>>() else {
            return "(bad-case)".into();
        };
        if !short && evs.iter().any(|e| matches!(e, Ev::Wait)) {
            return "(bad-case)".into();
        }
        PAUSED.with(|p| p.set(short && !real));
        if !real {
            let rt = build_rt(false, short);
            return rt.block_on(run_glue(evs, short));
        }
        drop(evs);
        let mut out = String::new();
        for _ in 0..6 {
            let evs = t
                .tagged("glue-real")
                .unwrap()
                .iter()
                .map(ev_of)
                .collect::<Option<Vec<_>>>()
                .unwrap();
            STALLED.with(|p| p.set(false));
            let rt = build_rt(false, false);
            out = rt.block_on(run_glue(evs, true));
            if !STALLED.with(|p| p.get()) {
                break;
            }
            eprintln!("verif harness: real-clock case repeated (the machine stalled during a wait)");
        }
        out
    } else if let Some(ins) = t.tagged("pure") {
        let Some(ins) = ins.iter().map(gin_of).collect::<Option<Vec<_>>>() else {
            return "(bad-case)".into();
        };
        run_pure(ins)
    } else {
        "(bad-case)".into()
    }
}

#[test]
fn verif_main() {
    let (Ok(prop), Ok(inp), Ok(out)) = (
        std::env::var("VERIF_PROP"),
        std::env::var("VERIF_IN"),
        std::env::var("VERIF_OUT"),
    ) else {
        return; // not invoked by /verif/check
    };
    if prop != "C10" {
        return;
    }
    // the first few panics are reported on stderr (a case that panics is `(panic)` in the output)
    static PANICS: std::sync::atomic::AtomicUsize = std::sync::atomic::AtomicUsize::new(0);
    std::panic::set_hook(Box::new(|info| {
        if PANICS.fetch_add(1, std::sync::atomic::Ordering::Relaxed) < 5 {
            let fds = std::fs::read_dir("/proc/self/fd").map(|d| d.count()).unwrap_or(0);
            let threads = std::fs::read_dir("/proc/self/task").map(|d| d.count()).unwrap_or(0);
            eprintln!("verif harness panic: {info} [open fds {fds}, threads {threads}]");
        }
    }));
    sexp::run_lines(&inp, &out, |l| {
        let l = l.to_string();
        std::panic::catch_unwind(move || run_case(&l)).unwrap_or_else(|_| "(panic)".into())
    });
    if std::env::var("VERIF_DIAG").is_ok() {
        let fds = std::fs::read_dir("/proc/self/fd").map(|d| d.count()).unwrap_or(0);
        let threads = std::fs::read_dir("/proc/self/task").map(|d| d.count()).unwrap_or(0);
        eprintln!("verif harness end: open fds {fds}, threads {threads}");
    }
}
