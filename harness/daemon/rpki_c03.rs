// C03, RTR session stream: hostile byte streams fed to the REAL RTR client loop (`RpkiClient::serve_inner`: the real
// `Framed<_, RtrCodec>` over an in-memory duplex pipe, as in the C13 rig of this hook), observed at the task.
//
// Case:  (rtrs (chunks x.. x..) <eof:t|f>)      every chunk is one write of the cache server; eof closes the pipe
// Observation:  (rtrs-obs (done) | (waiting) | (storm) | (panic) | (wedge) <rx>)
//   done = the client loop returned; waiting = it is blocked on the pipe; storm = it kept waking itself (100000
//   polls without blocking); wedge = the case did not come back within 20 s (a loop that never yields);
//   rx = PDUs the loop has counted as received (RpkiState's receive counters)
#![allow(dead_code, unused_imports)]

use super::*;

struct Outcome {
    status: &'static str,
    rx: u64,
}

fn bytes_of(t: &Term) -> Option<Vec<u8>> {
    match t {
        Term::Atom(_) => t.as_bytes(),
        Term::List(l) => {
            let mut v = Vec::new();
            for x in l {
                v.extend(x.as_bytes()?);
            }
            Some(v)
        }
    }
}

fn run(chunks: Vec<Vec<u8>>, eof: bool) -> Outcome {
    let rt = tokio::runtime::Builder::new_current_thread().enable_all().build().unwrap();
    let _guard = rt.enter();
    let tables: TableHandle = Arc::new(TableManager::new(1));
    let (client_io, server_io) = tokio::io::duplex(1 << 22);
    let remote_addr = Arc::new(IpAddr::V4(Ipv4Addr::new(192, 0, 2, 1)));
    let client_io = FaultIo { inner: client_io, fail: Arc::new(AtomicBool::new(false)) };
    let state = Arc::new(RpkiState::default());
    let framed = Framed::new(client_io, rpki::RtrCodec::new());
    let mut fut: Pin<Box<dyn Future<Output = Result<(), Error>>>> = Box::pin(RpkiClient::serve_inner(
        framed,
        remote_addr,
        CancellationToken::new(),
        Arc::new(Notify::new()),
        state.clone(),
        tables,
    ));
    let mut server = Some(server_io);
    let mut done = false;
    let mut storm = false;
    let mut drive = |fut: &mut Pin<Box<dyn Future<Output = Result<(), Error>>>>, done: &mut bool, storm: &mut bool, server: &mut Option<tokio::io::DuplexStream>| {
        if *done {
            return;
        }
        let flag = Arc::new(Flag(AtomicBool::new(false)));
        let waker = Waker::from(flag.clone());
        let mut cx = Context::from_waker(&waker);
        let mut n = 0usize;
        loop {
            flag.0.store(false, Ordering::SeqCst);
            match fut.as_mut().poll(&mut cx) {
                Poll::Ready(_) => {
                    *done = true;
                    break;
                }
                Poll::Pending => {
                    if !flag.0.load(Ordering::SeqCst) {
                        break;
                    }
                }
            }
            // what the client wrote must be taken off the pipe, or a full pipe would block it
            if let Some(s) = server.as_mut() {
                let mut buf = [0u8; 4096];
                while let Some(Ok(k)) = s.read(&mut buf).now_or_never() {
                    if k == 0 {
                        break;
                    }
                }
            }
            n += 1;
            if n >= 100_000 {
                *storm = true;
                break;
            }
        }
    };
    drive(&mut fut, &mut done, &mut storm, &mut server);
    for ch in &chunks {
        if done || storm {
            break;
        }
        if let Some(s) = server.as_mut() {
            let _ = s.write_all(ch).now_or_never();
        }
        drive(&mut fut, &mut done, &mut storm, &mut server);
    }
    if eof && !done && !storm {
        server = None;
        drive(&mut fut, &mut done, &mut storm, &mut server);
    }
    Outcome { status: if storm { "storm" } else if done { "done" } else { "waiting" }, rx: rx_of(&state) }
}

pub(super) fn run_case(line: &str) -> String {
    let bad = "(bad-case)".to_string();
    let Some(t) = Term::parse(line) else { return bad };
    let Some(a) = t.tagged("rtrs") else { return bad };
    if a.len() != 2 {
        return bad;
    }
    let Some(cl) = a[0].tagged("chunks") else { return bad };
    let Some(chunks) = cl.iter().map(bytes_of).collect::<Option<Vec<Vec<u8>>>>() else { return bad };
    let Some(eof) = a[1].as_bool() else { return bad };
    if chunks.len() > 64 {
        return bad;
    }
    // watchdog: a loop that never yields would hang the whole harness
    let (tx, rx) = std::sync::mpsc::channel();
    std::thread::spawn(move || {
        let r = std::panic::catch_unwind(std::panic::AssertUnwindSafe(|| run(chunks, eof)));
        let _ = tx.send(r.ok());
    });
    match rx.recv_timeout(std::time::Duration::from_secs(20)) {
        Ok(Some(o)) => format!("(rtrs-obs ({}) {})", o.status, o.rx),
        Ok(None) => "(rtrs-obs (panic) 0)".into(),
        Err(_) => "(rtrs-obs (wedge) 0)".into(),
    }
}
