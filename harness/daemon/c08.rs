// Verification harness for C08 (hold/keepalive timing), compiled into rustybgpd's unit-test binary
// only with `--cfg osrg_rustybgp_verif` and `--cfg verif_c08` (or verif_all).  Grand-child of
// `crate::event`, so it reaches the private `PeerSession` internals.
//
// One entry point serves both kinds of C08 case lines:
//
//   (case (cfg ..) (evs ..))   timed FSM histories: handled by `run_case_c08` of the FSM harness
//                              (harness/daemon/fsm.rs, re-included below as `fsm_ctx::h`; it uses
//                              only the `pub(crate)` API of `crate::fsm`).  Its timer bookkeeping is
//                              a transcription of `PeerSession::apply_outputs`.
//   (probe <out>*)             timer probe: ties that transcription to the real code.  A REAL
//                              `PeerSession` is built (`add_peer` + `accept_connection` on a
//                              loopback TCP pair), the REAL `apply_outputs` is called once with the
//                              given outputs, and for each of the two timer collections
//                              (`holdtime_futures`, `keepalive_futures`) the harness reports
//                                (a) whether `.next()` - exactly what `run_select` polls - becomes
//                                    ready within 30 ms on the runtime's clock (paused: a timer that is not due by then is
//                                    `quiet`; `fires` / `quiet`), and
//                                (b) the armed deadline: `Sleep::deadline() - now` rounded to whole
//                                    seconds, `far` when > 10^8 s (tokio caps `sleep(u64::MAX s)` at
//                                    about 30 years = 9.46e8 s), `empty` when the collection has no
//                                    element (its `.next()` is then ready at once with `None`).
//                              Observation: (probe-obs (hold quiet|fires <armed>) (ka quiet|fires <armed>)).
//                              Model side: `Timed.probe`; oracle: `TimedSpec.probeCheck`.
//
// Copied from `mod tests` of event/mod.rs (private there): make_global, make_tables,
// default_peer_params (loopback pairs: rig::loopback_pair).
#![allow(dead_code)]

use super::super::*;

#[path = "/verif/harness/common/sexp.rs"]
mod sexp;
use sexp::Term;

#[path = "/verif/harness/daemon/rig.rs"]
mod rig;

/// Name space the FSM harness expects from its `use super::*` (it is written as a child of
/// `crate::fsm`): the `pub(crate)` items of `crate::fsm` plus that file's own imports.
mod fsm_ctx {
    pub(crate) use crate::fsm::*;
    pub(crate) use fnv::FnvHashMap;
    pub(crate) use rustybgp_packet::bgp::{self, Capability, Family, HoldTime};
    #[path = "/verif/harness/daemon/fsm.rs"]
    pub(crate) mod h;
}

fn make_global() -> GlobalHandle {
    let (tx, _rx) = mpsc::unbounded_channel();
    let (bfd_tx, _bfd_rx) = mpsc::unbounded_channel();
    let mut g = Global::new(tx, bfd_tx);
    g.asn = 65001;
    g.router_id = Ipv4Addr::new(1, 0, 0, 1);
    Arc::new(tokio::sync::RwLock::new(g))
}

fn make_tables() -> TableHandle {
    Arc::new(TableManager::new(1))
}

fn default_peer_params(remote_addr: IpAddr) -> PeerParams {
    PeerParams {
        remote_addr,
        remote_port: Global::BGP_PORT,
        expected_remote_asn: 0,
        local_asn: 0,
        passive: false,
        rs_client: false,
        route_reflector: RouteReflectorConfig::default(),
        delete_on_disconnected: false,
        admin_down: false,
        state: SessionState::Idle,
        holdtime: PeerParams::DEFAULT_HOLD_TIME,
        connect_retry_time: PeerParams::DEFAULT_CONNECT_RETRY_TIME,
        multihop_ttl: None,
        ttl_security: None,
        password: None,
        families: FnvHashMap::default(),
        send_max: FnvHashMap::default(),
        prefix_limits: FnvHashMap::default(),
        graceful_restart: None,
        llgr: None,
        bfd_config: None,
        neighbor_interface: None,
        bind_interface: None,
        export_policy: None,
    }
}

/// Outputs a probe case may contain (`TimedSpec.probeOut`): the task carries on after them and
/// they need no session context.
fn parse_probe_out(t: &Term) -> Option<crate::fsm::PeerFsmOutput> {
    use crate::fsm::{Output, PeerFsmOutput, Role, State};
    let conn = |o| Some(PeerFsmOutput::Connection(Role::Passive, o));
    match t.head() {
        Some("set-hold") => match t.tagged("set-hold") {
            Some([n]) => conn(Output::SetHoldTimer(n.as_u64()?)),
            _ => None,
        },
        Some("set-ka") => match t.tagged("set-ka") {
            Some([n]) => conn(Output::SetKeepaliveTimer(n.as_u64()?)),
            _ => None,
        },
        Some("state") => match t.tagged("state") {
            Some([s]) => conn(Output::StateChanged(match s.as_atom()? {
                "idle" => State::Idle,
                "connect" => State::Connect,
                "active" => State::Active,
                "opensent" => State::OpenSent,
                "openconfirm" => State::OpenConfirm,
                "established" => State::Established,
                _ => return None,
            })),
            _ => None,
        },
        _ => match t.as_atom()? {
            "send-keepalive" => conn(Output::SendMessage(bgp::Message::Keepalive)),
            "stop-active-connect" => Some(PeerFsmOutput::StopActiveConnect),
            _ => None,
        },
    }
}

const FAR_SECS: u128 = 100_000_000;

fn armed_t(fu: &FuturesUnordered<tokio::time::Sleep>, now: tokio::time::Instant) -> Term {
    let fu = Pin::new(fu);
    let mut it = fu.iter_pin_ref();
    let Some(s) = it.next() else {
        return Term::atom("empty");
    };
    if it.next().is_some() {
        return Term::atom("multi");
    }
    let d = s.deadline().saturating_duration_since(now);
    let secs = (d.as_millis() + 500) / 1000;
    if secs > FAR_SECS {
        Term::atom("far")
    } else {
        Term::nat(secs as u64)
    }
}

async fn run_probe(outs: Vec<crate::fsm::PeerFsmOutput>) -> String {
    let global = make_global();
    let tables = make_tables();
    let (client, server) = rig::loopback_pair(); // one listener per process: see rig.rs
    let remote_addr = client.local_addr().unwrap().ip();
    {
        let mut g = global.write().await;
        g.add_peer(default_peer_params(remote_addr), None).unwrap();
    }
    let Some(mut sess) =
        accept_connection(&global, &tables, server, crate::fsm::Role::Passive).await
    else {
        return "(harness-no-session)".into();
    };
    let dummy: SocketAddr = "127.0.0.1:179".parse().unwrap();
    let (step, _effects) = sess.apply_outputs(outs, dummy, dummy).await;
    if !matches!(step, Step::Continue) {
        return "(probe-terminated)".into();
    }
    // (b) armed deadlines, read without polling
    let now = tokio::time::Instant::now();
    let h_armed = armed_t(&sess.holdtime_futures, now);
    let k_armed = armed_t(&sess.keepalive_futures, now);
    // (a) what run_select polls; done last because a completed sleep is consumed by the poll
    let d = Duration::from_millis(30);
    let (h, k) = tokio::join!(
        tokio::time::timeout(d, sess.holdtime_futures.next()),
        tokio::time::timeout(d, sess.keepalive_futures.next()),
    );
    let fq = |ready: bool| Term::atom(if ready { "fires" } else { "quiet" });
    let _ = (&client, &tables);
    Term::tag(
        "probe-obs",
        vec![
            Term::tag("hold", vec![fq(h.is_ok()), h_armed]),
            Term::tag("ka", vec![fq(k.is_ok()), k_armed]),
        ],
    )
    .to_string()
}

fn run_line(rt: &tokio::runtime::Runtime, line: &str) -> String {
    let Some(t) = Term::parse(line) else {
        return "(bad-case)".into();
    };
    if t.head() == Some("probe") {
        let Some(args) = t.as_list() else {
            return "(bad-case)".into();
        };
        let mut outs = Vec::new();
        for a in &args[1..] {
            match parse_probe_out(a) {
                Some(o) => outs.push(o),
                None => return "(bad-case)".into(),
            }
        }
        return rt.block_on(run_probe(outs));
    }
    if t.head() == Some("wire") {
        return rt.block_on(rig::run_wire(&t, true));
    }
    fsm_ctx::h::run_case_c08(line)
}

#[test]
fn verif_main() {
    let (Ok(prop), Ok(inp), Ok(out)) = (
        std::env::var("VERIF_PROP"),
        std::env::var("VERIF_IN"),
        std::env::var("VERIF_OUT"),
    ) else {
        return; // not invoked by /verif/check
    };
    if prop != "C08" {
        return;
    }
    let rt = tokio::runtime::Builder::new_current_thread()
        .enable_all()
        .start_paused(true) // virtual time: see rig.rs (`wait`), and the probes below need no real waiting
        .build()
        .unwrap();
    // only the first panic of a process is reported (stderr), with the case it happened in: a harness
    // process that panics on every case after some point must be diagnosable from the first message
    static FIRST_PANIC: std::sync::atomic::AtomicBool = std::sync::atomic::AtomicBool::new(true);
    std::panic::set_hook(Box::new(|info| {
        if FIRST_PANIC.swap(false, std::sync::atomic::Ordering::SeqCst) {
            eprintln!("C08 harness: first panic of this process: {}", info);
        }
    }));
    sexp::run_lines(&inp, &out, |l| {
        std::panic::catch_unwind(std::panic::AssertUnwindSafe(|| run_line(&rt, l)))
            .unwrap_or_else(|_| "(panic)".into())
    });
}
