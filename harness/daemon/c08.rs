// harness module for C08 (not written yet)
