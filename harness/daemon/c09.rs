// harness module for C09 (not written yet)
