// Verification harness for C09 (propagation rules and attribute rewriting), compiled into
// rustybgpd's unit-test binary only with `--cfg osrg_rustybgp_verif` and `--cfg verif_c09`
// (or verif_all).  Grand-child of `crate::event`, so it reaches the private `export` module
// (`process_nlri_change`, `PeerExportContext`, `ExportMap`, `NlriSink`, `is_as_loop`) and
// `PeerSession::{new_for_test, rx_update}`.
//
// Case syntax: lean/Rbgp/Export/Codec.lean.  `(exp …)` runs the REAL `process_nlri_change` on a
// one-path `NlriChange` with an empty export map and a collecting sink; `(rx …)` runs the loop
// tests in front of the RIB exactly as `run_select` chains them (`is_as_loop` ⇒ skip, else
// `rx_update`) on a `PeerSession` without a socket and reports whether the prefix got installed.
// `(exp2 …)`: the path is inserted into a REAL `table::Table`, the change it emits is processed, then
// `Table::restale_llgr` marks the source and every change IT emits is processed on the same export map.
// `(wire …)`: a REAL `Global` with two neighbours added by `add_peer`; both sessions are built by
// `accept_connection` on loopback TCP connections (role, cluster-id, local AS, confederation id are
// whatever the real code derives), brought to Established by a scripted remote speaker, and driven by
// the REAL `run_select` (socket read -> try_parse -> validate_message -> AS-loop guard -> rx_msg ->
// rx_update; peer event -> handle_prefix_update / on_established dump -> flush_tx); the announcing
// neighbour sends one UPDATE, and what comes out of the receiver's socket is read back with the
// independent UPDATE reader of export_common.rs.  Transcribed: the preamble of session_loop (take the
// stream, feed `Connected`, apply the outputs) and the pump (run_select under a short idle timeout).
#![allow(dead_code)]

use super::super::export::{self, ExportMap, NlriSink, PeerExportContext};
use super::super::*;

#[path = "/verif/harness/daemon/export_common.rs"]
mod xc;
use xc::*;

#[derive(Default)]
struct CollectSink {
    calls: Vec<Term>,
}

impl NlriSink for CollectSink {
    fn reach(
        &mut self,
        _dest_id: u32,
        _nlri: packet::Nlri,
        path_id: u32,
        nexthop: Option<bgp::Nexthop>,
        attr: Arc<Vec<packet::Attribute>>,
        _source: &Arc<table::Source>,
    ) {
        self.calls.push(Term::tag(
            "reach",
            vec![Term::nat(path_id), nh_t(&nexthop), attrs_t(&attr)],
        ));
    }
    fn unreach(&mut self, _dest_id: u32, _nlri: packet::Nlri, path_id: u32) {
        self.calls
            .push(Term::tag("unreach", vec![Term::nat(path_id)]));
    }
}

fn run_exp(args: &[Term]) -> Option<String> {
    let [ctx, sess, pol, src, path] = args else {
        return None;
    };
    let ctx = ctx_of(ctx)?;
    let [raddr, cluster, mx, fam] = sess.tagged("sess")? else {
        return None;
    };
    let remote_addr = addr_of(raddr)?;
    let cluster_id = opt32(cluster)?.map(Ipv4Addr::from);
    let mx = nat_small(mx)?;
    if mx == 0 || mx > 8 {
        return None;
    }
    let family = family_of(fam)?;
    let policy = policy_of(pol)?;
    let source = source_of(src)?;
    let [pid, nh, attrs] = path.tagged("path")? else {
        return None;
    };
    let p = table::Path {
        local_path_id: nat32(pid)?,
        source,
        nexthop: nh_opt_of(nh)?,
        attr: Arc::new(attrs_of(attrs)?),
    };
    let change = table::NlriChange {
        family,
        net: packet::Nlri::V4(packet::bgp::Ipv4Net {
            addr: Ipv4Addr::new(10, 9, 0, 0),
            mask: 24,
        }),
        dest_id: 1,
        best_changed: true,
        any_changed: true,
        replaced_path_id: None,
        current_paths: Arc::new(vec![p]),
    };
    let mut export_map = if mx > 1 {
        ExportMap::new([family])
    } else {
        ExportMap::default()
    };
    let mut sink = CollectSink::default();
    export::process_nlri_change(
        &change,
        mx as usize,
        remote_addr,
        &mut export_map,
        &mut sink,
        &ctx,
        policy.as_deref(),
        cluster_id,
        None,
        None,
        None,
    );
    Some(match sink.calls.len() {
        0 => "suppressed".to_string(),
        1 if sink.calls[0].head() == Some("reach") => sink.calls[0].to_string(),
        _ => "other".to_string(),
    })
}

fn calls_t(calls: &[Term], second: bool) -> Term {
    match calls.len() {
        0 => Term::atom(if second { "nothing" } else { "suppressed" }),
        1 if calls[0].head() == Some("reach") => calls[0].clone(),
        1 if second && calls[0].head() == Some("unreach") => Term::atom("withdrawn"),
        _ => Term::atom("other"),
    }
}

fn run_exp2(args: &[Term]) -> Option<String> {
    let [ctx, sess, pol, src, path] = args else {
        return None;
    };
    let ctx = ctx_of(ctx)?;
    let [raddr, cluster, mx, fam] = sess.tagged("sess")? else {
        return None;
    };
    let remote_addr = addr_of(raddr)?;
    let cluster_id = opt32(cluster)?.map(Ipv4Addr::from);
    let mx = nat_small(mx)?;
    if mx == 0 || mx > 8 {
        return None;
    }
    let family = family_of(fam)?;
    let policy = policy_of(pol)?;
    let source = source_of(src)?;
    if source.is_local() || source.is_kernel() || source.is_llgr_stale() {
        return None;
    }
    let [pid, nh, attrs] = path.tagged("path")? else {
        return None;
    };
    if nat32(pid)? != 1 {
        return None;
    }
    let net = packet::Nlri::V4(packet::bgp::Ipv4Net {
        addr: Ipv4Addr::new(10, 9, 0, 0),
        mask: 24,
    });
    let mut tbl = table::Table::new(0);
    let first = tbl.insert(
        source.clone(),
        family,
        net,
        0,
        nh_opt_of(nh)?,
        Arc::new(attrs_of(attrs)?),
        None,
        false,
        false,
        None,
        0,
    );
    let table::InsertResult::Changed(change) = first else {
        return Some("(harness-no-change)".into());
    };
    let mut export_map = if mx > 1 {
        ExportMap::new([family])
    } else {
        ExportMap::default()
    };
    let mut sink = CollectSink::default();
    let mut feed = |change: &table::NlriChange, export_map: &mut ExportMap, sink: &mut CollectSink| {
        export::process_nlri_change(
            change,
            mx as usize,
            remote_addr,
            export_map,
            sink,
            &ctx,
            policy.as_deref(),
            cluster_id,
            None,
            None,
            None,
        );
    };
    feed(&change, &mut export_map, &mut sink);
    let o1 = calls_t(&sink.calls, false);
    sink.calls.clear();
    for ch in tbl.restale_llgr(source.remote_addr, family) {
        feed(&ch, &mut export_map, &mut sink);
    }
    let o2 = calls_t(&sink.calls, true);
    Some(Term::tag("twice", vec![o1, o2]).to_string())
}

// ---------------------------------------------------------------- wire cases

struct Nbr {
    addr: Ipv4Addr,
    rasn: u32,
    lasn: u32,
    rid: u32,
    rs: bool,
    rrc: bool,
    cluster: Option<u32>,
}

fn nbr_of(t: &Term) -> Option<Nbr> {
    let [a, rasn, lasn, rid, rs, rrc, cl] = t.tagged("nbr")? else {
        return None;
    };
    let IpAddr::V4(addr) = addr_of(a)? else {
        return None;
    };
    if addr.octets()[0] != 127 {
        return None;
    }
    Some(Nbr {
        addr,
        rasn: nat32(rasn)?,
        lasn: nat32(lasn)?,
        rid: nat32(rid)?,
        rs: rs.as_bool()?,
        rrc: rrc.as_bool()?,
        cluster: opt32(cl)?,
    })
}

fn nbr_params(n: &Nbr) -> PeerParams {
    PeerParams {
        remote_addr: IpAddr::V4(n.addr),
        remote_port: Global::BGP_PORT,
        expected_remote_asn: n.rasn,
        local_asn: n.lasn,
        passive: true,
        rs_client: n.rs,
        route_reflector: RouteReflectorConfig {
            route_reflector_client: n.rrc,
            route_reflector_cluster_id: n.cluster.map(Ipv4Addr::from),
        },
        delete_on_disconnected: false,
        admin_down: false,
        state: SessionState::Active,
        holdtime: 90,
        connect_retry_time: 3,
        multihop_ttl: None,
        ttl_security: None,
        password: None,
        families: [(Family::IPV4, 0u8)].into_iter().collect(),
        send_max: FnvHashMap::default(),
        prefix_limits: FnvHashMap::default(),
        graceful_restart: None,
        llgr: None,
        bfd_config: None,
        neighbor_interface: None,
        bind_interface: None,
        export_policy: None,
    }
}

struct WConn {
    sess: PeerSession,
    stream: TcpStream,
    client: TcpStream,
    rxbuf: bytes::BytesMut,
    close_rx: CloseRxFuture,
    local: SocketAddr,
    remote: SocketAddr,
    dead: bool,
}

const W_IDLE: Duration = Duration::from_millis(2);

fn wframe(ty: u8, body: &[u8]) -> Vec<u8> {
    let mut f = vec![0xffu8; 16];
    f.extend_from_slice(&((19 + body.len()) as u16).to_be_bytes());
    f.push(ty);
    f.extend_from_slice(body);
    f
}

fn wopen(asn: u32, rid: u32) -> Vec<u8> {
    let as2: u16 = if asn > 65535 { 23456 } else { asn as u16 };
    let mut caps: Vec<u8> = vec![1, 4, 0, 1, 0, 1, 65, 4];
    caps.extend_from_slice(&asn.to_be_bytes());
    let mut body: Vec<u8> = vec![4];
    body.extend_from_slice(&as2.to_be_bytes());
    body.extend_from_slice(&90u16.to_be_bytes());
    body.extend_from_slice(&rid.to_be_bytes());
    body.push((caps.len() + 2) as u8);
    body.push(2);
    body.push(caps.len() as u8);
    body.extend_from_slice(&caps);
    wframe(1, &body)
}

/// wire form of one attribute term (the remote speaker's own encoder; 4-octet AS numbers)
fn wattr(t: &Term, out: &mut Vec<(u8, Vec<u8>)>) -> Option<()> {
    let mut put = |flags: u8, code: u8, v: Vec<u8>| {
        let mut a = Vec::new();
        if v.len() > 255 {
            a.extend_from_slice(&[flags | 0x10, code]);
            a.extend_from_slice(&(v.len() as u16).to_be_bytes());
        } else {
            a.extend_from_slice(&[flags, code, v.len() as u8]);
        }
        a.extend_from_slice(&v);
        out.push((code, a));
    };
    let l = t.as_list()?;
    match l.first()?.as_atom()? {
        "val" => {
            let [_, c, v] = l else { return None };
            let c = nat_small(c)? as u8;
            let v = nat32(v)?;
            let body = if c == 1 { vec![v as u8] } else { v.to_be_bytes().to_vec() };
            put(canon_flags(c)?, c, body);
        }
        "aspath" => {
            let mut body = Vec::new();
            for seg in &l[1..] {
                let seg = seg.as_list()?;
                body.push(nat_small(seg.first()?)? as u8);
                body.push((seg.len() - 1) as u8);
                for a in &seg[1..] {
                    body.extend_from_slice(&nat32(a)?.to_be_bytes());
                }
            }
            put(0x40, 2, body);
        }
        "words" => {
            let c = nat_small(l.get(1)?)? as u8;
            let mut body = Vec::new();
            for w in &l[2..] {
                body.extend_from_slice(&nat32(w)?.to_be_bytes());
            }
            put(canon_flags(c)?, c, body);
        }
        "bin" => {
            let [_, c, b] = l else { return None };
            let c = nat_small(c)? as u8;
            put(canon_flags(c)?, c, b.as_bytes()?);
        }
        "opq" => {
            let [_, c, f, b] = l else { return None };
            put(nat_small(f)? as u8 & !0x10, nat_small(c)? as u8, b.as_bytes()?);
        }
        _ => return None,
    }
    Some(())
}

fn wupdate(attrs: &Term, nh: Ipv4Addr) -> Option<Vec<u8>> {
    let mut parts: Vec<(u8, Vec<u8>)> = Vec::new();
    for a in attrs.tagged("attrs")? {
        wattr(a, &mut parts)?;
    }
    let mut n = vec![0x40, 3, 4];
    n.extend_from_slice(&nh.octets());
    parts.push((3, n));
    parts.sort_by_key(|x| x.0); // stable
    let at: Vec<u8> = parts.into_iter().flat_map(|x| x.1).collect();
    let mut b: Vec<u8> = vec![0, 0];
    b.extend_from_slice(&(at.len() as u16).to_be_bytes());
    b.extend_from_slice(&at);
    b.extend_from_slice(&[24, 10, 9, 0]);
    Some(wframe(2, &b))
}

async fn wconnect(
    global: &GlobalHandle,
    tables: &TableHandle,
    listener: &tokio::net::TcpListener,
    from: Ipv4Addr,
) -> Option<WConn> {
    let laddr = listener.local_addr().ok()?;
    let sock = tokio::net::TcpSocket::new_v4().ok()?;
    sock.bind(SocketAddr::new(IpAddr::V4(from), 0)).ok()?;
    let (client, server) = tokio::join!(sock.connect(laddr), listener.accept());
    let (client, server) = (client.ok()?, server.ok()?.0);
    let mut sess = accept_connection(global, tables, server, crate::fsm::Role::Passive).await?;
    // --- session_loop preamble (transcribed) ---
    let stream = sess.stream.take()?;
    let remote = stream.peer_addr().ok()?;
    let local = stream.local_addr().ok()?;
    let outputs = sess
        .conn_arbiter
        .lock()
        .unwrap()
        .process(sess.role, crate::fsm::Input::Connected(sess.is_restarting));
    let (_, effects) = sess.apply_outputs(outputs, local, remote).await;
    sess.process_effects(effects, global).await;
    let close_rx: CloseRxFuture = sess.close_rx.take().map(|rx| rx.fuse()).into();
    // --- end of preamble ---
    Some(WConn {
        sess,
        stream,
        client,
        rxbuf: bytes::BytesMut::with_capacity(PeerSession::RXBUF_SIZE),
        close_rx,
        local,
        remote,
        dead: false,
    })
}

/// run every live session's `run_select` until all are idle
async fn wpump(global: &GlobalHandle, conns: &mut [&mut WConn]) {
    let mut budget = 300usize;
    loop {
        let mut progressed = false;
        for c in conns.iter_mut() {
            while !c.dead && budget > 0 {
                let step = tokio::time::timeout(
                    W_IDLE,
                    c.sess.run_select(
                        global,
                        &mut c.stream,
                        &mut c.rxbuf,
                        c.remote,
                        c.local,
                        &mut c.close_rx,
                    ),
                )
                .await;
                match step {
                    Err(_) => break,
                    Ok(Step::Continue) => {
                        budget -= 1;
                        progressed = true;
                    }
                    Ok(Step::Terminate { .. }) => {
                        c.dead = true;
                        progressed = true;
                    }
                }
            }
        }
        if !progressed || budget == 0 {
            break;
        }
    }
}

async fn wwrite(c: &mut WConn, bytes: &[u8]) -> bool {
    use tokio::io::AsyncWriteExt;
    if c.client.write_all(bytes).await.is_err() {
        return false;
    }
    let _ = tokio::time::timeout(Duration::from_secs(2), c.stream.readable()).await;
    true
}

/// what the remote speaker has received so far, as a mirror
async fn wdrain(c: &mut WConn, m: &mut Mirror) -> Result<(), &'static str> {
    let mut buf: Vec<u8> = Vec::new();
    let mut tmp = [0u8; 8192];
    loop {
        match c.client.try_read(&mut tmp) {
            Ok(0) => break,
            Ok(n) => buf.extend_from_slice(&tmp[..n]),
            Err(_) => break,
        }
    }
    apply_bytes(&buf, false, m).map(|_| ())
}

fn wobs(m: &Mirror) -> Term {
    let key: Key = (u32::from(Ipv4Addr::new(10, 9, 0, 0)) as u128, 24, 0);
    match m.get(&key) {
        Some((nh, at)) => Term::tag("reach", vec![Term::nat(0u32), nh.clone(), at.clone()]),
        None => Term::atom("suppressed"),
    }
}

async fn run_wire_async(args: &[Term]) -> Option<String> {
    let [glob, src, dst, first, nh, attrs] = args else {
        return None;
    };
    let [asn, rid, confed, laddr] = glob.tagged("glob")? else {
        return None;
    };
    if addr_of(laddr)? != IpAddr::V4(Ipv4Addr::new(127, 0, 0, 1)) {
        return None;
    }
    let src = nbr_of(src)?;
    let dst = if dst.as_atom() == Some("none") {
        None
    } else {
        Some(nbr_of(dst)?)
    };
    // AS numbers and BGP identifiers a session can be opened with
    let (gasn, grid) = (nat32(asn)?, nat32(rid)?);
    let ok_nbr = |n: &Nbr| n.rasn != 0 && n.rid != 0 && n.rid != grid;
    if gasn == 0 || grid == 0 || !ok_nbr(&src) || dst.as_ref().is_some_and(|d| !ok_nbr(d)) {
        return None;
    }
    let first = first.as_bool()?;
    let Some(bgp::Nexthop::V4(nh)) = nh_opt_of(nh)? else {
        return None;
    };
    // same acceptance as for the other case kinds (the reference codec's well-formedness)
    attrs_of(attrs)?;
    let update = wupdate(attrs, nh)?;
    let loop1 = Ipv4Addr::new(127, 0, 0, 1);
    if src.addr == loop1 || dst.as_ref().is_some_and(|d| d.addr == loop1 || d.addr == src.addr) {
        return None;
    }
    // the router
    let (tx, _rx) = mpsc::unbounded_channel();
    let (bfd_tx, _bfd_rx) = mpsc::unbounded_channel();
    let mut g = Global::new(tx, bfd_tx);
    g.asn = nat32(asn)?;
    g.router_id = Ipv4Addr::from(nat32(rid)?);
    if confed.as_atom() != Some("none") {
        let l = confed.tagged("confed")?;
        let mut members = FnvHashSet::default();
        for m in &l[1..] {
            members.insert(nat32(m)?);
        }
        let id = nat32(l.first()?)?;
        if id == 0 {
            return None;
        }
        g.confederation = Some(ConfederationConfig { id, members });
    }
    if g.add_peer(nbr_params(&src), None).is_err() {
        return Some("(harness-add-peer)".into());
    }
    if let Some(d) = &dst
        && g.add_peer(nbr_params(d), None).is_err()
    {
        return Some("(harness-add-peer)".into());
    }
    let global: GlobalHandle = Arc::new(tokio::sync::RwLock::new(g));
    let tables: TableHandle = Arc::new(TableManager::new(1));
    let listener = tokio::net::TcpListener::bind("127.0.0.1:0").await.ok()?;

    async fn establish(
        global: &GlobalHandle,
        tables: &TableHandle,
        listener: &tokio::net::TcpListener,
        n: &Nbr,
    ) -> Option<WConn> {
        let mut c = wconnect(global, tables, listener, n.addr).await?;
        let mut hello = wopen(n.rasn, n.rid);
        hello.extend_from_slice(&wframe(4, &[]));
        if !wwrite(&mut c, &hello).await {
            return None;
        }
        wpump(global, &mut [&mut c]).await;
        if c.dead || c.sess.state.fsm.load(Ordering::Relaxed) != SessionState::Established as u8 {
            return None;
        }
        Some(c)
    }

    let Some(mut cs) = establish(&global, &tables, &listener, &src).await else {
        return Some("(harness-not-established src)".into());
    };
    let mut cd: Option<WConn> = None;
    if let (Some(d), true) = (&dst, first) {
        match establish(&global, &tables, &listener, d).await {
            Some(c) => cd = Some(c),
            None => return Some("(harness-not-established dst)".into()),
        }
    }
    // the announcement
    if !wwrite(&mut cs, &update).await {
        return Some("(harness-write)".into());
    }
    match cd.as_mut() {
        Some(c) => wpump(&global, &mut [&mut cs, c]).await,
        None => wpump(&global, &mut [&mut cs]).await,
    }
    if let (Some(d), false) = (&dst, first) {
        match establish(&global, &tables, &listener, d).await {
            Some(c) => cd = Some(c),
            None => return Some("(harness-not-established dst)".into()),
        }
        wpump(&global, &mut [&mut cs, cd.as_mut().unwrap()]).await;
    }
    if cs.dead || cd.as_ref().is_some_and(|c| c.dead) {
        return Some("(session-terminated)".into());
    }
    // observations
    let installed = {
        let mut found = Term::atom("absent");
        for ch in tables.collect_loc_rib_paths(Family::IPV4) {
            if let Some(p) = ch.current_paths.first() {
                found = Term::tag("installed", vec![attrs_t(&p.attr)]);
            }
        }
        found
    };
    let mut mb = Mirror::new();
    if wdrain(&mut cs, &mut mb).await.is_err() {
        return Some("(harness-bad-bytes back)".into());
    }
    let mut ms = Mirror::new();
    if let Some(c) = cd.as_mut()
        && wdrain(c, &mut ms).await.is_err()
    {
        return Some("(harness-bad-bytes sent)".into());
    }
    Some(
        Term::tag(
            "wire",
            vec![
                installed,
                Term::tag("back", vec![wobs(&mb)]),
                Term::tag("sent", vec![wobs(&ms)]),
            ],
        )
        .to_string(),
    )
}

fn run_wire(rt: &tokio::runtime::Runtime, args: &[Term]) -> Option<String> {
    rt.block_on(run_wire_async(args))
}

fn run_rx(rt: &tokio::runtime::Runtime, args: &[Term]) -> Option<String> {
    let [lasn, confed, rid, cluster, role, attrs] = args else {
        return None;
    };
    let local_asn = nat32(lasn)?;
    let confed = nat32(confed)?;
    let rid = nat32(rid)?;
    let cluster = opt32(cluster)?;
    let role = role_of(role)?;
    let attr = Arc::new(attrs_of(attrs)?);
    let installed = rt.block_on(async move {
        let tables: TableHandle = Arc::new(TableManager::new(1));
        let remote_addr = IpAddr::V4(Ipv4Addr::new(10, 0, 0, 7));
        let mut s = PeerSession::new_for_test(remote_addr, make_context(), tables.clone());
        s.export_ctx.role = role;
        s.export_ctx.local_asn = local_asn;
        s.export_ctx.confederation_id = confed;
        s.local_router_id = Ipv4Addr::from(rid);
        s.cluster_id = cluster.map(Ipv4Addr::from);
        s.source.insert(
            Family::IPV4,
            Arc::new(table::Source::new(
                remote_addr,
                IpAddr::V4(Ipv4Addr::new(127, 0, 0, 1)),
                if matches!(role, PeerRole::Ibgp | PeerRole::IbgpRrClient) {
                    local_asn
                } else {
                    64999
                },
                local_asn,
                Ipv4Addr::new(10, 0, 0, 7),
                role,
            )),
        );
        let net = packet::Nlri::V4(packet::bgp::Ipv4Net {
            addr: Ipv4Addr::new(10, 9, 0, 0),
            mask: 24,
        });
        // run_select: `if let Update::Reach{attr,..} = &msg && is_as_loop(..) { continue; }`
        // then rx_msg -> rx_update (transcribed chaining; both functions are the real ones)
        if !export::is_as_loop(&attr, s.export_ctx.local_asn, s.export_ctx.confederation_id) {
            let reach = packet::bgp::ReachNlri {
                family: Family::IPV4,
                entries: vec![packet::PathNlri::new(net)],
                nexthop: Some(bgp::Nexthop::V4(Ipv4Addr::new(10, 0, 0, 7))),
            };
            let _ = s.rx_update(Some(reach), None, attr, 0).await;
        }
        tables.table_state(Family::IPV4).num_path > 0
    });
    Some(Term::tag("installed", vec![Term::boolean(installed)]).to_string())
}

fn run_case(rt: &tokio::runtime::Runtime, line: &str) -> String {
    let Some(t) = Term::parse(line) else {
        return "(bad-case)".into();
    };
    let r = if let Some(args) = t.tagged("exp") {
        run_exp(args)
    } else if let Some(args) = t.tagged("exp2") {
        run_exp2(args)
    } else if let Some(args) = t.tagged("wire") {
        run_wire(rt, args)
    } else if let Some(args) = t.tagged("rx") {
        run_rx(rt, args)
    } else {
        None
    };
    r.unwrap_or_else(|| "(bad-case)".into())
}

#[test]
fn verif_main() {
    let (Ok(prop), Ok(inp), Ok(out)) = (
        std::env::var("VERIF_PROP"),
        std::env::var("VERIF_IN"),
        std::env::var("VERIF_OUT"),
    ) else {
        return; // not invoked by /verif/check
    };
    if prop != "C09" {
        return;
    }
    let rt = tokio::runtime::Builder::new_current_thread()
        .enable_all()
        .build()
        .unwrap();
    std::panic::set_hook(Box::new(|_| {}));
    sexp::run_lines(&inp, &out, |l| {
        std::panic::catch_unwind(std::panic::AssertUnwindSafe(|| run_case(&rt, l)))
            .unwrap_or_else(|_| "(panic)".into())
    });
}
