// Verification harness for C09 (propagation rules and attribute rewriting), compiled into
// rustybgpd's unit-test binary only with `--cfg osrg_rustybgp_verif` and `--cfg verif_c09`
// (or verif_all).  Grand-child of `crate::event`, so it reaches the private `export` module
// (`process_nlri_change`, `PeerExportContext`, `ExportMap`, `NlriSink`, `is_as_loop`) and
// `PeerSession::{new_for_test, rx_update}`.
//
// Case syntax: lean/Rbgp/Export/Codec.lean.  `(exp …)` runs the REAL `process_nlri_change` on a
// one-path `NlriChange` with an empty export map and a collecting sink; `(rx …)` runs the loop
// tests in front of the RIB exactly as `run_select` chains them (`is_as_loop` ⇒ skip, else
// `rx_update`) on a `PeerSession` without a socket and reports whether the prefix got installed.
#![allow(dead_code)]

use super::super::export::{self, ExportMap, NlriSink, PeerExportContext};
use super::super::*;

#[path = "/verif/harness/daemon/export_common.rs"]
mod xc;
use xc::*;

#[derive(Default)]
struct CollectSink {
    calls: Vec<Term>,
}

impl NlriSink for CollectSink {
    fn reach(
        &mut self,
        _dest_id: u32,
        _nlri: packet::Nlri,
        path_id: u32,
        nexthop: Option<bgp::Nexthop>,
        attr: Arc<Vec<packet::Attribute>>,
        _source: &Arc<table::Source>,
    ) {
        self.calls.push(Term::tag(
            "reach",
            vec![Term::nat(path_id), nh_t(&nexthop), attrs_t(&attr)],
        ));
    }
    fn unreach(&mut self, _dest_id: u32, _nlri: packet::Nlri, path_id: u32) {
        self.calls
            .push(Term::tag("unreach", vec![Term::nat(path_id)]));
    }
}

fn run_exp(args: &[Term]) -> Option<String> {
    let [ctx, sess, pol, src, path] = args else {
        return None;
    };
    let ctx = ctx_of(ctx)?;
    let [raddr, cluster, mx, fam] = sess.tagged("sess")? else {
        return None;
    };
    let remote_addr = addr_of(raddr)?;
    let cluster_id = opt32(cluster)?.map(Ipv4Addr::from);
    let mx = nat_small(mx)?;
    if mx == 0 || mx > 8 {
        return None;
    }
    let family = family_of(fam)?;
    let policy = policy_of(pol)?;
    let source = source_of(src)?;
    let [pid, nh, attrs] = path.tagged("path")? else {
        return None;
    };
    let p = table::Path {
        local_path_id: nat32(pid)?,
        source,
        nexthop: nh_opt_of(nh)?,
        attr: Arc::new(attrs_of(attrs)?),
    };
    let change = table::NlriChange {
        family,
        net: packet::Nlri::V4(packet::bgp::Ipv4Net {
            addr: Ipv4Addr::new(10, 9, 0, 0),
            mask: 24,
        }),
        dest_id: 1,
        best_changed: true,
        any_changed: true,
        replaced_path_id: None,
        current_paths: Arc::new(vec![p]),
    };
    let mut export_map = if mx > 1 {
        ExportMap::new([family])
    } else {
        ExportMap::default()
    };
    let mut sink = CollectSink::default();
    export::process_nlri_change(
        &change,
        mx as usize,
        remote_addr,
        &mut export_map,
        &mut sink,
        &ctx,
        policy.as_deref(),
        cluster_id,
        None,
        None,
        None,
    );
    Some(match sink.calls.len() {
        0 => "suppressed".to_string(),
        1 if sink.calls[0].head() == Some("reach") => sink.calls[0].to_string(),
        _ => "other".to_string(),
    })
}

fn run_rx(rt: &tokio::runtime::Runtime, args: &[Term]) -> Option<String> {
    let [lasn, confed, rid, cluster, role, attrs] = args else {
        return None;
    };
    let local_asn = nat32(lasn)?;
    let confed = nat32(confed)?;
    let rid = nat32(rid)?;
    let cluster = opt32(cluster)?;
    let role = role_of(role)?;
    let attr = Arc::new(attrs_of(attrs)?);
    let installed = rt.block_on(async move {
        let tables: TableHandle = Arc::new(TableManager::new(1));
        let remote_addr = IpAddr::V4(Ipv4Addr::new(10, 0, 0, 7));
        let mut s = PeerSession::new_for_test(remote_addr, make_context(), tables.clone());
        s.export_ctx.role = role;
        s.export_ctx.local_asn = local_asn;
        s.export_ctx.confederation_id = confed;
        s.local_router_id = Ipv4Addr::from(rid);
        s.cluster_id = cluster.map(Ipv4Addr::from);
        s.source.insert(
            Family::IPV4,
            Arc::new(table::Source::new(
                remote_addr,
                IpAddr::V4(Ipv4Addr::new(127, 0, 0, 1)),
                if matches!(role, PeerRole::Ibgp | PeerRole::IbgpRrClient) {
                    local_asn
                } else {
                    64999
                },
                local_asn,
                Ipv4Addr::new(10, 0, 0, 7),
                role,
            )),
        );
        let net = packet::Nlri::V4(packet::bgp::Ipv4Net {
            addr: Ipv4Addr::new(10, 9, 0, 0),
            mask: 24,
        });
        // run_select: `if let Update::Reach{attr,..} = &msg && is_as_loop(..) { continue; }`
        // then rx_msg -> rx_update (transcribed chaining; both functions are the real ones)
        if !export::is_as_loop(&attr, s.export_ctx.local_asn, s.export_ctx.confederation_id) {
            let reach = packet::bgp::ReachNlri {
                family: Family::IPV4,
                entries: vec![packet::PathNlri::new(net)],
                nexthop: Some(bgp::Nexthop::V4(Ipv4Addr::new(10, 0, 0, 7))),
            };
            let _ = s.rx_update(Some(reach), None, attr, 0).await;
        }
        tables.table_state(Family::IPV4).num_path > 0
    });
    Some(Term::tag("installed", vec![Term::boolean(installed)]).to_string())
}

fn run_case(rt: &tokio::runtime::Runtime, line: &str) -> String {
    let Some(t) = Term::parse(line) else {
        return "(bad-case)".into();
    };
    let r = if let Some(args) = t.tagged("exp") {
        run_exp(args)
    } else if let Some(args) = t.tagged("rx") {
        run_rx(rt, args)
    } else {
        None
    };
    r.unwrap_or_else(|| "(bad-case)".into())
}

#[test]
fn verif_main() {
    let (Ok(prop), Ok(inp), Ok(out)) = (
        std::env::var("VERIF_PROP"),
        std::env::var("VERIF_IN"),
        std::env::var("VERIF_OUT"),
    ) else {
        return; // not invoked by /verif/check
    };
    if prop != "C09" {
        return;
    }
    let rt = tokio::runtime::Builder::new_current_thread()
        .enable_all()
        .build()
        .unwrap();
    std::panic::set_hook(Box::new(|_| {}));
    sexp::run_lines(&inp, &out, |l| {
        std::panic::catch_unwind(std::panic::AssertUnwindSafe(|| run_case(&rt, l)))
            .unwrap_or_else(|_| "(panic)".into())
    });
}
