// C19 daemon-level harness, part living inside daemon/src/bmp.rs (child module of `crate::bmp`):
// thin wrappers that run the REAL private RIB-event -> BMP converters.  See harness/daemon/c19.rs.
#![allow(dead_code, unused_imports)]
use super::*;

/// `adj_rib_in_to_bmp_update`
pub(crate) fn rm_in(change: &AdjRibInChange) -> bgp::Message {
    adj_rib_in_to_bmp_update(change)
}
/// `adj_rib_out_to_bmp_update`
pub(crate) fn rm_out(change: &AdjRibOutChange) -> bgp::Message {
    adj_rib_out_to_bmp_update(change)
}
/// `loc_rib_to_bmp`
pub(crate) fn loc_rib(change: &LocRibChange, router_id: Ipv4Addr, local_asn: u32) -> bmp::Message {
    loc_rib_to_bmp(change, router_id, local_asn)
}
/// `loc_rib_peer_up`
pub(crate) fn loc_rib_up(router_id: Ipv4Addr, local_asn: u32) -> bmp::Message {
    loc_rib_peer_up(router_id, local_asn)
}
/// `apply_snapshot` for every buffered change, then `flush_peer_snapshot` for `addr`
pub(crate) fn flush(changes: Vec<AdjRibInChange>, addr: IpAddr, header: &bmp::PerPeerHeader, flags: u8) -> Vec<bmp::Message> {
    let mut snap: SnapshotMap = FnvHashMap::default();
    for c in changes {
        apply_snapshot(&mut snap, c);
    }
    flush_peer_snapshot(&mut snap, addr, header, flags)
}
