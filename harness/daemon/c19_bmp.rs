// C19 daemon-level harness, part living inside daemon/src/bmp.rs (child module of `crate::bmp`):
// thin wrappers that run the REAL private RIB-event -> BMP converters.  See harness/daemon/c19.rs.
#![allow(dead_code, unused_imports)]
use super::*;

/// `adj_rib_in_to_bmp_update`
pub(crate) fn rm_in(change: &AdjRibInChange) -> bgp::Message {
    adj_rib_in_to_bmp_update(change)
}
/// `adj_rib_out_to_bmp_update`
pub(crate) fn rm_out(change: &AdjRibOutChange) -> bgp::Message {
    adj_rib_out_to_bmp_update(change)
}
/// `loc_rib_to_bmp`
pub(crate) fn loc_rib(change: &LocRibChange, router_id: Ipv4Addr, local_asn: u32) -> bmp::Message {
    loc_rib_to_bmp(change, router_id, local_asn)
}
/// `loc_rib_peer_up`
pub(crate) fn loc_rib_up(router_id: Ipv4Addr, local_asn: u32) -> bmp::Message {
    loc_rib_peer_up(router_id, local_asn)
}
/// `apply_snapshot` for every buffered change, then `flush_peer_snapshot` for `addr`
pub(crate) fn flush(changes: Vec<AdjRibInChange>, addr: IpAddr, header: &bmp::PerPeerHeader, flags: u8) -> Vec<bmp::Message> {
    let mut snap: SnapshotMap = FnvHashMap::default();
    for c in changes {
        apply_snapshot(&mut snap, c);
    }
    flush_peer_snapshot(&mut snap, addr, header, flags)
}

// ---------------------------------------------------------------------------------------------
// The REAL `BmpClient::serve` on a loopback connection, as a task of the caller's runtime (the end-to-end
// items of c19.rs run sessions of the same runtime next to it).  Everything serve writes is collected raw.
pub(crate) struct LiveServe {
    task: tokio::task::JoinHandle<()>,
    server: TcpStream,
    cancel: CancellationToken,
    pub(crate) buf: Vec<u8>,
}

/// bind(127.0.0.1:0) with real-time retries: when other checks running on the machine have
/// momentarily used up the ephemeral ports (TIME_WAIT), wait instead of failing the case.
fn bind_loopback_retry() -> std::net::TcpListener {
    let t0 = std::time::Instant::now();
    loop {
        match std::net::TcpListener::bind("127.0.0.1:0") {
            Ok(l) => return l,
            Err(e) if t0.elapsed() < std::time::Duration::from_secs(120) => {
                let _ = e;
                std::thread::sleep(std::time::Duration::from_millis(250));
            }
            Err(e) => panic!("bind loopback: {e}"),
        }
    }
}

impl LiveServe {
    /// `policy`: 0 pre, 1 post, 2 both, 3 local, 4 all
    pub(crate) async fn start(global: GlobalHandle, tables: TableHandle, policy: u8) -> LiveServe {
        let listener = { let l = bind_loopback_retry(); l.set_nonblocking(true).expect("nonblocking"); tokio::net::TcpListener::from_std(l).expect("tokio listener") };
        let addr = listener.local_addr().unwrap();
        let (client, server) = tokio::join!(TcpStream::connect(addr), listener.accept());
        let cancel = CancellationToken::new();
        let pol = match policy {
            0 => BmpPolicy::Pre,
            1 => BmpPolicy::Post,
            2 => BmpPolicy::Both,
            3 => BmpPolicy::Local,
            _ => BmpPolicy::All,
        };
        let task = tokio::spawn(BmpClient::serve(client.unwrap(), cancel.clone(), global, tables, pol));
        let mut s = LiveServe { task, server: server.unwrap().0, cancel, buf: Vec::new() };
        s.drain().await;
        s
    }

    /// let serve run until nothing new arrives on the wire
    pub(crate) async fn drain(&mut self) {
        use tokio::io::AsyncReadExt;
        let mut tmp = [0u8; 65536];
        let mut idle = 0;
        while idle < 2 {
            match tokio::time::timeout(std::time::Duration::from_millis(15), self.server.read(&mut tmp)).await {
                Ok(Ok(n)) if n > 0 => {
                    self.buf.extend_from_slice(&tmp[..n]);
                    idle = 0;
                }
                Ok(_) => return,
                Err(_) => idle += 1,
            }
        }
    }

    pub(crate) async fn finish(mut self) -> Vec<u8> {
        self.drain().await;
        self.cancel.cancel();
        let _ = (&mut self.task).await;
        self.drain().await;
        self.buf
    }
}
