// harness module for C05 (not written yet)
