// Driver-level rig shared by the C07 and C08 event-hook harnesses (`#[path]`-included as a child
// module of c07.rs / c08.rs, i.e. a great-grand-child of `crate::event`).
//
// A "wire" case drives REAL session tasks' code on real loopback TCP connections, one step at a time:
//
//   real code executed:   Global::add_peer, accept_connection (incl. its duplicate-connection refusal and
//                         the installation of the oneshot close channel in the ConnArbiter),
//                         ConnArbiter::process (incl. delivery of the collision CEASE through the loser's
//                         close channel), PeerSession::run_select (all its arms: close channel, both timer
//                         collections, socket read -> PeerCodec::try_parse -> validate_message -> AS-loop
//                         filter -> rx_msg, socket write -> flush_tx), apply_outputs, process_effects,
//                         finish_session, apply_disconnect (incl. its fallback `process(role, Disconnected)`).
//   transcribed glue:     (1) session_loop's preamble (take the stream, feed `Connected`, apply the outputs,
//                         ignore the step) and its tail (write the NOTIFICATION of `Step::Terminate`, call
//                         finish_session), and `run`'s call of apply_disconnect; `run`'s last block
//                         (clear_session_state / enable_active_connect / peer removal) is NOT executed.
//                         (2) `admin-shutdown` sends CloseReason::AdminShutdown on that ONE role's close
//                         channel (the real `force_down` does it for both roles at once); `reset` goes through
//                         the real GrpcService::reset_peer, `bfd-down` calls the real force_down as the main
//                         loop's BFD arm does.
//                         (3) timer expiry is provoked by replacing the timer collection with `sleep(0)`
//                         (harness write to the field); what happens then is the real run_select.
//   scheduling:           the rig is single-threaded: after every action all live sessions are pumped
//                         (`run_select` polled until it stays pending over several driver turns) until nothing
//                         is left to do.  The rig never waits on a tokio timer or on socket readiness (blocking
//                         std sockets for connect/accept, `try_read`, yields), so under the paused clock of the
//                         C07/C08 harnesses virtual time moves only in `Rig::tick_to` / `Rig::wait`; on a normal
//                         runtime (other harnesses) the same code runs in real time.
//   time (`wait d`):      the clock is moved from one second in which a timer of a live session is due to the
//                         next and the sessions are pumped there: which timer fires, in which order, with which
//                         input and effect is the real run_select on real tokio timers.
//
// Helpers copied from `mod tests` of event/mod.rs (private there): make_global, make_tables,
// default_peer_params, loopback_pair.
#![allow(dead_code)]

use crate::event::*;

use super::sexp::Term;

pub(crate) struct RigCfg {
    pub rid: u32,
    pub asn: u32,
    pub hold: u64,
    pub expected: u32,
}

pub(crate) fn parse_rig_cfg(t: &Term) -> Option<RigCfg> {
    match t.tagged("cfg")? {
        [a, b, c, d] => {
            let (a, b, c, d) = (a.as_u64()?, b.as_u64()?, c.as_u64()?, d.as_u64()?);
            if a > u32::MAX as u64 || b > u32::MAX as u64 || d > u32::MAX as u64 {
                return None;
            }
            Some(RigCfg {
                rid: a as u32,
                asn: b as u32,
                hold: c,
                expected: d as u32,
            })
        }
        _ => None,
    }
}

fn make_global(cfg: &RigCfg) -> GlobalHandle {
    let (tx, _rx) = mpsc::unbounded_channel();
    let (bfd_tx, _bfd_rx) = mpsc::unbounded_channel();
    let mut g = Global::new(tx, bfd_tx);
    g.asn = cfg.asn;
    g.router_id = Ipv4Addr::from(cfg.rid);
    Arc::new(tokio::sync::RwLock::new(g))
}

fn make_tables() -> TableHandle {
    Arc::new(TableManager::new(1))
}

fn peer_params(remote_addr: IpAddr, cfg: &RigCfg) -> PeerParams {
    PeerParams {
        remote_addr,
        remote_port: Global::BGP_PORT,
        expected_remote_asn: cfg.expected,
        local_asn: 0,
        passive: true, // no active-connect task: the rig makes the "active" connection itself
        rs_client: false,
        route_reflector: RouteReflectorConfig::default(),
        delete_on_disconnected: false,
        admin_down: false,
        state: SessionState::Idle,
        holdtime: cfg.hold,
        connect_retry_time: PeerParams::DEFAULT_CONNECT_RETRY_TIME,
        multihop_ttl: None,
        ttl_security: None,
        password: None,
        families: FnvHashMap::default(),
        send_max: FnvHashMap::default(),
        prefix_limits: FnvHashMap::default(),
        graceful_restart: None,
        llgr: None,
        bfd_config: None,
        neighbor_interface: None,
        bind_interface: None,
        export_policy: None,
    }
}

/// The listeners of this process, reused by every `loopback_pair` (the first is used until a connect
/// to it fails).  A listener per pair exhausts the ephemeral ports: every closed connection leaves a
/// TIME_WAIT socket that keeps its port's bind bucket for 60 s, a thorough run (12 harness processes)
/// makes tens of thousands of connections in that time, and `bind(127.0.0.1:0)` then fails with
/// EADDRINUSE in every later case.  With one listener `bind` is called once per process, and a
/// `connect` needs only a free 4-tuple towards that listener (and may reuse a TIME_WAIT one on
/// loopback, tcp_tw_reuse=2).
static LISTENERS: std::sync::Mutex<Vec<std::net::TcpListener>> = std::sync::Mutex::new(Vec::new());

fn std_pair_on(l: &std::net::TcpListener) -> std::io::Result<(std::net::TcpStream, std::net::TcpStream)> {
    let client = std::net::TcpStream::connect(l.local_addr()?)?;
    let me = client.local_addr()?;
    // the connection just made is at the listener's queue; one left there by a pair that failed half
    // way (never observed) is dropped
    loop {
        let (server, from) = l.accept()?;
        if from == me {
            return Ok((client, server));
        }
    }
}

/// A connected loopback TCP pair, made with blocking std sockets: nothing here waits on the
/// runtime (its clock is paused; a parked runtime would auto-advance it to the next session timer).
/// Out of ports (see `LISTENERS`): another listener is tried, then real time is given to the kernel
/// to expire TIME_WAIT sockets (a thread sleep: the runtime's paused clock does not move); the
/// error is a panic only after two minutes of that.
pub fn loopback_pair() -> (tokio::net::TcpStream, tokio::net::TcpStream) {
    let mut ls = LISTENERS.lock().unwrap_or_else(|e| e.into_inner());
    let t0 = std::time::Instant::now();
    let (client, server) = loop {
        let mut last_err = None;
        if let Some(l) = ls.last() {
            match std_pair_on(l) {
                Ok(p) => break p,
                Err(e) => last_err = Some(e),
            }
        }
        match std::net::TcpListener::bind("127.0.0.1:0") {
            Ok(l) => {
                // at most a handful of listeners are kept
                if ls.len() >= 8 {
                    ls.remove(0);
                }
                ls.push(l);
                if last_err.is_none() {
                    continue;
                }
            }
            Err(e) => last_err = Some(e),
        }
        if t0.elapsed() > std::time::Duration::from_secs(120) {
            panic!("rig: no loopback TCP pair after 120 s: {:?}", last_err);
        }
        std::thread::sleep(std::time::Duration::from_millis(200));
    };
    drop(ls);
    for s in [&client, &server] {
        s.set_nonblocking(true).unwrap();
        s.set_nodelay(true).unwrap();
    }
    (
        tokio::net::TcpStream::from_std(client).unwrap(),
        tokio::net::TcpStream::from_std(server).unwrap(),
    )
}

/// Let the runtime's I/O driver run (zero-timeout turns: the paused clock does not move).
async fn settle() {
    for _ in 0..3 {
        tokio::task::yield_now().await;
    }
}

/// Poll `fut` until it is ready, turning the runtime's drivers in between; give up (`None`) when it
/// stays pending over `IDLE_POLLS` turns and a short real pause - the future is then parked at a
/// point where nothing is left to do (for run_select: its select).
async fn drive<F: std::future::Future>(fut: F) -> Option<F::Output> {
    tokio::pin!(fut);
    let mut idle = 0;
    loop {
        if let std::task::Poll::Ready(v) = futures::poll!(fut.as_mut()) {
            return Some(v);
        }
        idle += 1;
        if idle > IDLE_POLLS {
            return None;
        }
        if idle == IDLE_POLLS - 1 {
            std::thread::sleep(std::time::Duration::from_micros(250));
        }
        tokio::task::yield_now().await;
    }
}

// ------------------------------------------------------------------ wire frames (remote speaker side)

fn frame(ty: u8, body: &[u8]) -> Vec<u8> {
    let mut f = vec![0xffu8; 16];
    f.extend_from_slice(&((19 + body.len()) as u16).to_be_bytes());
    f.push(ty);
    f.extend_from_slice(body);
    f
}

pub(crate) fn open_frame(asn: u32, hold: u16, rid: u32) -> Vec<u8> {
    let as2: u16 = if asn > 65535 { 23456 } else { asn as u16 };
    let mut caps: Vec<u8> = Vec::new();
    caps.extend_from_slice(&[1, 4, 0, 1, 0, 1]); // MP IPv4 unicast
    caps.extend_from_slice(&[65, 4]); // 4-octet AS
    caps.extend_from_slice(&asn.to_be_bytes());
    let mut body: Vec<u8> = Vec::new();
    body.push(4);
    body.extend_from_slice(&as2.to_be_bytes());
    body.extend_from_slice(&hold.to_be_bytes());
    body.extend_from_slice(&rid.to_be_bytes());
    body.push((caps.len() + 2) as u8);
    body.push(2);
    body.push(caps.len() as u8);
    body.extend_from_slice(&caps);
    frame(1, &body)
}

pub(crate) fn keepalive_frame() -> Vec<u8> {
    frame(4, &[])
}

pub(crate) fn notification_frame(code: u8, sub: u8) -> Vec<u8> {
    frame(3, &[code, sub])
}

pub(crate) fn route_refresh_frame() -> Vec<u8> {
    frame(5, &[0, 1, 0, 1])
}

/// Path attributes of an announcement: ORIGIN IGP, AS_PATH (one AS_SEQUENCE; 4-octet ASNs once the
/// capability has been negotiated, i.e. after the OPEN exchange), NEXT_HOP.
fn path_attrs(as_path: &[u32], as4: bool) -> Vec<u8> {
    let mut a: Vec<u8> = vec![0x40, 1, 1, 0];
    let w = if as4 { 4 } else { 2 };
    a.extend_from_slice(&[0x40, 2, (2 + w * as_path.len()) as u8, 2, as_path.len() as u8]);
    for asn in as_path {
        if as4 {
            a.extend_from_slice(&asn.to_be_bytes());
        } else {
            let v: u16 = if *asn > 65535 { 23456 } else { *asn as u16 };
            a.extend_from_slice(&v.to_be_bytes());
        }
    }
    a.extend_from_slice(&[0x40, 3, 4, 10, 0, 0, 1]);
    a
}

fn update_frame(withdrawn: &[u8], attrs: &[u8], nlri: &[u8]) -> Vec<u8> {
    let mut b: Vec<u8> = Vec::new();
    b.extend_from_slice(&(withdrawn.len() as u16).to_be_bytes());
    b.extend_from_slice(withdrawn);
    b.extend_from_slice(&(attrs.len() as u16).to_be_bytes());
    b.extend_from_slice(attrs);
    b.extend_from_slice(nlri);
    frame(2, &b)
}

const PREFIX: [u8; 4] = [24, 192, 0, 2];

/// The kinds of UPDATE a remote speaker may send (all are "an UPDATE received").
pub(crate) fn update_of_kind(kind: &str, remote_asn: u32, local_asn: u32, as4: bool) -> Option<Vec<u8>> {
    Some(match kind {
        // ordinary announcement
        "update" => update_frame(&[], &path_attrs(&[remote_asn], as4), &PREFIX),
        // announcement whose AS_PATH contains our own AS (dropped by the AS-loop check)
        "update-looped" => update_frame(&[], &path_attrs(&[remote_asn, local_asn], as4), &PREFIX),
        // path attributes but neither NLRI nor withdrawn routes (valid per RFC 4271 §4.3)
        "update-attrs" => update_frame(&[], &path_attrs(&[remote_asn], as4), &[]),
        "update-withdraw" => update_frame(&PREFIX, &[], &[]),
        "eor" => update_frame(&[], &[], &[]),
        _ => return None,
    })
}

// ------------------------------------------------------------------ the rig

pub(crate) struct Conn {
    pub sess: PeerSession,
    pub stream: TcpStream,
    pub client: Option<TcpStream>,
    pub rxbuf: bytes::BytesMut,
    pub close_rx: CloseRxFuture,
    pub local: SocketAddr,
    pub remote: SocketAddr,
    pub role: crate::fsm::Role,
    /// bytes the remote speaker has received and not yet reported
    pub client_rx: Vec<u8>,
    pub hold_deadline: Option<tokio::time::Instant>,
    pub ka_deadline: Option<tokio::time::Instant>,
}

pub(crate) struct Rig {
    pub cfg: RigCfg,
    pub global: GlobalHandle,
    pub tables: TableHandle,
    pub remote_addr: IpAddr,
    pub conns: [Option<Conn>; 2],
    /// frames delivered to a remote speaker whose connection has since been closed by us
    pub closed_frames: [Vec<Term>; 2],
    pub storm: bool,
}

/// The case's clock: kept apart from `Rig` (other harnesses build a `Rig` themselves).
pub(crate) struct Clock {
    /// start of the case on the runtime's (paused) clock, and the whole seconds passed since
    pub t0: tokio::time::Instant,
    pub now_s: u64,
    /// milliseconds the runtime's clock is ahead of `t0 + now_s`: it grows by one with every action
    /// and every group of timer expiries, so that (a) a timer re-armed in a later action has a
    /// different deadline than before (`set`/`kept`), (b) every deadline that belongs to model second
    /// S lies before `t0 + S s + eps ms` when the clock is moved there (tokio rounds deadlines up to
    /// its 1 ms grid).  Deadlines and expiry times are reported rounded to whole seconds.
    pub eps_ms: u64,
}

impl Clock {
    pub(crate) fn new() -> Clock {
        Clock { t0: tokio::time::Instant::now(), now_s: 0, eps_ms: 0 }
    }
}

pub(crate) fn idx(r: crate::fsm::Role) -> usize {
    if r == crate::fsm::Role::Active { 0 } else { 1 }
}

const IDLE_POLLS: usize = 5;
const PUMP_BUDGET: usize = 400;

fn single_deadline(fu: &FuturesUnordered<tokio::time::Sleep>) -> Option<tokio::time::Instant> {
    let fu = Pin::new(fu);
    let mut it = fu.iter_pin_ref();
    let s = it.next()?;
    Some(s.deadline())
}

const FAR_SECS: u128 = 100_000_000;

fn deadline_t(d: Option<tokio::time::Instant>, now: tokio::time::Instant) -> Term {
    match d {
        None => Term::atom("empty"),
        Some(d) => {
            let secs = (d.saturating_duration_since(now).as_millis() + 500) / 1000;
            if secs > FAR_SECS {
                Term::atom("far")
            } else {
                Term::nat(secs as u64)
            }
        }
    }
}

impl Rig {
    pub(crate) async fn new(cfg: RigCfg) -> Rig {
        let global = make_global(&cfg);
        let tables = make_tables();
        let remote_addr: IpAddr = "127.0.0.1".parse().unwrap();
        {
            let mut g = global.write().await;
            g.add_peer(peer_params(remote_addr, &cfg), None).unwrap();
        }
        Rig {
            cfg,
            global,
            tables,
            remote_addr,
            conns: [None, None],
            closed_frames: [Vec::new(), Vec::new()],
            storm: false,
        }
    }

    pub(crate) fn arbiter(&self) -> Arc<std::sync::Mutex<ConnArbiter>> {
        let g = self.global.try_read().expect("global lock free between steps");
        let peer = g.peers.get(&self.remote_addr).expect("peer");
        let ctx = peer.context.lock().unwrap();
        Arc::clone(&ctx.conn_arbiter)
    }

    pub(crate) fn fsm_state(&self, r: crate::fsm::Role) -> crate::fsm::State {
        self.arbiter().lock().unwrap().state(r)
    }

    pub(crate) fn close_channel_installed(&self, r: crate::fsm::Role) -> bool {
        let arb = self.arbiter();
        let arb = arb.lock().unwrap();
        match r {
            crate::fsm::Role::Active => arb.active_close_tx.is_some(),
            crate::fsm::Role::Passive => arb.passive_close_tx.is_some(),
        }
    }

    /// A new TCP connection of the given role.  `false` = refused by accept_connection.
    pub(crate) async fn connect(&mut self, role: crate::fsm::Role) -> bool {
        let (client, server) = loopback_pair();
        let Some(mut sess) = accept_connection(&self.global, &self.tables, server, role).await
        else {
            return false;
        };
        // timer baseline of the fresh session (before anything is fed to it)
        let hold_deadline = single_deadline(&sess.holdtime_futures);
        let ka_deadline = single_deadline(&sess.keepalive_futures);
        // --- session_loop preamble (transcribed) ---
        let stream = sess.stream.take().unwrap();
        let remote = stream.peer_addr().unwrap();
        let local = stream.local_addr().unwrap();
        let outputs = sess
            .conn_arbiter
            .lock()
            .unwrap()
            .process(sess.role, crate::fsm::Input::Connected(sess.is_restarting));
        let (_, effects) = sess.apply_outputs(outputs, local, remote).await;
        sess.process_effects(effects, &self.global).await;
        let close_rx: CloseRxFuture = sess.close_rx.take().map(|rx| rx.fuse()).into();
        // --- end of preamble ---
        self.closed_frames[idx(role)].clear();
        self.conns[idx(role)] = Some(Conn {
            sess,
            stream,
            client: Some(client),
            rxbuf: bytes::BytesMut::with_capacity(PeerSession::RXBUF_SIZE),
            close_rx,
            local,
            remote,
            role,
            client_rx: Vec::new(),
            hold_deadline,
            ka_deadline,
        });
        true
    }

    /// The remote speaker writes bytes (loopback: they are readable on our side when the write returns).
    pub(crate) async fn client_write(&mut self, role: crate::fsm::Role, bytes: &[u8]) -> bool {
        use tokio::io::AsyncWriteExt;
        let Some(c) = self.conns[idx(role)].as_mut() else {
            return false;
        };
        let Some(cl) = c.client.as_mut() else {
            return false;
        };
        if cl.write_all(bytes).await.is_err() {
            return false;
        }
        settle().await;
        true
    }

    /// The remote speaker closes its end.
    pub(crate) async fn client_close(&mut self, role: crate::fsm::Role) -> bool {
        if self.conns[idx(role)].is_none() {
            return false;
        }
        self.drain_client(role).await;
        let c = self.conns[idx(role)].as_mut().unwrap();
        c.client = None; // drop = FIN
        settle().await;
        true
    }

    /// `disable_peer`/`shutdown_peer` for one role: CloseReason::AdminShutdown on its close channel.
    pub(crate) fn admin_shutdown(&mut self, role: crate::fsm::Role) -> bool {
        let arb = self.arbiter();
        let tx = {
            let mut arb = arb.lock().unwrap();
            match role {
                crate::fsm::Role::Active => arb.active_close_tx.take(),
                crate::fsm::Role::Passive => arb.passive_close_tx.take(),
            }
        };
        match tx {
            Some(tx) => tx.send(CloseReason::AdminShutdown).is_ok(),
            None => false,
        }
    }

    /// Operator's hard ResetPeer through the real gRPC handler (`force_down` with
    /// CloseReason::SendMessage(Cease/peer-deconfigured) for every session of the peer).
    pub(crate) async fn reset_peer(&mut self) -> bool {
        let (active_conn_tx, _rx) = mpsc::unbounded_channel();
        let svc = grpc::GrpcService::new(
            Arc::new(tokio::sync::Notify::new()),
            active_conn_tx,
            self.global.clone(),
            self.tables.clone(),
        );
        svc.reset_peer(tonic::Request::new(api::ResetPeerRequest {
            address: self.remote_addr.to_string(),
            soft: false,
            ..Default::default()
        }))
        .await
        .is_ok()
    }

    /// BFD session down, as the main loop handles `BfdEvent::SessionDown` (transcribed arm, real
    /// `force_down` with CloseReason::Silent).
    pub(crate) async fn bfd_down(&mut self) {
        let mut g = self.global.write().await;
        if let Some(peer) = g.peers.get_mut(&self.remote_addr) {
            peer.context.lock().unwrap().force_down(CloseReason::Silent, false);
        }
    }

    /// Make a timer of the session due now (harness write); the reaction is the real run_select.
    pub(crate) fn expire(&mut self, role: crate::fsm::Role, hold: bool) -> bool {
        let Some(c) = self.conns[idx(role)].as_mut() else {
            return false;
        };
        let due: FuturesUnordered<tokio::time::Sleep> =
            vec![tokio::time::sleep(Duration::from_secs(0))].into_iter().collect();
        if hold {
            c.sess.holdtime_futures = due;
        } else {
            c.sess.keepalive_futures = due;
        }
        true
    }

    /// session_loop tail + run (transcribed): send the NOTIFICATION, finish_session, apply_disconnect.
    async fn finish(
        &mut self,
        role: crate::fsm::Role,
        reason: crate::fsm::SessionDownReason,
        notification: Option<bgp::Message>,
    ) {
        use tokio::io::AsyncWriteExt;
        let mut c = self.conns[idx(role)].take().unwrap();
        if let Some(msg) = notification {
            let mut txbuf = bytes::BytesMut::with_capacity(c.sess.txbuf_size);
            if c.sess.codec.encode_to(&msg, &mut txbuf).is_ok()
                && c.stream.write_all(&txbuf.freeze()).await.is_ok()
            {
                c.sess.counter_tx.sync_tx(&msg, 1);
            }
        }
        let disconnect = DisconnectInfo {
            role: c.sess.role,
            remote_addr: c.sess.remote_addr,
            export_map: ExportMap::default(),
            negotiated_gr: None,
            negotiated_llgr: None,
        };
        let info = c.sess.finish_session(reason, &self.global, disconnect).await;
        let _ = apply_disconnect(&c.sess.context, c.sess.remote_addr, &self.tables, info).await;
        // what the remote speaker got before we close
        let _ = c.stream.shutdown().await;
        let mut frames = Vec::new();
        if let Some(cl) = c.client.as_mut() {
            settle().await;
            read_all(cl, &mut c.client_rx, true).await;
            frames = take_frames(&mut c.client_rx);
        }
        frames.push(Term::atom("eof"));
        self.closed_frames[idx(role)] = frames;
        drop(c);
    }

    /// Pump every live session until none has anything left to do.
    pub(crate) async fn pump(&mut self) {
        let mut budget = PUMP_BUDGET;
        loop {
            let mut progressed = false;
            for i in 0..2 {
                loop {
                    let Some(c) = self.conns[i].as_mut() else { break };
                    if budget == 0 {
                        self.storm = true;
                        return;
                    }
                    let step = drive(c.sess.run_select(
                        &self.global,
                        &mut c.stream,
                        &mut c.rxbuf,
                        c.remote,
                        c.local,
                        &mut c.close_rx,
                    ))
                    .await;
                    match step {
                        None => break, // idle
                        Some(Step::Continue) => {
                            budget -= 1;
                            progressed = true;
                        }
                        Some(Step::Terminate {
                            reason,
                            notification,
                        }) => {
                            progressed = true;
                            let role = c.role;
                            self.finish(role, reason, notification).await;
                            break;
                        }
                    }
                }
            }
            if !progressed {
                break;
            }
        }
    }

    async fn drain_client(&mut self, role: crate::fsm::Role) {
        if let Some(c) = self.conns[idx(role)].as_mut() {
            if let Some(cl) = c.client.as_mut() {
                read_all(cl, &mut c.client_rx, false).await;
            }
        }
    }

    /// Frames the remote speaker of `role` received since the last call (UPDATEs are not reported).
    pub(crate) async fn frames(&mut self, role: crate::fsm::Role) -> Term {
        let i = idx(role);
        if self.conns[i].is_some() {
            self.drain_client(role).await;
            let c = self.conns[i].as_mut().unwrap();
            Term::list(take_frames(&mut c.client_rx))
        } else {
            Term::list(std::mem::take(&mut self.closed_frames[i]))
        }
    }

    /// Move the clock to `t0 + sec s + eps ms` with a fresh, larger `eps`.
    pub(crate) async fn tick_to(&mut self, clk: &mut Clock, sec: u64) {
        clk.eps_ms += 1;
        if clk.eps_ms > 450 {
            self.storm = true; // the rounding to whole seconds would no longer be safe
        }
        let target = clk.t0 + Duration::from_secs(sec) + Duration::from_millis(clk.eps_ms);
        let now = tokio::time::Instant::now();
        if target > now {
            tokio::time::advance(target - now).await;
        }
    }

    /// whole model second a deadline belongs to
    fn sec_of(clk: &Clock, d: tokio::time::Instant) -> u64 {
        d.saturating_duration_since(clk.t0).as_secs()
    }

    /// the earliest model second <= `limit` at which some timer of a live session is due
    fn due_second(&self, clk: &Clock, limit: u64) -> Option<u64> {
        let mut next: Option<u64> = None;
        for c in self.conns.iter().flatten() {
            for d in [
                single_deadline(&c.sess.holdtime_futures),
                single_deadline(&c.sess.keepalive_futures),
            ]
            .into_iter()
            .flatten()
            {
                let s = Self::sec_of(clk, d);
                if s <= limit && next.map_or(true, |n| s < n) {
                    next = Some(s);
                }
            }
        }
        next
    }

    /// `d` seconds pass on the runtime's (paused) clock.  Time is moved from one second in which a
    /// timer of a live session is due (read from the sessions' timer collections) to the next, and the
    /// sessions are pumped at each: what fires, in which order, with which input and effect is the
    /// real run_select on real tokio timers.  Returns the frames each remote speaker got and the
    /// expiries seen (whole seconds since the start, role, hold|ka): a KEEPALIVE on the wire = a
    /// keepalive-timer expiry, NOTIFICATION (4,0) = a hold-timer expiry.
    pub(crate) async fn wait(&mut self, clk: &mut Clock, d: u64) -> ([Vec<Term>; 2], Vec<Term>) {
        let limit = clk.now_s + d;
        let mut acc: [Vec<Term>; 2] = [Vec::new(), Vec::new()];
        let mut fired = Vec::new();
        let mut budget: u64 = 2 * d + 8;
        while let Some(sec) = self.due_second(clk, limit) {
            if budget == 0 {
                self.storm = true;
            }
            if self.storm {
                break;
            }
            budget -= 1;
            let at = sec.max(clk.now_s);
            self.tick_to(clk, at).await;
            self.pump().await;
            for (role, name) in [(crate::fsm::Role::Active, "A"), (crate::fsm::Role::Passive, "P")] {
                let Term::List(fr) = self.frames(role).await else { continue };
                for f in fr {
                    if f.as_atom() == Some("keepalive") {
                        fired.push(Term::list(vec![Term::nat(sec), Term::atom(name), Term::atom("ka")]));
                    } else if f.to_string() == "(notif 4 0)" {
                        fired.push(Term::list(vec![Term::nat(sec), Term::atom(name), Term::atom("hold")]));
                    }
                    acc[idx(role)].push(f);
                }
            }
        }
        clk.now_s = limit;
        self.tick_to(clk, limit).await;
        (acc, fired)
    }

    /// Timer probe of one role: (tm <role> (hold set|kept <armed>) (ka set|kept <armed>)) or (tm <role> none).
    pub(crate) fn timers(&mut self, role: crate::fsm::Role, name: &str) -> Term {
        let Some(c) = self.conns[idx(role)].as_mut() else {
            return Term::tag("tm", vec![Term::atom(name), Term::atom("none")]);
        };
        let now = tokio::time::Instant::now();
        let h = single_deadline(&c.sess.holdtime_futures);
        let k = single_deadline(&c.sess.keepalive_futures);
        let sk = |changed: bool| Term::atom(if changed { "set" } else { "kept" });
        let t = Term::tag(
            "tm",
            vec![
                Term::atom(name),
                Term::tag("hold", vec![sk(h != c.hold_deadline), deadline_t(h, now)]),
                Term::tag("ka", vec![sk(k != c.ka_deadline), deadline_t(k, now)]),
            ],
        );
        c.hold_deadline = h;
        c.ka_deadline = k;
        t
    }
}

/// Read what the remote speaker has received; with `until_eof` keep turning the I/O driver until
/// our close has arrived (bounded: loopback delivery is immediate).
async fn read_all(cl: &mut TcpStream, buf: &mut Vec<u8>, until_eof: bool) {
    let mut tmp = [0u8; 8192];
    let mut tries = 0;
    loop {
        match cl.try_read(&mut tmp) {
            Ok(0) => return,
            Ok(n) => buf.extend_from_slice(&tmp[..n]),
            Err(ref e) if e.kind() == std::io::ErrorKind::WouldBlock => {
                tries += 1;
                if !until_eof || tries > 200 {
                    return;
                }
                if tries % 8 == 0 {
                    std::thread::sleep(std::time::Duration::from_micros(250));
                }
                tokio::task::yield_now().await;
            }
            Err(_) => return,
        }
    }
}

/// Split complete frames off `buf`; report OPEN / KEEPALIVE / NOTIFICATION (UPDATE and others are skipped).
fn take_frames(buf: &mut Vec<u8>) -> Vec<Term> {
    let mut out = Vec::new();
    let mut pos = 0;
    while buf.len() >= pos + 19 {
        let len = u16::from_be_bytes([buf[pos + 16], buf[pos + 17]]) as usize;
        if len < 19 || buf.len() < pos + len {
            break;
        }
        let ty = buf[pos + 18];
        match ty {
            1 => out.push(Term::atom("open")),
            4 => out.push(Term::atom("keepalive")),
            3 => {
                let (c, s) = if len >= 21 { (buf[pos + 19], buf[pos + 20]) } else { (0, 0) };
                out.push(Term::tag("notif", vec![Term::nat(c), Term::nat(s)]));
            }
            _ => {}
        }
        pos += len;
    }
    buf.drain(..pos);
    out
}

// ------------------------------------------------------------------ wire cases

pub(crate) fn state_t(s: crate::fsm::State) -> Term {
    use crate::fsm::State;
    Term::atom(match s {
        State::Idle => "idle",
        State::Connect => "connect",
        State::Active => "active",
        State::OpenSent => "opensent",
        State::OpenConfirm => "openconfirm",
        State::Established => "established",
    })
}

fn parse_role(t: &Term) -> Option<crate::fsm::Role> {
    match t.as_atom()? {
        "A" => Some(crate::fsm::Role::Active),
        "P" => Some(crate::fsm::Role::Passive),
        _ => None,
    }
}

/// `(wire (cfg rid asn hold expected) (evs (A|P <action>)*))`; `with_timers` adds the timer probes (C08).
pub(crate) async fn run_wire(t: &Term, with_timers: bool) -> String {
    // The runtime's clock must be paused (c07.rs / c08.rs build it with `start_paused`): the rig never
    // waits on a tokio timer or on socket readiness, so virtual time moves only in `Rig::wait`.
    run_wire_inner(t, with_timers).await
}

async fn run_wire_inner(t: &Term, with_timers: bool) -> String {
    let Some([cfg, evs]) = t.tagged("wire") else {
        return "(bad-case)".into();
    };
    let Some(cfg) = parse_rig_cfg(cfg) else {
        return "(bad-case)".into();
    };
    if !(cfg.hold == 0 || (3..=65535).contains(&cfg.hold)) {
        return "(bad-case)".into();
    }
    let Some(evs) = evs.tagged("evs") else {
        return "(bad-case)".into();
    };
    // validate the whole script first (so that an ill-formed case is `(bad-case)` on both sides)
    for e in evs {
        let Some([r, a]) = e.as_list() else {
            return "(bad-case)".into();
        };
        if parse_role(r).is_none() || !action_ok(a) {
            return "(bad-case)".into();
        }
    }
    let local_asn = cfg.asn;
    let mut rig = Rig::new(cfg).await;
    let mut clk = Clock::new();
    let mut remote_asn: [u32; 2] = [65002, 65002];
    let mut steps = Vec::new();
    for e in evs {
        let [r, a] = e.as_list().unwrap() else { unreachable!() };
        let role = parse_role(r).unwrap();
        let live = rig.conns[idx(role)].is_some();
        let head = a.head().or(a.as_atom()).unwrap_or("");
        let at = clk.now_s;
        rig.tick_to(&mut clk, at).await;
        let mut waited: Option<([Vec<Term>; 2], Vec<Term>)> = None;
        let kind: &str = if head == "wait" {
            let [d] = a.tagged("wait").unwrap() else { unreachable!() };
            waited = Some(rig.wait(&mut clk, d.as_u64().unwrap()).await);
            "step"
        } else if head == "reset" {
            rig.reset_peer().await;
            "step"
        } else if head == "bfd-down" {
            rig.bfd_down().await;
            "step"
        } else if head == "connect" {
            if rig.connect(role).await { "step" } else { "refused" }
        } else if !live {
            "no-conn"
        } else {
            match head {
                "open" => {
                    let [x, h, i] = a.tagged("open").unwrap() else { unreachable!() };
                    let (x, h, i) = (x.as_u64().unwrap(), h.as_u64().unwrap(), i.as_u64().unwrap());
                    remote_asn[idx(role)] = x as u32;
                    rig.client_write(role, &open_frame(x as u32, h as u16, i as u32)).await;
                    "step"
                }
                "keepalive" => {
                    rig.client_write(role, &keepalive_frame()).await;
                    "step"
                }
                "update" | "update-looped" | "update-attrs" | "update-withdraw" | "eor" => {
                    let as4 = rig.fsm_state(role) != crate::fsm::State::OpenSent;
                    let f = update_of_kind(head, remote_asn[idx(role)], local_asn, as4).unwrap();
                    rig.client_write(role, &f).await;
                    "step"
                }
                "notification" => {
                    let [c, s] = a.tagged("notification").unwrap() else { unreachable!() };
                    rig.client_write(
                        role,
                        &notification_frame(c.as_u64().unwrap() as u8, s.as_u64().unwrap() as u8),
                    )
                    .await;
                    "step"
                }
                "route-refresh" => {
                    rig.client_write(role, &route_refresh_frame()).await;
                    "step"
                }
                "close" => {
                    rig.client_close(role).await;
                    "step"
                }
                "admin-shutdown" => {
                    rig.admin_shutdown(role);
                    "step"
                }
                "hold-timer" => {
                    rig.expire(role, true);
                    "step"
                }
                // the hold timer is due AND a KEEPALIVE is readable: the timers are polled first
                "hold-timer+keepalive" => {
                    rig.client_write(role, &keepalive_frame()).await;
                    rig.expire(role, true);
                    settle().await;
                    "step"
                }
                "ka-timer" => {
                    // only meaningful once the keepalive timer runs (OpenConfirm / Established)
                    let st = rig.fsm_state(role);
                    if matches!(
                        st,
                        crate::fsm::State::OpenConfirm | crate::fsm::State::Established
                    ) {
                        rig.expire(role, false);
                        "step"
                    } else {
                        "skipped"
                    }
                }
                _ => unreachable!(),
            }
        };
        rig.pump().await;
        let mut items = vec![Term::atom(kind)];
        let mut fa = rig.frames(crate::fsm::Role::Active).await;
        let mut fp = rig.frames(crate::fsm::Role::Passive).await;
        let mut fired_t = None;
        if let Some((acc, fired)) = waited {
            let [a0, p0] = acc;
            if let (Term::List(x), Term::List(y)) = (&mut fa, &mut fp) {
                let mut a1 = a0;
                a1.append(x);
                *x = a1;
                let mut p1 = p0;
                p1.append(y);
                *y = p1;
            }
            if !fired.is_empty() {
                fired_t = Some(Term::tag("fired", fired));
            }
        }
        items.push(Term::tag("to-a", vec![fa]));
        items.push(Term::tag("to-p", vec![fp]));
        items.push(state_t(rig.fsm_state(crate::fsm::Role::Active)));
        items.push(state_t(rig.fsm_state(crate::fsm::Role::Passive)));
        if with_timers {
            items.push(rig.timers(crate::fsm::Role::Active, "A"));
            items.push(rig.timers(crate::fsm::Role::Passive, "P"));
        }
        if let Some(f) = fired_t {
            items.push(f);
        }
        // quiescence invariant the duplicate-connection refusal relies on
        for (r, n) in [(crate::fsm::Role::Active, "A"), (crate::fsm::Role::Passive, "P")] {
            if rig.close_channel_installed(r) != rig.conns[idx(r)].is_some() {
                items.push(Term::tag("close-channel-mismatch", vec![Term::atom(n)]));
            }
        }

        if rig.storm {
            items.push(Term::atom("storm"));
            steps.push(Term::list(items));
            break;
        }
        steps.push(Term::list(items));
    }
    Term::tag("wire-obs", steps).to_string()
}

fn action_ok(a: &Term) -> bool {
    let small = |t: &Term, max: u64| t.as_u64().is_some_and(|v| v <= max);
    if let Some(x) = a.as_atom() {
        return matches!(
            x,
            "connect"
                | "keepalive"
                | "update"
                | "update-looped"
                | "update-attrs"
                | "update-withdraw"
                | "eor"
                | "route-refresh"
                | "close"
                | "admin-shutdown"
                | "hold-timer"
                | "hold-timer+keepalive"
                | "ka-timer"
                | "reset"
                | "bfd-down"
        );
    }
    match a.head() {
        Some("open") => matches!(a.tagged("open"), Some([x, h, i])
            if small(x, u32::MAX as u64) && small(h, 65535) && small(i, u32::MAX as u64)),
        Some("notification") => {
            matches!(a.tagged("notification"), Some([c, s]) if small(c, 255) && small(s, 255))
        }
        Some("wait") => matches!(a.tagged("wait"), Some([d]) if small(d, 200000)),
        _ => false,
    }
}
