// harness module for C18 (not written yet)
