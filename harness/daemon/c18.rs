// Verification harness for C18 (a monitoring subscriber reconstructs the exact Adj-RIB-In).
// Compiled into rustybgpd's unit-test binary only with
// `--cfg osrg_rustybgp_verif --cfg verif_c18|verif_all`; child module of `crate::event::verif_event`.
//
// A case (lean/Rbgp/Monitor/Codec.lean syntax)
//   (case (cfg <nshards> <gran> <limit>) (threads (w <op>*)|(s <op>*) ...) (sched <n>*))
// is run against a REAL `TableManager`: one OS thread per case thread, all of them driven by a
// deterministic scheduler that lets exactly one thread run between two scheduling points.  The
// scheduling points inside the code under test are the cfg-guarded
// `table_manager::verif_sched::point` calls (before every shard-lock acquisition, after every
// subscriber-list load, after `subscribe`'s rcu); the harness adds one before every operation
// (and between `unregister_peer` and `peer_down` of a session teardown).
//
//   writer thread i (peer 10.0.0.(i+1)):  up | down | (ins k j pid a) | (rem k j pid) | sr
//                                         | (pol none|reject|tag) | gdown | purge
//   subscriber thread:                    (sub t|f) | unsub
//
// Observation: per-thread return values, and per subscription the received `BgpEvent` stream
// projected per universe key (keys in order of first mention in the case), plus the final
// `iter_reach` / `iter_reach_post` of every shard, plus what the real bmp.rs consumer functions
// (`apply_snapshot`, `track_peer_up/down`) make of the stream.
#![allow(dead_code)]

use std::net::{IpAddr, Ipv4Addr};
use std::sync::atomic::AtomicU64;
use std::sync::{Arc, Condvar, Mutex, OnceLock};
use std::time::Duration;

use rustybgp_packet::{self as packet, Family, bgp};
use rustybgp_table as table;

use crate::bmp::verif_c18_bmp::{Consumer, Wire};
use crate::table_manager::{
    BgpEvent, PeerDownData, PeerUpData, Subscription, TableManager, verif_sched,
};

#[path = "/verif/harness/common/sexp.rs"]
mod sexp;
use sexp::Term;

const MAX_SHARDS: usize = 3;
const MAX_IDX: usize = 3;
const MAX_PID: u64 = 3;
const MAX_THREADS: usize = 5;
const OP: u32 = 0; // harness-level scheduling point (before an operation)

// ---------------------------------------------------------------- case
#[derive(Clone, Copy, PartialEq, Eq, Hash, Debug)]
struct Key {
    peer: usize,
    shard: usize,
    idx: usize,
    pid: u32,
}

#[derive(Clone, Copy, Debug)]
enum Pol {
    None,
    Reject,
    Tag,
}

#[derive(Clone, Debug)]
enum Op {
    Up,
    Down,
    Ins(usize, usize, u32, u32),
    Rem(usize, usize, u32),
    Sr,
    Pol(Pol),
    GDown,
    Purge,
    Sub(bool),
    Unsub,
}

struct Case {
    nshards: usize,
    gran: u8,
    limit: u32,
    threads: Vec<(bool, Vec<Op>)>, // (is_writer, ops)
    sched: Vec<usize>,
}

fn parse_case(line: &str) -> Option<Case> {
    let t = Term::parse(line)?;
    let [cfg, threads, sched] = t.tagged("case")? else { return None };
    let [n, g, l] = cfg.tagged("cfg")? else { return None };
    let (nshards, gran, limit) = (n.as_u64()? as usize, g.as_u64()?, l.as_u64()?);
    if nshards == 0 || nshards > MAX_SHARDS || gran > 1 || limit > 9 {
        return None;
    }
    let mut ths = Vec::new();
    for th in threads.tagged("threads")? {
        let l = th.as_list()?;
        let kind = l.first()?.as_atom()?;
        let writer = match kind {
            "w" => true,
            "s" => false,
            _ => return None,
        };
        let mut ops = Vec::new();
        for o in &l[1..] {
            let op = match (o.head()?, o) {
                ("up", Term::Atom(_)) => Op::Up,
                ("down", Term::Atom(_)) => Op::Down,
                ("sr", Term::Atom(_)) => Op::Sr,
                ("gdown", Term::Atom(_)) => Op::GDown,
                ("purge", Term::Atom(_)) => Op::Purge,
                ("unsub", Term::Atom(_)) => Op::Unsub,
                ("ins", _) => {
                    let [k, j, p, a] = o.tagged("ins")? else { return None };
                    let (k, j, p, a) = (k.as_u64()?, j.as_u64()?, p.as_u64()?, a.as_u64()?);
                    if k as usize >= nshards || j as usize >= MAX_IDX || p >= MAX_PID || a >= 1000 {
                        return None;
                    }
                    Op::Ins(k as usize, j as usize, p as u32, a as u32)
                }
                ("rem", _) => {
                    let [k, j, p] = o.tagged("rem")? else { return None };
                    let (k, j, p) = (k.as_u64()?, j.as_u64()?, p.as_u64()?);
                    if k as usize >= nshards || j as usize >= MAX_IDX || p >= MAX_PID {
                        return None;
                    }
                    Op::Rem(k as usize, j as usize, p as u32)
                }
                ("pol", _) => {
                    let [x] = o.tagged("pol")? else { return None };
                    Op::Pol(match x.as_atom()? {
                        "none" => Pol::None,
                        "reject" => Pol::Reject,
                        "tag" => Pol::Tag,
                        _ => return None,
                    })
                }
                ("sub", _) => {
                    let [w] = o.tagged("sub")? else { return None };
                    Op::Sub(w.as_bool()?)
                }
                _ => return None,
            };
            let is_sub_op = matches!(op, Op::Sub(_) | Op::Unsub);
            if is_sub_op == writer {
                return None;
            }
            ops.push(op);
        }
        ths.push((writer, ops));
    }
    if ths.is_empty() || ths.len() > MAX_THREADS {
        return None;
    }
    let mut sc = Vec::new();
    for s in sched.tagged("sched")? {
        sc.push(s.as_u64()? as usize);
    }
    Some(Case { nshards, gran: gran as u8, limit: limit as u32, threads: ths, sched: sc })
}

/// Keys in order of first mention (ins / rem) in the case.
fn universe(c: &Case) -> Vec<Key> {
    let mut u: Vec<Key> = Vec::new();
    for (tid, (_, ops)) in c.threads.iter().enumerate() {
        for o in ops {
            let k = match o {
                Op::Ins(k, j, p, _) => Key { peer: tid, shard: *k, idx: *j, pid: *p },
                Op::Rem(k, j, p) => Key { peer: tid, shard: *k, idx: *j, pid: *p },
                _ => continue,
            };
            if !u.contains(&k) {
                u.push(k);
            }
        }
    }
    u
}

// ---------------------------------------------------------------- encodings
fn peer_addr(p: usize) -> IpAddr {
    IpAddr::V4(Ipv4Addr::new(10, 0, 0, (p + 1) as u8))
}
fn peer_of(a: &IpAddr) -> Option<usize> {
    match a {
        IpAddr::V4(v) => {
            let o = v.octets();
            if o[0] == 10 && o[1] == 0 && o[2] == 0 && o[3] >= 1 { Some(o[3] as usize - 1) } else { None }
        }
        _ => None,
    }
}
fn nlri_of_octet(x: u8) -> packet::Nlri {
    packet::Nlri::V4(bgp::Ipv4Net { addr: Ipv4Addr::new(10, x, 0, 0), mask: 16 })
}
fn octet_of(n: &packet::Nlri) -> Option<u8> {
    match n {
        packet::Nlri::V4(n) if n.mask == 16 && n.addr.octets()[0] == 10 => Some(n.addr.octets()[1]),
        _ => None,
    }
}
fn new_source(p: usize) -> Arc<table::Source> {
    Arc::new(table::Source::new(
        peer_addr(p),
        IpAddr::V4(Ipv4Addr::new(10, 0, 0, 254)),
        65010 + p as u32,
        65001,
        Ipv4Addr::new(10, 0, 0, (p + 1) as u8),
        table::PeerRole::Ebgp,
    ))
}
fn attrs_of(a: u32) -> Arc<Vec<packet::Attribute>> {
    Arc::new(vec![
        packet::Attribute::new_with_value(packet::Attribute::ORIGIN, 0).unwrap(),
        packet::Attribute::new_with_value(packet::Attribute::MULTI_EXIT_DESC, a).unwrap(),
    ])
}
/// attribute list -> model value: MED (+1000 when the `tag` policy added LOCAL_PREF)
fn val_of(attrs: &[packet::Attribute]) -> u64 {
    let med = attrs
        .iter()
        .find(|a| a.code() == packet::Attribute::MULTI_EXIT_DESC)
        .and_then(|a| a.value());
    let lp = attrs.iter().any(|a| a.code() == packet::Attribute::LOCAL_PREF);
    match med {
        Some(m) => m as u64 + if lp { 1000 } else { 0 },
        None => 9999,
    }
}
fn policy_of(p: Pol) -> Option<Arc<table::PolicyAssignment>> {
    match p {
        Pol::None => None,
        Pol::Reject => Some(Arc::new(table::PolicyAssignment {
            name: Arc::from("verif"),
            disposition: table::Disposition::Reject,
            policies: vec![],
            needs_rpki: false,
        })),
        Pol::Tag => Some(Arc::new(table::PolicyAssignment {
            name: Arc::from("verif"),
            disposition: table::Disposition::Accept,
            policies: vec![Arc::new(table::Policy {
                name: Arc::from("p"),
                statements: vec![Arc::new(table::Statement {
                    name: Arc::from("s"),
                    conditions: vec![],
                    disposition: Some(table::Disposition::Accept),
                    actions: table::Actions {
                        local_pref: Some(table::LocalPrefAction { value: 777 }),
                        ..Default::default()
                    },
                })],
            })],
            needs_rpki: false,
        })),
    }
}

/// For `n` shards: `tab[k][j]` = second octet x such that 10.x.0.0/16 is dealt to shard k by the
/// real `TableManager::dealer` (found by inserting into a scratch manager and looking where it went).
fn prefix_table(n: usize) -> &'static Vec<Vec<u8>> {
    static TABS: OnceLock<Vec<Vec<Vec<u8>>>> = OnceLock::new();
    let all = TABS.get_or_init(|| {
        (1..=MAX_SHARDS)
            .map(|n| {
                let tm = TableManager::new(n);
                let src = new_source(0);
                let mut tab: Vec<Vec<u8>> = vec![Vec::new(); n];
                for x in 0..=255u8 {
                    tm.insert_route(
                        src.clone(),
                        Family::IPV4,
                        packet::PathNlri::new(nlri_of_octet(x)),
                        Some(bgp::Nexthop::V4(Ipv4Addr::new(10, 0, 0, 1))),
                        attrs_of(1),
                        None,
                        0,
                    );
                    for (k, sh) in tm.shards.iter().enumerate() {
                        let t = sh.lock().unwrap();
                        let here = t.rtable.iter_reach(Family::IPV4).any(|r| octet_of(&r.net.nlri) == Some(x));
                        if here && tab[k].len() < MAX_IDX {
                            tab[k].push(x);
                        }
                    }
                    if tab.iter().all(|v| v.len() == MAX_IDX) {
                        break;
                    }
                }
                assert!(tab.iter().all(|v| v.len() == MAX_IDX), "prefix table incomplete");
                tab
            })
            .collect()
    });
    &all[n - 1]
}

// ---------------------------------------------------------------- deterministic scheduler
#[derive(Clone, Copy, PartialEq, Debug)]
enum Park {
    Starting,
    Running,
    AtOp,
    AtRegistered,
    AtLock(usize),
    AtLoaded,
    Finished,
}

struct ThState {
    park: Park,
    granted: bool,
    held: Option<usize>,
    dirty: bool,
    panicked: bool,
}

struct SchedState {
    th: Vec<ThState>,
    gran: u8,
    shard_addrs: Vec<usize>,
}

struct Sched {
    m: Mutex<SchedState>,
    cv: Condvar,
}

impl Sched {
    /// Called by a worker at a scheduling point.  Decides (same rule as the Lean model) whether
    /// the point is an actual yield; if so parks until the controller grants the next segment.
    fn point(&self, tid: usize, kind: u32, arg: usize) {
        let mut g = self.m.lock().unwrap();
        let gran = g.gran;
        let shard = if kind == verif_sched::LOCK {
            Some(g.shard_addrs.iter().position(|a| *a == arg).expect("unknown shard mutex"))
        } else {
            None
        };
        let st = &mut g.th[tid];
        let (yields, park) = match kind {
            OP => {
                st.dirty = false;
                st.held = None;
                (true, Park::AtOp)
            }
            verif_sched::REGISTERED => {
                st.dirty = false;
                st.held = None;
                (true, Park::AtRegistered)
            }
            verif_sched::LOCK => {
                st.held = None; // the previous shard guard (if any) has been dropped
                (gran == 1 || st.dirty, Park::AtLock(shard.unwrap()))
            }
            verif_sched::LOADED => (gran == 1, Park::AtLoaded),
            _ => (false, Park::Running),
        };
        if yields {
            st.park = park;
            self.cv.notify_all();
            while !g.th[tid].granted {
                g = self.cv.wait(g).unwrap();
            }
            g.th[tid].granted = false;
        }
        if let Some(k) = shard {
            let st = &mut g.th[tid];
            st.held = Some(k);
            st.dirty = true;
        }
    }

    fn finish(&self, tid: usize, panicked: bool) {
        let mut g = self.m.lock().unwrap();
        g.th[tid].park = Park::Finished;
        g.th[tid].held = None;
        g.th[tid].panicked = panicked;
        self.cv.notify_all();
    }

    /// Controller loop; returns false on a hang (scheduler bug or real deadlock).
    fn drive(&self, schedule: &[usize]) -> bool {
        let mut it = schedule.iter();
        let mut g = self.m.lock().unwrap();
        loop {
            // wait until every thread is parked or finished
            let deadline = std::time::Instant::now() + Duration::from_secs(20);
            while g.th.iter().any(|t| matches!(t.park, Park::Starting | Park::Running)) {
                let now = std::time::Instant::now();
                if now >= deadline {
                    return false;
                }
                let (gg, _) = self.cv.wait_timeout(g, deadline - now).unwrap();
                g = gg;
            }
            let enabled: Vec<usize> = (0..g.th.len())
                .filter(|&i| match g.th[i].park {
                    Park::Finished => false,
                    Park::AtLock(k) => !g
                        .th
                        .iter()
                        .enumerate()
                        .any(|(j, u)| j != i && u.park == Park::AtLoaded && u.held == Some(k)),
                    _ => true,
                })
                .collect();
            if enabled.is_empty() {
                return g.th.iter().all(|t| t.park == Park::Finished);
            }
            let n = it.next().copied().unwrap_or(0);
            let t = enabled[n % enabled.len()];
            g.th[t].park = Park::Running;
            g.th[t].granted = true;
            self.cv.notify_all();
        }
    }
}

// ---------------------------------------------------------------- workers
struct SubRec {
    sub: Subscription,
    want: bool,
    live: bool,
}

struct ThreadOut {
    rets: Vec<&'static str>,
    subs: Vec<SubRec>,
}

fn peer_up_data(p: usize) -> PeerUpData {
    let open = bgp::Message::Open(bgp::Open {
        as_number: 65010 + p as u32,
        holdtime: packet::HoldTime::DISABLED,
        router_id: u32::from(Ipv4Addr::new(10, 0, 0, (p + 1) as u8)),
        capability: vec![],
    });
    PeerUpData {
        peer_addr: peer_addr(p),
        peer_asn: 65010 + p as u32,
        peer_id: u32::from(Ipv4Addr::new(10, 0, 0, (p + 1) as u8)),
        uptime: 0,
        local_addr: IpAddr::V4(Ipv4Addr::new(10, 0, 0, 254)),
        local_port: 179,
        remote_port: 10000,
        sent_open: open.clone(),
        received_open: open,
    }
}
fn peer_down_data(p: usize) -> PeerDownData {
    PeerDownData {
        peer_addr: peer_addr(p),
        peer_asn: 65010 + p as u32,
        peer_id: u32::from(Ipv4Addr::new(10, 0, 0, (p + 1) as u8)),
        uptime: 0,
        reason: packet::bmp::PeerDownReason::RemoteUnexpected,
    }
}

fn run_ops(tid: usize, ops: &[Op], limit: u32, tables: &TableManager, sched: &Sched, tab: &[Vec<u8>]) -> ThreadOut {
    let mut out = ThreadOut { rets: Vec::new(), subs: Vec::new() };
    // session objects (PeerSession::new creates a Source and fresh prefix counters per session)
    let mut source = new_source(tid);
    let mut counter = Arc::new(AtomicU64::new(0));
    let nh = Some(bgp::Nexthop::V4(Ipv4Addr::new(10, 0, 0, (tid + 1) as u8)));
    for op in ops {
        sched.point(tid, OP, 0);
        let mut ret = "-";
        match op {
            Op::Up => tables.peer_up(peer_up_data(tid)),
            Op::Down | Op::GDown => {
                // PeerSession teardown: unregister_peer, then peer_down (event/mod.rs)
                if matches!(op, Op::Down) {
                    tables.unregister_peer(peer_addr(tid), &[Family::IPV4], &[]);
                } else {
                    tables.unregister_peer(peer_addr(tid), &[], &[Family::IPV4]);
                }
                sched.point(tid, OP, 0);
                tables.peer_down(peer_down_data(tid));
                source = new_source(tid);
                counter = Arc::new(AtomicU64::new(0));
            }
            Op::Ins(k, j, pid, a) => {
                let net = packet::PathNlri { path_id: *pid, nlri: nlri_of_octet(tab[*k][*j]) };
                let pl = if limit > 0 { Some((limit, counter.clone())) } else { None };
                let exceeded = tables.insert_route(source.clone(), Family::IPV4, net, nh, attrs_of(*a), pl, 0);
                ret = if exceeded { "limit" } else { "ok" };
            }
            Op::Rem(k, j, pid) => {
                let net = packet::PathNlri { path_id: *pid, nlri: nlri_of_octet(tab[*k][*j]) };
                let pc = if limit > 0 { Some(counter.clone()) } else { None };
                tables.remove_route(source.clone(), Family::IPV4, net, pc, 0);
            }
            Op::Sr => tables.soft_reset_in(peer_addr(tid)),
            Op::Pol(p) => tables.import_policy.store(policy_of(*p)),
            Op::Purge => tables.drop_stale_families(peer_addr(tid), &[Family::IPV4]),
            Op::Sub(want) => {
                let sub = tables.subscribe(*want);
                out.subs.push(SubRec { sub, want: *want, live: true });
            }
            Op::Unsub => {
                if let Some(r) = out.subs.iter_mut().rev().find(|r| r.live) {
                    tables.unsubscribe(r.sub.id);
                    r.live = false;
                }
            }
        }
        out.rets.push(ret);
    }
    out
}

// ---------------------------------------------------------------- observation
fn opt_t(v: Option<u64>) -> Term {
    match v {
        Some(v) => Term::nat(v),
        None => Term::atom("none"),
    }
}

fn run_case(line: &str) -> Option<String> {
    let case = parse_case(line)?;
    let uni = universe(&case);
    let tab = prefix_table(case.nshards);
    let key_of = |addr: &IpAddr, net: &packet::PathNlri| -> Option<usize> {
        let peer = peer_of(addr)?;
        let x = octet_of(&net.nlri)?;
        let (mut shard, mut idx) = (None, None);
        for (k, row) in tab.iter().enumerate() {
            if let Some(j) = row.iter().position(|y| *y == x) {
                shard = Some(k);
                idx = Some(j);
            }
        }
        let key = Key { peer, shard: shard?, idx: idx?, pid: net.path_id };
        uni.iter().position(|u| *u == key)
    };

    let tables = Arc::new(TableManager::new(case.nshards));
    let sched = Arc::new(Sched {
        m: Mutex::new(SchedState {
            th: (0..case.threads.len())
                .map(|_| ThState { park: Park::Starting, granted: false, held: None, dirty: false, panicked: false })
                .collect(),
            gran: case.gran,
            shard_addrs: tables.shards.iter().map(|s| s as *const _ as usize).collect(),
        }),
        cv: Condvar::new(),
    });
    let mut handles = Vec::new();
    for (tid, (_, ops)) in case.threads.iter().enumerate() {
        let (ops, tables, sched, limit) = (ops.clone(), tables.clone(), sched.clone(), case.limit);
        handles.push(std::thread::spawn(move || {
            let s2 = sched.clone();
            verif_sched::HOOK.with(|h| {
                *h.borrow_mut() = Some(Box::new(move |kind, arg| s2.point(tid, kind, arg)));
            });
            let r = std::panic::catch_unwind(std::panic::AssertUnwindSafe(|| {
                run_ops(tid, &ops, limit, &tables, &sched, tab)
            }));
            verif_sched::HOOK.with(|h| *h.borrow_mut() = None);
            sched.finish(tid, r.is_err());
            r.ok()
        }));
    }
    if !sched.drive(&case.sched) {
        // leak the stuck threads; the case is reported, later cases use fresh objects
        return Some("(hang)".into());
    }
    let mut outs = Vec::new();
    for h in handles {
        match h.join() {
            Ok(Some(o)) => outs.push(o),
            _ => return Some("(panic)".into()),
        }
    }

    // final RIB
    let mut extra = 0u64;
    let mut rib: Vec<(Option<u64>, Option<u64>)> = vec![(None, None); uni.len()];
    let (mut rows_pre, mut rows_post) = (0u64, 0u64);
    for sh in tables.shards.iter() {
        let t = sh.lock().unwrap();
        for f in t.rtable.families().collect::<Vec<_>>() {
            for r in t.rtable.iter_reach(f) {
                rows_pre += 1;
                match key_of(&r.source.remote_addr, &r.net) {
                    Some(i) if f == Family::IPV4 => rib[i].0 = Some(val_of(&r.attr)),
                    _ => extra += 1,
                }
            }
            for r in t.rtable.iter_reach_post(f) {
                rows_post += 1;
                match key_of(&r.source.remote_addr, &r.net) {
                    Some(i) if f == Family::IPV4 => rib[i].1 = Some(val_of(&r.attr)),
                    _ => extra += 1,
                }
            }
        }
    }

    // subscriptions
    let mut subs_t = Vec::new();
    for (tid, o) in outs.iter_mut().enumerate() {
        for (nth, rec) in o.subs.iter_mut().enumerate() {
            let mut ctl: Vec<Term> = Vec::new();
            let mut fwd: Vec<Term> = Vec::new();
            let mut hist: Vec<(Vec<Term>, Vec<Term>)> = vec![(Vec::new(), Vec::new()); uni.len()];
            let mut consumer = Consumer::new();
            // the BMP connection of this subscriber: opened at the first PeerUp/PeerDown it has to handle
            let mut wire: Option<Wire> = None;
            let mut seen_eos = false;
            while let Ok(ev) = rec.sub.rx.try_recv() {
                match ev {
                    BgpEvent::AdjRibIn(c) => {
                        let v = c.attrs.as_ref().map(|a| val_of(a));
                        for n in &c.nlris {
                            match key_of(&c.source.remote_addr, n) {
                                Some(i) if c.family == Family::IPV4 => {
                                    hist[i].0.push(v.map(Term::nat).unwrap_or_else(|| Term::atom("w")))
                                }
                                _ => extra += 1,
                            }
                        }
                        if rec.want && !seen_eos {
                            consumer.snap_pre(c);
                        }
                    }
                    BgpEvent::AdjRibInPost(c) => {
                        let v = c.attrs.as_ref().map(|a| val_of(a));
                        for n in &c.nlris {
                            match key_of(&c.source.remote_addr, n) {
                                Some(i) if c.family == Family::IPV4 => {
                                    hist[i].1.push(v.map(Term::nat).unwrap_or_else(|| Term::atom("w")))
                                }
                                _ => extra += 1,
                            }
                        }
                        if rec.want && !seen_eos {
                            consumer.snap_post(c);
                        }
                    }
                    BgpEvent::PeerUp(d) => match peer_of(&d.peer_addr) {
                        Some(p) => {
                            ctl.push(Term::tag("up", vec![Term::nat(p as u64)]));
                            if !rec.want || seen_eos {
                                if !wire.get_or_insert_with(Wire::new).peer_up(d) {
                                    fwd.push(Term::atom("io-error"));
                                }
                            }
                        }
                        None => extra += 1,
                    },
                    BgpEvent::PeerDown(d) => match peer_of(&d.peer_addr) {
                        Some(p) => {
                            ctl.push(Term::tag("down", vec![Term::nat(p as u64)]));
                            for (i, k) in uni.iter().enumerate() {
                                if k.peer == p {
                                    hist[i].0.push(Term::atom("d"));
                                    hist[i].1.push(Term::atom("d"));
                                }
                            }
                            if (!rec.want || seen_eos) && !wire.get_or_insert_with(Wire::new).peer_down(d) {
                                fwd.push(Term::atom("io-error"));
                            }
                        }
                        None => extra += 1,
                    },
                    BgpEvent::EndOfSnapshot => {
                        ctl.push(Term::atom("eos"));
                        seen_eos = true;
                    }
                    // Loc-RIB / Adj-RIB-Out / EOR events are not C18's subject
                    _ => {}
                }
            }
            // what was actually written on the BMP connection
            if let Some(w) = wire.take() {
                match w.finish() {
                    Some(msgs) => {
                        for (ty, addr) in msgs {
                            let name = match ty {
                                3 => "up",
                                2 => "down",
                                _ => "other",
                            };
                            match peer_of(&addr) {
                                Some(p) => fwd.push(Term::tag(name, vec![Term::nat(p as u64)])),
                                None => extra += 1,
                            }
                        }
                    }
                    None => fwd.push(Term::atom("bad-framing")),
                }
            }
            let mut snap: Vec<(Option<u64>, Option<u64>)> = vec![(None, None); uni.len()];
            for (addr, net, attrs) in consumer.dump_pre() {
                match key_of(&addr, &net) {
                    Some(i) => snap[i].0 = Some(val_of(&attrs)),
                    None => extra += 1,
                }
            }
            for (addr, net, attrs) in consumer.dump_post() {
                match key_of(&addr, &net) {
                    Some(i) => snap[i].1 = Some(val_of(&attrs)),
                    None => extra += 1,
                }
            }
            subs_t.push(Term::tag(
                "sub",
                vec![
                    Term::nat(tid as u64),
                    Term::nat(nth as u64),
                    Term::boolean(rec.want),
                    Term::boolean(rec.live),
                    Term::tag("ctl", ctl),
                    Term::tag(
                        "hist",
                        hist.into_iter().map(|(a, b)| Term::list(vec![Term::list(a), Term::list(b)])).collect(),
                    ),
                    Term::tag("snap", snap.into_iter().map(|(a, b)| Term::list(vec![opt_t(a), opt_t(b)])).collect()),
                    Term::tag("fwd", fwd),
                ],
            ));
        }
    }
    let rets = outs
        .iter()
        .map(|o| Term::list(o.rets.iter().map(|r| Term::atom(*r)).collect()))
        .collect();
    Some(
        Term::tag(
            "obs",
            vec![
                Term::tag("rets", rets),
                Term::tag("subs", subs_t),
                Term::tag("rib", rib.into_iter().map(|(a, b)| Term::list(vec![opt_t(a), opt_t(b)])).collect()),
                Term::tag("rows", vec![Term::nat(rows_pre), Term::nat(rows_post)]),
                Term::tag("extra", vec![Term::nat(extra)]),
            ],
        )
        .to_string(),
    )
}

#[test]
fn verif_main() {
    let (Ok(prop), Ok(inp), Ok(out)) =
        (std::env::var("VERIF_PROP"), std::env::var("VERIF_IN"), std::env::var("VERIF_OUT"))
    else {
        return; // not invoked by /verif/check
    };
    if prop != "C18" {
        return;
    }
    // a panic inside a worker thread is an observation; keep stderr readable
    std::panic::set_hook(Box::new(|_| {}));
    sexp::run_lines(&inp, &out, |l| {
        let l = l.to_string();
        std::panic::catch_unwind(move || run_case(&l).unwrap_or_else(|| "(bad-case)".into()))
            .unwrap_or_else(|_| "(panic)".into())
    });
}
