// Verification harness for C18 (a monitoring subscriber reconstructs the exact Adj-RIB-In).
// Compiled into rustybgpd's unit-test binary only with
// `--cfg osrg_rustybgp_verif --cfg verif_c18|verif_all`; grand-child of `crate::event`.
//
// A case (lean/Rbgp/Monitor/Codec.lean syntax)
//   (case (cfg <nshards> <gran> <limit>) (threads (w <op>*)|(s <op>*) ...) (sched <n>*))
// is run against a REAL `TableManager`, a REAL `Global` peer table and REAL `PeerSession`s: one OS
// thread per case thread, all of them driven by a deterministic scheduler that lets exactly one
// thread run between two scheduling points.  The scheduling points inside the code under test are
// the cfg-guarded `table_manager::verif_sched` points (LOCK before every shard-lock acquisition,
// ACQUIRED when it returned, LOADED after every subscriber-list load, UNLOCKED when the guard has
// been dropped, REGISTERED after `subscribe`'s rcu, NOTIFY at the start of peer_up/peer_down);
// the harness adds one before every operation.
//
//   writer thread i (peer 10.0.0.(i+1)):
//     up      session_addrs := Some (apply_outputs, Established arm), then tables.peer_up
//     down    session_addrs := None (apply_outputs, SessionDown arm), then the REAL
//             PeerSession::finish_session (unregister_peer on every shard, then peer_down)
//     gdown   the same with GR negotiated for both families (routes retained as stale)
//     (ins k j pid a) (rem k j pid)   insert_route / remove_route
//     (sr p)  soft_reset_in(peer p)        (pol none|reject|tag)  import_policy.store
//     purge / dropfam / llgr / lpurge      drop_stale_families / drop_families / mark_llgr_stale /
//                                          drop_llgr_stale_families
//   subscriber thread:
//     (sub t|f) | unsub    TableManager::subscribe / unsubscribe; the received events are the observation
//     bmp                  the REAL BmpClient::serve on a loopback TCP connection; the BMP messages
//                          written on the connection are the observation
#![allow(dead_code, unused_imports)]

use super::super::*;

use std::sync::atomic::{AtomicBool, AtomicU64, AtomicUsize};
use std::sync::{Condvar, Mutex, OnceLock};
use std::time::Duration as StdDuration;

use crate::bmp::verif_c18_bmp::{Consumer, Serve, Wire, WireMsg};
use crate::table_manager::{BgpEvent, PeerDownData, PeerUpData, Subscription, verif_sched};

#[path = "/verif/harness/common/sexp.rs"]
mod sexp;
use sexp::Term;

const MAX_SHARDS: usize = 3;
const MAX_IDX: usize = 3; // index 2 of a shard is an IPv6 prefix
const MAX_PID: u64 = 3;
const MAX_THREADS: usize = 5;
const OP: u32 = 0; // harness-level scheduling point (before an operation)
const FAMS: [Family; 2] = [Family::IPV4, Family::IPV6];

// ---------------------------------------------------------------- case
#[derive(Clone, Copy, PartialEq, Eq, Hash, Debug)]
struct Key {
    peer: usize,
    shard: usize,
    idx: usize,
    pid: u32,
}

#[derive(Clone, Copy, Debug)]
enum Pol {
    None,
    Reject,
    Tag,
}

#[derive(Clone, Debug)]
enum Op {
    Up,
    Down,
    GDown,
    Ins(usize, usize, u32, u32),
    Rem(usize, usize, u32),
    Sr(usize),
    Pol(Pol),
    Purge,
    DropFam,
    Llgr,
    LPurge,
    Sub(bool),
    Bmp,
    Mrt,
    Watch(bool, bool),
    Unsub,
}

struct Case {
    nshards: usize,
    gran: u8,
    limit: u32,
    threads: Vec<(bool, Vec<Op>)>, // (is_writer, ops)
    addpath: Vec<bool>,            // per thread: an ADD-PATH peer (`wa`)
    sched: Vec<usize>,
}

fn parse_case(line: &str) -> Option<Case> {
    let t = Term::parse(line)?;
    let [cfg, threads, sched] = t.tagged("case")? else { return None };
    let [n, g, l] = cfg.tagged("cfg")? else { return None };
    let (nshards, gran, limit) = (n.as_u64()? as usize, g.as_u64()?, l.as_u64()?);
    if nshards == 0 || nshards > MAX_SHARDS || gran > 1 || limit > 9 {
        return None;
    }
    let tl = threads.tagged("threads")?;
    if tl.is_empty() || tl.len() > MAX_THREADS {
        return None;
    }
    let mut ths = Vec::new();
    let mut aps = Vec::new();
    for (me, th) in tl.iter().enumerate() {
        let l = th.as_list()?;
        let kind = l.first()?.as_atom()?;
        let writer = match kind {
            "w" | "wa" => true,
            "s" => false,
            _ => return None,
        };
        aps.push(kind == "wa");
        let mut ops = Vec::new();
        for o in &l[1..] {
            let op = match (o.head()?, o) {
                ("up", Term::Atom(_)) => Op::Up,
                ("down", Term::Atom(_)) => Op::Down,
                ("sr", Term::Atom(_)) => Op::Sr(me),
                ("gdown", Term::Atom(_)) => Op::GDown,
                ("purge", Term::Atom(_)) => Op::Purge,
                ("dropfam", Term::Atom(_)) => Op::DropFam,
                ("llgr", Term::Atom(_)) => Op::Llgr,
                ("lpurge", Term::Atom(_)) => Op::LPurge,
                ("unsub", Term::Atom(_)) => Op::Unsub,
                ("bmp", Term::Atom(_)) => Op::Bmp,
                ("mrt", Term::Atom(_)) => Op::Mrt,
                ("watch", _) => {
                    let [i, po] = o.tagged("watch")? else { return None };
                    Op::Watch(i.as_bool()?, po.as_bool()?)
                }
                ("sr", _) => {
                    let [p] = o.tagged("sr")? else { return None };
                    let p = p.as_u64()? as usize;
                    if p >= tl.len() {
                        return None;
                    }
                    Op::Sr(p)
                }
                ("ins", _) => {
                    let [k, j, p, a] = o.tagged("ins")? else { return None };
                    let (k, j, p, a) = (k.as_u64()?, j.as_u64()?, p.as_u64()?, a.as_u64()?);
                    if k as usize >= nshards || j as usize >= MAX_IDX || p >= MAX_PID || a >= 1000 {
                        return None;
                    }
                    Op::Ins(k as usize, j as usize, p as u32, a as u32)
                }
                ("rem", _) => {
                    let [k, j, p] = o.tagged("rem")? else { return None };
                    let (k, j, p) = (k.as_u64()?, j.as_u64()?, p.as_u64()?);
                    if k as usize >= nshards || j as usize >= MAX_IDX || p >= MAX_PID {
                        return None;
                    }
                    Op::Rem(k as usize, j as usize, p as u32)
                }
                ("pol", _) => {
                    let [x] = o.tagged("pol")? else { return None };
                    Op::Pol(match x.as_atom()? {
                        "none" => Pol::None,
                        "reject" => Pol::Reject,
                        "tag" => Pol::Tag,
                        _ => return None,
                    })
                }
                ("sub", _) => {
                    let [w] = o.tagged("sub")? else { return None };
                    Op::Sub(w.as_bool()?)
                }
                _ => return None,
            };
            let is_sub_op = matches!(op, Op::Sub(_) | Op::Unsub | Op::Bmp | Op::Mrt | Op::Watch(..));
            if is_sub_op == writer {
                return None;
            }
            ops.push(op);
        }
        ths.push((writer, ops));
    }
    // (sr p) must name a writer thread
    for (_, ops) in &ths {
        for o in ops {
            if let Op::Sr(p) = o
                && !ths[*p].0
            {
                return None;
            }
        }
    }
    // a BMP connection of a peer without ADD-PATH carries no path ids: such cases use path id 0 only
    let has_bmp = ths.iter().any(|(_, ops)| ops.iter().any(|o| matches!(o, Op::Bmp | Op::Mrt | Op::Watch(..))));
    let has_pid = ths
        .iter()
        .any(|(_, ops)| ops.iter().any(|o| matches!(o, Op::Ins(_, _, p, _) | Op::Rem(_, _, p) if *p != 0)));
    if has_bmp && has_pid {
        return None;
    }
    let mut sc = Vec::new();
    for s in sched.tagged("sched")? {
        sc.push(s.as_u64()? as usize);
    }
    Some(Case { nshards, gran: gran as u8, limit: limit as u32, threads: ths, addpath: aps, sched: sc })
}

/// Keys in order of first mention (ins / rem) in the case.
fn universe(c: &Case) -> Vec<Key> {
    let mut u: Vec<Key> = Vec::new();
    for (tid, (_, ops)) in c.threads.iter().enumerate() {
        for o in ops {
            let k = match o {
                Op::Ins(k, j, p, _) => Key { peer: tid, shard: *k, idx: *j, pid: *p },
                Op::Rem(k, j, p) => Key { peer: tid, shard: *k, idx: *j, pid: *p },
                _ => continue,
            };
            if !u.contains(&k) {
                u.push(k);
            }
        }
    }
    u
}

// ---------------------------------------------------------------- encodings
fn peer_addr(p: usize) -> IpAddr {
    IpAddr::V4(Ipv4Addr::new(10, 0, 0, (p + 1) as u8))
}
fn peer_of(a: &IpAddr) -> Option<usize> {
    match a {
        IpAddr::V4(v) => {
            let o = v.octets();
            if o[0] == 10 && o[1] == 0 && o[2] == 0 && o[3] >= 1 { Some(o[3] as usize - 1) } else { None }
        }
        _ => None,
    }
}
/// prefix number x: 0..=127 IPv4 10.x.0.0/16, 128..=255 IPv6 2001:db8:x::/48
fn nlri_of(x: u8) -> (Family, packet::Nlri) {
    if x < 128 {
        (Family::IPV4, packet::Nlri::V4(bgp::Ipv4Net { addr: Ipv4Addr::new(10, x, 0, 0), mask: 16 }))
    } else {
        (
            Family::IPV6,
            packet::Nlri::V6(bgp::Ipv6Net { addr: Ipv6Addr::new(0x2001, 0xdb8, x as u16, 0, 0, 0, 0, 0), mask: 48 }),
        )
    }
}
fn prefix_no(n: &packet::Nlri) -> Option<(Family, u8)> {
    match n {
        packet::Nlri::V4(n) if n.mask == 16 && n.addr.octets()[0] == 10 && n.addr.octets()[1] < 128 => {
            Some((Family::IPV4, n.addr.octets()[1]))
        }
        packet::Nlri::V6(n) if n.mask == 48 && n.addr.segments()[0] == 0x2001 && n.addr.segments()[2] >= 128 => {
            Some((Family::IPV6, n.addr.segments()[2] as u8))
        }
        _ => None,
    }
}
fn new_source(p: usize) -> Arc<table::Source> {
    Arc::new(table::Source::new(
        peer_addr(p),
        IpAddr::V4(Ipv4Addr::new(10, 0, 0, 254)),
        65010 + p as u32,
        65001,
        Ipv4Addr::new(10, 0, 0, (p + 1) as u8),
        table::PeerRole::Ebgp,
    ))
}
fn attrs_of(a: u32) -> Arc<Vec<packet::Attribute>> {
    Arc::new(vec![
        packet::Attribute::new_with_value(packet::Attribute::ORIGIN, 0).unwrap(),
        packet::Attribute::empty_as_path(),
        packet::Attribute::new_with_value(packet::Attribute::MULTI_EXIT_DESC, a).unwrap(),
    ])
}
/// the next hop announced with attribute value `a`
fn nexthop_of(f: Family, a: u32) -> bgp::Nexthop {
    let x = (a % 5 + 1) as u8;
    if f == Family::IPV6 {
        bgp::Nexthop::V6(Ipv6Addr::new(0x2001, 0xdb8, 9, 0, 0, 0, 0, x as u16))
    } else {
        bgp::Nexthop::V4(Ipv4Addr::new(10, 9, 0, x))
    }
}
/// (attributes, next hop) -> model value: MED + 10000 * next-hop number (+1000 when the `tag`
/// policy added LOCAL_PREF); anything unexpected gives a value the model never produces
fn val_of(attrs: &[packet::Attribute], nh: Option<bgp::Nexthop>) -> u64 {
    let med = attrs
        .iter()
        .find(|a| a.code() == packet::Attribute::MULTI_EXIT_DESC)
        .and_then(|a| a.value());
    let lp = attrs.iter().any(|a| a.code() == packet::Attribute::LOCAL_PREF);
    let nhn: u64 = match nh {
        Some(bgp::Nexthop::V4(a)) if a.octets()[..3] == [10, 9, 0] => a.octets()[3] as u64,
        Some(bgp::Nexthop::V6(a)) if a.segments()[..3] == [0x2001, 0xdb8, 9] => a.segments()[7] as u64,
        _ => 77,
    };
    match med {
        Some(m) => m as u64 + 10000 * nhn + if lp { 1000 } else { 0 },
        None => 999_999,
    }
}
fn policy_of(p: Pol) -> Option<Arc<table::PolicyAssignment>> {
    match p {
        Pol::None => None,
        Pol::Reject => Some(Arc::new(table::PolicyAssignment {
            name: Arc::from("verif"),
            disposition: table::Disposition::Reject,
            policies: vec![],
            needs_rpki: false,
        })),
        Pol::Tag => Some(Arc::new(table::PolicyAssignment {
            name: Arc::from("verif"),
            disposition: table::Disposition::Accept,
            policies: vec![Arc::new(table::Policy {
                name: Arc::from("p"),
                statements: vec![Arc::new(table::Statement {
                    name: Arc::from("s"),
                    conditions: vec![],
                    disposition: Some(table::Disposition::Accept),
                    actions: table::Actions {
                        local_pref: Some(table::LocalPrefAction { value: 777 }),
                        ..Default::default()
                    },
                })],
            })],
            needs_rpki: false,
        })),
    }
}

/// For `n` shards: `tab[k][j]` = prefix number dealt to shard k by the real `TableManager::dealer`
/// (j = 0, 1: IPv4; j = 2: IPv6), found by inserting into a scratch manager and looking where it went.
fn prefix_table(n: usize) -> &'static Vec<Vec<u8>> {
    static TABS: OnceLock<Vec<Vec<Vec<u8>>>> = OnceLock::new();
    let all = TABS.get_or_init(|| {
        (1..=MAX_SHARDS)
            .map(|n| {
                let tm = TableManager::new(n);
                let src = new_source(0);
                let mut v4: Vec<Vec<u8>> = vec![Vec::new(); n];
                let mut v6: Vec<Vec<u8>> = vec![Vec::new(); n];
                for x in 0..=255u8 {
                    let (f, nlri) = nlri_of(x);
                    tm.insert_route(src.clone(), f, packet::PathNlri::new(nlri), Some(nexthop_of(f, 1)), attrs_of(1), None, 0);
                    for (k, sh) in tm.shards.iter().enumerate() {
                        let t = sh.lock().unwrap();
                        let here = t.rtable.iter_reach(f).any(|r| prefix_no(&r.net.nlri) == Some((f, x)));
                        if here {
                            if x < 128 && v4[k].len() < 2 {
                                v4[k].push(x);
                            }
                            if x >= 128 && v6[k].is_empty() {
                                v6[k].push(x);
                            }
                        }
                    }
                }
                assert!(v4.iter().all(|v| v.len() == 2) && v6.iter().all(|v| v.len() == 1), "prefix table incomplete");
                (0..n).map(|k| vec![v4[k][0], v4[k][1], v6[k][0]]).collect()
            })
            .collect()
    });
    &all[n - 1]
}

// ---------------------------------------------------------------- deterministic scheduler
#[derive(Clone, Copy, PartialEq, Debug)]
enum Park {
    Starting,
    Running,
    AtLock(usize),
    Other,
    Finished,
}

struct ThState {
    park: Park,
    granted: bool,
    dirty: bool,
    panicked: bool,
}

struct SchedState {
    th: Vec<ThState>,
    gran: u8,
    shard_addrs: Vec<usize>,
    /// who really holds each shard mutex (from the ACQUIRED / UNLOCKED points of the real guard)
    locked: Vec<Option<usize>>,
    /// number of subscriptions registered and not unsubscribed
    live_subs: usize,
    /// a list loaded under a shard lock did not have the length of the subscriber list of that moment
    stale_list: bool,
}

struct Sched {
    m: Mutex<SchedState>,
    cv: Condvar,
}

impl Sched {
    /// Called by a worker at a scheduling point.  Decides (same rule as the Lean model `active`)
    /// whether the point is an actual yield; if so parks until the controller grants the next segment.
    fn point(&self, tid: usize, kind: u32, arg: usize) {
        let mut g = self.m.lock().unwrap();
        let gran = g.gran;
        let shard_of = |g: &SchedState, a: usize| g.shard_addrs.iter().position(|x| *x == a).expect("unknown shard mutex");
        let mut park = Park::Other;
        let yields = match kind {
            OP | verif_sched::REGISTERED | verif_sched::NOTIFY => {
                if kind == verif_sched::REGISTERED {
                    g.live_subs += 1;
                }
                g.th[tid].dirty = false;
                true
            }
            verif_sched::LOCK => {
                let k = shard_of(&g, arg);
                park = Park::AtLock(k);
                let y = gran == 1 || g.th[tid].dirty;
                g.th[tid].dirty = true;
                y
            }
            verif_sched::ACQUIRED => {
                let k = shard_of(&g, arg);
                g.locked[k] = Some(tid);
                gran == 1
            }
            verif_sched::UNLOCKED => {
                let k = shard_of(&g, arg);
                g.locked[k] = None;
                gran == 1
            }
            verif_sched::LOADED => {
                if g.locked.iter().any(|h| *h == Some(tid)) && arg != g.live_subs {
                    g.stale_list = true;
                }
                gran == 1
            }
            _ => false,
        };
        if yields {
            g.th[tid].park = park;
            self.cv.notify_all();
            while !g.th[tid].granted {
                g = self.cv.wait(g).unwrap();
            }
            g.th[tid].granted = false;
        }
    }

    fn unsubscribed(&self) {
        let mut g = self.m.lock().unwrap();
        g.live_subs = g.live_subs.saturating_sub(1);
    }

    fn finish(&self, tid: usize, panicked: bool) {
        let mut g = self.m.lock().unwrap();
        g.th[tid].park = Park::Finished;
        g.th[tid].panicked = panicked;
        self.cv.notify_all();
    }

    /// Controller loop; returns false on a hang (scheduler bug or real deadlock).
    fn drive(&self, schedule: &[usize]) -> bool {
        let mut it = schedule.iter();
        let mut g = self.m.lock().unwrap();
        loop {
            let deadline = std::time::Instant::now() + StdDuration::from_secs(20);
            while g.th.iter().any(|t| matches!(t.park, Park::Starting | Park::Running)) {
                let now = std::time::Instant::now();
                if now >= deadline {
                    return false;
                }
                let (gg, _) = self.cv.wait_timeout(g, deadline - now).unwrap();
                g = gg;
            }
            let enabled: Vec<usize> = (0..g.th.len())
                .filter(|&i| match g.th[i].park {
                    Park::Finished => false,
                    Park::AtLock(k) => g.locked[k].is_none(),
                    _ => true,
                })
                .collect();
            if enabled.is_empty() {
                return g.th.iter().all(|t| t.park == Park::Finished);
            }
            let n = it.next().copied().unwrap_or(0);
            let t = enabled[n % enabled.len()];
            g.th[t].park = Park::Running;
            g.th[t].granted = true;
            self.cv.notify_all();
        }
    }
}

// ---------------------------------------------------------------- the world
fn peer_params(remote_addr: IpAddr) -> PeerParams {
    PeerParams {
        remote_addr,
        remote_port: Global::BGP_PORT,
        expected_remote_asn: 0,
        local_asn: 0,
        passive: true,
        rs_client: false,
        route_reflector: RouteReflectorConfig::default(),
        delete_on_disconnected: false,
        admin_down: false,
        state: SessionState::Idle,
        holdtime: PeerParams::DEFAULT_HOLD_TIME,
        connect_retry_time: PeerParams::DEFAULT_CONNECT_RETRY_TIME,
        multihop_ttl: None,
        ttl_security: None,
        password: None,
        families: FnvHashMap::default(),
        send_max: FnvHashMap::default(),
        prefix_limits: FnvHashMap::default(),
        graceful_restart: None,
        llgr: None,
        bfd_config: None,
        neighbor_interface: None,
        bind_interface: None,
        export_policy: None,
    }
}

struct SubRec {
    sub: Subscription,
    want: bool,
    live: bool,
}

enum SubKind {
    Chan(SubRec),
    Bmp(Serve),
    Mrt(MrtRun),
    Watch(WatchRun, bool, bool),
}

/// the peer and prefix of the marker route inserted after all threads have finished: every
/// consumer task has processed its whole channel once the marker has come out of it
const MARKER_PEER: usize = 249;
const MARKER_PREFIX: u8 = 127;
fn is_marker(a: &IpAddr) -> bool {
    *a == peer_addr(MARKER_PEER)
}

// ---------------------------------------------------------------- the REAL MrtDumper::serve (updates mode)
struct MrtRun {
    rt: tokio::runtime::Runtime,
    fut: Option<std::pin::Pin<Box<dyn std::future::Future<Output = ()> + Send>>>,
    path: std::path::PathBuf,
    cancel: tokio_util::sync::CancellationToken,
}

/// one BGP4MP record: (peer address, ADD-PATH subtype, the BGP messages in it); None = bad framing
type MrtRec = (IpAddr, bool, Vec<bgp::Message>);

impl MrtRun {
    fn start(tables: TableHandle) -> MrtRun {
        static SEQ: AtomicUsize = AtomicUsize::new(0);
        let rt = tokio::runtime::Builder::new_current_thread().enable_all().build().expect("tokio runtime");
        let path = std::env::temp_dir().join(format!(
            "verif-c18-{}-{}.mrt",
            std::process::id(),
            SEQ.fetch_add(1, std::sync::atomic::Ordering::Relaxed)
        ));
        let file = tokio::fs::File::from_std(std::fs::File::create(&path).expect("create mrt file"));
        let cancel = tokio_util::sync::CancellationToken::new();
        let (c2, name) = (cancel.clone(), path.to_string_lossy().to_string());
        let fut: std::pin::Pin<Box<dyn std::future::Future<Output = ()> + Send>> = Box::pin(async move {
            let mut d = crate::mrt::MrtDumper::new(&name, 0);
            let _ = d.serve(file, c2, tables).await;
        });
        let mut m = MrtRun { rt, fut: Some(fut), path, cancel };
        // the first poll runs serve up to its event loop: tables.subscribe(false) happens here
        let MrtRun { rt, fut, .. } = &mut m;
        let f = fut.as_mut().unwrap();
        rt.block_on(async {
            let _ = futures::poll!(f.as_mut());
        });
        m
    }

    fn read(&self) -> Option<Vec<MrtRec>> {
        let buf = std::fs::read(&self.path).ok()?;
        let mut out = Vec::new();
        let mut i = 0usize;
        while i < buf.len() {
            if buf.len() - i < 12 {
                return Some(out); // a record still being written
            }
            let ty = u16::from_be_bytes([buf[i + 4], buf[i + 5]]);
            let sub = u16::from_be_bytes([buf[i + 6], buf[i + 7]]);
            let len = u32::from_be_bytes([buf[i + 8], buf[i + 9], buf[i + 10], buf[i + 11]]) as usize;
            if i + 12 + len > buf.len() {
                return Some(out);
            }
            let b = &buf[i + 12..i + 12 + len];
            i += 12 + len;
            if ty != 16 || !(sub == 4 || sub == 9) || b.len() < 12 {
                return None;
            }
            let afi = u16::from_be_bytes([b[10], b[11]]);
            let (addr, off) = match afi {
                1 if b.len() >= 20 => (IpAddr::V4(Ipv4Addr::new(b[12], b[13], b[14], b[15])), 20),
                2 if b.len() >= 44 => {
                    let mut o = [0u8; 16];
                    o.copy_from_slice(&b[12..28]);
                    (IpAddr::V6(Ipv6Addr::from(o)), 44)
                }
                _ => return None,
            };
            let ap = sub == 9;
            let mut codec = bgp::PeerCodec::new();
            for f in FAMS {
                codec.set_family(f, bgp::FamilyState { addpath_rx: ap, addpath_tx: ap, ..Default::default() });
            }
            let mut bb = bytes::BytesMut::from(&b[off..]);
            let msgs: Vec<bgp::Message> = match codec.try_parse(&mut bb) {
                Ok(Some(p)) => match bgp::validate_message(p, false) {
                    Ok(it) => it.collect(),
                    Err(_) => return None,
                },
                _ => return None,
            };
            if !bb.is_empty() {
                return None;
            }
            out.push((addr, ap, msgs));
        }
        Some(out)
    }

    /// Let serve write every record up to the marker route's, then cancel it.
    fn finish(mut self) -> Option<Vec<MrtRec>> {
        let deadline = std::time::Instant::now() + StdDuration::from_secs(15);
        let mut recs;
        loop {
            {
                let MrtRun { rt, fut, .. } = &mut self;
                if let Some(f) = fut.as_mut() {
                    let done = rt.block_on(async {
                        tokio::select! {
                            _ = f.as_mut() => true,
                            _ = tokio::time::sleep(StdDuration::from_micros(300)) => false,
                        }
                    });
                    if done {
                        *fut = None;
                    }
                }
            }
            recs = self.read();
            let seen = recs.as_ref().map(|r| r.iter().any(|(a, _, _)| is_marker(a))).unwrap_or(true);
            if seen || self.fut.is_none() || std::time::Instant::now() > deadline {
                break;
            }
        }
        self.cancel.cancel();
        {
            let MrtRun { rt, fut, .. } = &mut self;
            if let Some(f) = fut.as_mut() {
                rt.block_on(async {
                    let _ = tokio::time::timeout(StdDuration::from_secs(5), f.as_mut()).await;
                });
            }
            let _g = rt.enter();
            *fut = None;
        }
        let _ = std::fs::remove_file(&self.path);
        recs
    }
}

// ---------------------------------------------------------------- the REAL gRPC watch_event handler
struct WatchRun {
    rt: tokio::runtime::Runtime,
    svc: grpc::GrpcService,
    stream: std::pin::Pin<Box<dyn Stream<Item = Result<api::WatchEventResponse, tonic::Status>> + Send + 'static>>,
    got: Vec<api::WatchEventResponse>,
}

impl WatchRun {
    fn start(tables: TableHandle, global: GlobalHandle, init: bool, post: bool) -> Option<WatchRun> {
        use api::watch_event_request::table::filter::Type;
        let rt = tokio::runtime::Builder::new_current_thread().enable_all().build().expect("tokio runtime");
        let (atx, _arx) = mpsc::unbounded_channel();
        let svc = grpc::GrpcService::new(Arc::new(tokio::sync::Notify::new()), atx, global, tables);
        let req = api::WatchEventRequest {
            peer: Some(api::watch_event_request::Peer {}),
            table: Some(api::watch_event_request::Table {
                filters: vec![api::watch_event_request::table::Filter {
                    r#type: if post { Type::PostPolicy as i32 } else { Type::Adjin as i32 },
                    init,
                    peer_address: String::new(),
                    peer_group: String::new(),
                }],
            }),
            batch_size: 0,
        };
        // the handler subscribes (scheduling points fire on this thread) and spawns its worker task
        let resp = rt.block_on(svc.watch_event(tonic::Request::new(req))).ok()?;
        let mut w = WatchRun { rt, svc, stream: resp.into_inner(), got: Vec::new() };
        w.pump();
        Some(w)
    }

    /// Run the worker task until it is waiting for events and the stream is drained.
    fn pump(&mut self) {
        let WatchRun { rt, stream, got, .. } = self;
        rt.block_on(async {
            let mut idle = 0;
            while idle < 3 {
                tokio::task::yield_now().await;
                let mut any = false;
                while let std::task::Poll::Ready(Some(r)) = futures::poll!(stream.next()) {
                    any = true;
                    if let Ok(r) = r {
                        got.push(r);
                    }
                }
                idle = if any { 0 } else { idle + 1 };
            }
        });
    }

    fn finish(mut self) -> Vec<api::WatchEventResponse> {
        self.pump();
        std::mem::take(&mut self.got)
    }
}

struct ThreadOut {
    rets: Vec<&'static str>,
    subs: Vec<SubKind>,
}

fn peer_up_data(p: usize) -> PeerUpData {
    let open = bgp::Message::Open(bgp::Open {
        as_number: 65010 + p as u32,
        holdtime: packet::HoldTime::DISABLED,
        router_id: u32::from(Ipv4Addr::new(10, 0, 0, (p + 1) as u8)),
        capability: vec![],
    });
    PeerUpData {
        peer_addr: peer_addr(p),
        peer_asn: 65010 + p as u32,
        peer_id: u32::from(Ipv4Addr::new(10, 0, 0, (p + 1) as u8)),
        uptime: 0,
        local_addr: IpAddr::V4(Ipv4Addr::new(10, 0, 0, 254)),
        local_port: 179,
        remote_port: 10000,
        sent_open: open.clone(),
        received_open: open,
    }
}

struct Writer {
    tid: usize,
    addpath: bool,
    peer_rx: Option<mpsc::UnboundedReceiver<ToPeerEvent>>,
    state: Arc<PeerState>,
    context: Arc<std::sync::Mutex<PeerContext>>,
    session: PeerSession,
    counter: Arc<AtomicU64>,
}

impl Writer {
    fn new_session(tid: usize, state: &Arc<PeerState>, context: &Arc<std::sync::Mutex<PeerContext>>, tables: &TableHandle) -> PeerSession {
        let mut s = PeerSession::new_for_test(peer_addr(tid), context.clone(), tables.clone());
        // the session shares the peer's PeerState with the global peer table, as PeerSession::new does
        s.state = Arc::clone(state);
        for f in FAMS {
            s.source.insert(f, new_source(tid));
        }
        s
    }
}

#[allow(clippy::too_many_arguments)]
fn run_ops(
    tid: usize,
    ops: &[Op],
    limit: u32,
    tables: &TableHandle,
    global: &GlobalHandle,
    peer: Option<(Arc<PeerState>, Arc<std::sync::Mutex<PeerContext>>)>,
    addpath: bool,
    sched: &Sched,
    tab: &[Vec<u8>],
) -> ThreadOut {
    let mut out = ThreadOut { rets: Vec::new(), subs: Vec::new() };
    // PeerSession holds tokio timers: they need a runtime context to be created (never polled here)
    static RT: OnceLock<tokio::runtime::Runtime> = OnceLock::new();
    let rt = RT.get_or_init(|| tokio::runtime::Builder::new_current_thread().enable_all().build().unwrap());
    let _enter = peer.as_ref().map(|_| rt.enter());
    let mut w = peer.map(|(state, context)| {
        let session = Writer::new_session(tid, &state, &context, tables);
        Writer { tid, addpath, peer_rx: None, state, context, session, counter: Arc::new(AtomicU64::new(0)) }
    });
    let fams: Vec<Family> = FAMS.to_vec();
    for op in ops {
        sched.point(tid, OP, 0);
        let mut ret = "-";
        match op {
            Op::Up => {
                let w = w.as_mut().unwrap();
                // apply_outputs, Established arm: session_addrs is published, then on_established -> peer_up
                w.state.session_addrs.store(Some(Arc::new(SessionAddrs {
                    local: "10.0.0.254:179".parse().unwrap(),
                    remote_port: 10000,
                })));
                // on_established: the peer's channel (and its ADD-PATH families) is registered with every shard
                let set: FnvHashSet<Family> = if w.addpath { FAMS.iter().copied().collect() } else { FnvHashSet::default() };
                w.peer_rx = Some(tables.register_peer(peer_addr(tid), set, |_| {}));
                tables.peer_up(peer_up_data(tid));
            }
            Op::Down | Op::GDown => {
                let w = w.as_mut().unwrap();
                // apply_outputs, SessionDown arm
                w.state.session_addrs.store(None);
                if matches!(op, Op::GDown) {
                    w.session.negotiated_gr = Some(NegotiatedGr {
                        families: fams.clone(),
                        restart_time: StdDuration::from_secs(3600),
                        notification_enabled: false,
                    });
                }
                let disconnect = DisconnectInfo {
                    role: w.session.role,
                    remote_addr: w.session.remote_addr,
                    export_map: ExportMap::default(),
                    negotiated_gr: None,
                    negotiated_llgr: None,
                };
                // the REAL teardown: eligibility, unregister_peer, peer_down
                let _ = futures::executor::block_on(w.session.finish_session(
                    crate::fsm::SessionDownReason::IoError,
                    global,
                    disconnect,
                ));
                // the next session: a new PeerSession with new Sources and prefix counters
                w.session = Writer::new_session(tid, &w.state, &w.context, tables);
                w.counter = Arc::new(AtomicU64::new(0));
            }
            Op::Ins(k, j, pid, a) => {
                let w = w.as_ref().unwrap();
                let (f, nlri) = nlri_of(tab[*k][*j]);
                let net = packet::PathNlri { path_id: *pid, nlri };
                let pl = if limit > 0 { Some((limit, w.counter.clone())) } else { None };
                let exceeded =
                    tables.insert_route(w.session.source[&f].clone(), f, net, Some(nexthop_of(f, *a)), attrs_of(*a), pl, 0);
                ret = if exceeded { "limit" } else { "ok" };
            }
            Op::Rem(k, j, pid) => {
                let w = w.as_ref().unwrap();
                let (f, nlri) = nlri_of(tab[*k][*j]);
                let net = packet::PathNlri { path_id: *pid, nlri };
                let pc = if limit > 0 { Some(w.counter.clone()) } else { None };
                tables.remove_route(w.session.source[&f].clone(), f, net, pc, 0);
            }
            Op::Sr(p) => tables.soft_reset_in(peer_addr(*p)),
            // every policy-assignment path of the daemon (grpc.rs set/add/delete policy assignment,
            // Global::delete_policy) ends in this store
            Op::Pol(p) => tables.import_policy.store(policy_of(*p)),
            Op::Purge => tables.drop_stale_families(peer_addr(tid), &fams),
            Op::DropFam => tables.drop_families(peer_addr(tid), &fams),
            Op::Llgr => tables.mark_llgr_stale(peer_addr(tid), &fams),
            Op::LPurge => tables.drop_llgr_stale_families(peer_addr(tid), &fams),
            Op::Sub(want) => {
                let sub = tables.subscribe(*want);
                out.subs.push(SubKind::Chan(SubRec { sub, want: *want, live: true }));
            }
            Op::Bmp => out.subs.push(SubKind::Bmp(Serve::start(tables.clone(), global.clone()))),
            Op::Mrt => out.subs.push(SubKind::Mrt(MrtRun::start(tables.clone()))),
            Op::Watch(init, post) => match WatchRun::start(tables.clone(), global.clone(), *init, *post) {
                Some(w) => out.subs.push(SubKind::Watch(w, *init, *post)),
                None => panic!("watch_event refused"),
            },
            Op::Unsub => {
                if let Some(r) = out.subs.iter_mut().rev().find_map(|s| match s {
                    SubKind::Chan(r) if r.live => Some(r),
                    _ => None,
                }) {
                    tables.unsubscribe(r.sub.id);
                    r.live = false;
                    sched.unsubscribed();
                }
            }
        }
        out.rets.push(ret);
    }
    out
}

// ---------------------------------------------------------------- observation
fn opt_t(v: Option<u64>) -> Term {
    match v {
        Some(v) => Term::nat(v),
        None => Term::atom("none"),
    }
}
fn item_t(v: Option<u64>) -> Term {
    v.map(Term::nat).unwrap_or_else(|| Term::atom("w"))
}

fn run_case(line: &str) -> Option<String> {
    let case = parse_case(line)?;
    let uni = universe(&case);
    let tab = prefix_table(case.nshards);
    let key_of = |addr: &IpAddr, fam: Family, net: &packet::PathNlri| -> Option<usize> {
        let peer = peer_of(addr)?;
        let (f, x) = prefix_no(&net.nlri)?;
        if f != fam {
            return None;
        }
        let (mut shard, mut idx) = (None, None);
        for (k, row) in tab.iter().enumerate() {
            if let Some(j) = row.iter().position(|y| *y == x) {
                shard = Some(k);
                idx = Some(j);
            }
        }
        let key = Key { peer, shard: shard?, idx: idx?, pid: net.path_id };
        uni.iter().position(|u| *u == key)
    };

    // the REAL global peer table with one configured peer per writer thread
    let (tx, _rx) = mpsc::unbounded_channel();
    let (bfd_tx, _bfd_rx) = mpsc::unbounded_channel();
    let mut g = Global::new(tx, bfd_tx);
    g.asn = 65001;
    g.router_id = Ipv4Addr::new(1, 0, 0, 1);
    let mut peers: Vec<Option<(Arc<PeerState>, Arc<std::sync::Mutex<PeerContext>>)>> = Vec::new();
    for (tid, (writer, _)) in case.threads.iter().enumerate() {
        if *writer {
            g.add_peer(peer_params(peer_addr(tid)), None).ok()?;
            let p = g.peers.get(&peer_addr(tid)).unwrap();
            peers.push(Some((Arc::clone(&p.state), Arc::clone(&p.context))));
        } else {
            peers.push(None);
        }
    }
    let global: GlobalHandle = Arc::new(tokio::sync::RwLock::new(g));
    let tables: TableHandle = Arc::new(TableManager::new(case.nshards));
    let sched = Arc::new(Sched {
        m: Mutex::new(SchedState {
            th: (0..case.threads.len())
                .map(|_| ThState { park: Park::Starting, granted: false, dirty: false, panicked: false })
                .collect(),
            gran: case.gran,
            shard_addrs: tables.shards.iter().map(|s| s as *const _ as usize).collect(),
            locked: vec![None; case.nshards],
            live_subs: 0,
            stale_list: false,
        }),
        cv: Condvar::new(),
    });
    let mut handles = Vec::new();
    for (tid, (_, ops)) in case.threads.iter().enumerate() {
        let (ops, tables, global, sched, limit, peer, ap) =
            (ops.clone(), tables.clone(), global.clone(), sched.clone(), case.limit, peers[tid].clone(), case.addpath[tid]);
        handles.push(std::thread::spawn(move || {
            let s2 = sched.clone();
            verif_sched::HOOK.with(|h| {
                *h.borrow_mut() = Some(Box::new(move |kind, arg| s2.point(tid, kind, arg)));
            });
            let r = std::panic::catch_unwind(std::panic::AssertUnwindSafe(|| {
                run_ops(tid, &ops, limit, &tables, &global, peer, ap, &sched, tab)
            }));
            verif_sched::HOOK.with(|h| *h.borrow_mut() = None);
            sched.finish(tid, r.is_err());
            r.ok()
        }));
    }
    if !sched.drive(&case.sched) {
        // leak the stuck threads; the case is reported, later cases use fresh objects
        return Some("(hang)".into());
    }
    let mut outs = Vec::new();
    for h in handles {
        match h.join() {
            Ok(Some(o)) => outs.push(o),
            _ => return Some("(panic)".into()),
        }
    }
    if sched.m.lock().unwrap().stale_list {
        return Some("(stale-subscriber-list)".into());
    }

    let nthreads = case.threads.len();
    let is_ap = |p: usize| case.addpath.get(p).copied().unwrap_or(false);

    // final RIB (before the marker route goes in)
    let mut extra = 0u64;
    let mut rib: Vec<(Option<u64>, Option<u64>)> = vec![(None, None); uni.len()];
    let mut stale: Vec<bool> = vec![false; uni.len()];
    let (mut rows_pre, mut rows_post) = (0u64, 0u64);
    for sh in tables.shards.iter() {
        let t = sh.lock().unwrap();
        for f in t.rtable.families().collect::<Vec<_>>() {
            for r in t.rtable.iter_reach(f) {
                rows_pre += 1;
                match key_of(&r.source.remote_addr, f, &r.net) {
                    Some(i) => {
                        rib[i].0 = Some(val_of(&r.attr, r.nexthop));
                        stale[i] = r.source.is_stale();
                    }
                    None => extra += 1,
                }
            }
            for r in t.rtable.iter_reach_post(f) {
                rows_post += 1;
                match key_of(&r.source.remote_addr, f, &r.net) {
                    Some(i) => rib[i].1 = Some(val_of(&r.attr, r.nexthop)),
                    None => extra += 1,
                }
            }
        }
    }

    let hist_t = |h: Vec<(Vec<Term>, Vec<Term>)>| -> Vec<Term> {
        h.into_iter().map(|(a, b)| Term::list(vec![Term::list(a), Term::list(b)])).collect()
    };
    let aps_t = |h: Vec<(Vec<bool>, Vec<bool>)>| -> Vec<Term> {
        h.into_iter()
            .map(|(a, b)| {
                Term::list(vec![
                    Term::list(a.into_iter().map(Term::boolean).collect()),
                    Term::list(b.into_iter().map(Term::boolean).collect()),
                ])
            })
            .collect()
    };

    // pass 1: channel subscriptions (their receivers hold everything already)
    let mut slots: Vec<Vec<Option<Term>>> = Vec::new();
    let mut pending: Vec<(usize, usize, SubKind)> = Vec::new();
    let mut rets_all = Vec::new();
    for (tid, o) in outs.into_iter().enumerate() {
        rets_all.push(o.rets);
        let mut row = Vec::new();
        for (nth, sk) in o.subs.into_iter().enumerate() {
            let mut rec = match sk {
                SubKind::Chan(r) => r,
                other => {
                    row.push(None);
                    pending.push((tid, nth, other));
                    continue;
                }
            };
            let mut ctl: Vec<Term> = Vec::new();
            let mut fwd: Vec<Term> = Vec::new();
            let mut hist: Vec<(Vec<Term>, Vec<Term>)> = vec![(Vec::new(), Vec::new()); uni.len()];
            let mut aps: Vec<(Vec<bool>, Vec<bool>)> = vec![(Vec::new(), Vec::new()); uni.len()];
            let mut consumer = Consumer::new();
            // the BMP connection of this subscriber: opened at the first PeerUp/PeerDown it has to handle
            let mut wire: Option<Wire> = None;
            let mut seen_eos = false;
            while let Ok(ev) = rec.sub.rx.try_recv() {
                match ev {
                    BgpEvent::AdjRibIn(c) => {
                        let v = c.attrs.as_ref().map(|a| val_of(a, c.nexthop));
                        for n in &c.nlris {
                            match key_of(&c.source.remote_addr, c.family, n) {
                                Some(i) => {
                                    hist[i].0.push(item_t(v));
                                    aps[i].0.push(c.addpath);
                                }
                                None => extra += 1,
                            }
                        }
                        if rec.want && !seen_eos {
                            consumer.snap_pre(c);
                        }
                    }
                    BgpEvent::AdjRibInPost(c) => {
                        let v = c.attrs.as_ref().map(|a| val_of(a, c.nexthop));
                        for n in &c.nlris {
                            match key_of(&c.source.remote_addr, c.family, n) {
                                Some(i) => {
                                    hist[i].1.push(item_t(v));
                                    aps[i].1.push(c.addpath);
                                }
                                None => extra += 1,
                            }
                        }
                        if rec.want && !seen_eos {
                            consumer.snap_post(c);
                        }
                    }
                    BgpEvent::PeerUp(d) => match peer_of(&d.peer_addr) {
                        Some(p) => {
                            ctl.push(Term::tag("up", vec![Term::nat(p as u64)]));
                            if (!rec.want || seen_eos) && !wire.get_or_insert_with(Wire::new).peer_up(d) {
                                fwd.push(Term::atom("io-error"));
                            }
                        }
                        None => extra += 1,
                    },
                    BgpEvent::PeerDown(d) => match peer_of(&d.peer_addr) {
                        Some(p) => {
                            ctl.push(Term::tag("down", vec![Term::nat(p as u64)]));
                            for (i, k) in uni.iter().enumerate() {
                                if k.peer == p {
                                    hist[i].0.push(Term::atom("d"));
                                    hist[i].1.push(Term::atom("d"));
                                }
                            }
                            if rec.want && !seen_eos {
                                // serve's snapshot phase (transcribed dispatch): the peer's buffered routes are dropped
                                consumer.drop_peer(d.peer_addr);
                            } else if !wire.get_or_insert_with(Wire::new).peer_down(d) {
                                fwd.push(Term::atom("io-error"));
                            }
                        }
                        None => extra += 1,
                    },
                    BgpEvent::EndOfSnapshot => {
                        ctl.push(Term::atom("eos"));
                        seen_eos = true;
                    }
                    // Loc-RIB / Adj-RIB-Out / EOR events are not C18's subject
                    _ => {}
                }
            }
            // what was actually written on the BMP connection
            if let Some(w) = wire.take() {
                match w.finish() {
                    Some(msgs) => {
                        for (ty, addr) in msgs {
                            let name = match ty {
                                3 => "up",
                                2 => "down",
                                _ => "other",
                            };
                            match peer_of(&addr) {
                                Some(p) => fwd.push(Term::tag(name, vec![Term::nat(p as u64)])),
                                None => extra += 1,
                            }
                        }
                    }
                    None => fwd.push(Term::atom("bad-framing")),
                }
            }
            let mut snap: Vec<(Option<u64>, Option<u64>)> = vec![(None, None); uni.len()];
            for (addr, fam, net, attrs, nh) in consumer.dump_pre() {
                match key_of(&addr, fam, &net) {
                    Some(i) => snap[i].0 = Some(val_of(&attrs, nh)),
                    None => extra += 1,
                }
            }
            for (addr, fam, net, attrs, nh) in consumer.dump_post() {
                match key_of(&addr, fam, &net) {
                    Some(i) => snap[i].1 = Some(val_of(&attrs, nh)),
                    None => extra += 1,
                }
            }
            row.push(Some(Term::tag(
                "sub",
                vec![
                    Term::nat(tid as u64),
                    Term::nat(nth as u64),
                    Term::boolean(rec.want),
                    Term::boolean(rec.live),
                    Term::tag("ctl", ctl),
                    Term::tag("hist", hist_t(hist)),
                    Term::tag("snap", snap.into_iter().map(|(a, b)| Term::list(vec![opt_t(a), opt_t(b)])).collect()),
                    Term::tag("fwd", fwd),
                    Term::tag("aps", aps_t(aps)),
                ],
            )));
        }
        slots.push(row);
    }

    // the marker route: once a consumer task has let it out, it has processed its whole channel
    if !pending.is_empty() {
        let (f, nlri) = nlri_of(MARKER_PREFIX);
        tables.insert_route(
            new_source(MARKER_PEER),
            f,
            packet::PathNlri::new(nlri),
            Some(nexthop_of(f, 1)),
            attrs_of(1),
            None,
            0,
        );
    }

    // pass 2: the consumer tasks
    for (tid, nth, sk) in pending {
        let mut whist: Vec<(Vec<Term>, Vec<Term>)> = vec![(Vec::new(), Vec::new()); uni.len()];
        let mut wctl: Vec<Vec<Term>> = vec![Vec::new(); nthreads];
        let term = match sk {
            SubKind::Chan(_) => unreachable!(),
            SubKind::Bmp(sv) => {
                // ---- a BMP connection: decode what the real serve wrote
                for m in sv.finish(&|p: &IpAddr| peer_of(p).is_some_and(&is_ap)) {
                    if m.bad {
                        return Some("(bad-wire)".into());
                    }
                    if m.ty == 4 || m.ty == 5 {
                        continue;
                    }
                    let Some(addr) = m.addr else { return Some("(bad-wire)".into()) };
                    if is_marker(&addr) {
                        continue;
                    }
                    let Some(p) = peer_of(&addr).filter(|p| *p < nthreads && m.peer_type == 0) else {
                        extra += 1;
                        continue;
                    };
                    match m.ty {
                        3 => wctl[p].push(Term::tag("up", vec![Term::nat(p as u64)])),
                        2 => {
                            wctl[p].push(Term::tag("down", vec![Term::nat(p as u64)]));
                            for (i, k) in uni.iter().enumerate() {
                                if k.peer == p {
                                    whist[i].0.push(Term::atom("d"));
                                    whist[i].1.push(Term::atom("d"));
                                }
                            }
                        }
                        0 => {
                            let post = m.flags & 0x40 != 0;
                            for u in m.updates {
                                let (fam, entries, v) = match u {
                                    bgp::Message::Update(bgp::Update::Reach { family, entries, nexthop, attr }) => {
                                        (family, entries, Some(val_of(&attr, nexthop)))
                                    }
                                    bgp::Message::Update(bgp::Update::Unreach { family, entries }) => (family, entries, None),
                                    bgp::Message::Update(bgp::Update::EndOfRib(_)) => continue,
                                    _ => {
                                        extra += 1;
                                        continue;
                                    }
                                };
                                for n in &entries {
                                    match key_of(&addr, fam, n) {
                                        Some(i) => {
                                            if post {
                                                whist[i].1.push(item_t(v))
                                            } else {
                                                whist[i].0.push(item_t(v))
                                            }
                                        }
                                        None => extra += 1,
                                    }
                                }
                            }
                        }
                        _ => extra += 1,
                    }
                }
                Term::tag(
                    "bmp",
                    vec![
                        Term::nat(tid as u64),
                        Term::nat(nth as u64),
                        Term::tag("whist", hist_t(whist)),
                        Term::tag("wctl", wctl.into_iter().map(Term::list).collect()),
                    ],
                )
            }
            SubKind::Mrt(m) => {
                // ---- an MRT updates dump: read the BGP4MP records back
                let Some(recs) = m.finish() else { return Some("(bad-mrt)".into()) };
                let mut aps: Vec<(Vec<bool>, Vec<bool>)> = vec![(Vec::new(), Vec::new()); uni.len()];
                for (addr, ap, msgs) in recs {
                    if is_marker(&addr) {
                        continue;
                    }
                    for u in msgs {
                        let (fam, entries, v) = match u {
                            bgp::Message::Update(bgp::Update::Reach { family, entries, nexthop, attr }) => {
                                (family, entries, Some(val_of(&attr, nexthop)))
                            }
                            bgp::Message::Update(bgp::Update::Unreach { family, entries }) => (family, entries, None),
                            _ => {
                                extra += 1;
                                continue;
                            }
                        };
                        for n in &entries {
                            match key_of(&addr, fam, n) {
                                Some(i) => {
                                    whist[i].0.push(item_t(v));
                                    aps[i].0.push(ap);
                                }
                                None => extra += 1,
                            }
                        }
                    }
                }
                Term::tag(
                    "mrt",
                    vec![
                        Term::nat(tid as u64),
                        Term::nat(nth as u64),
                        Term::tag("whist", hist_t(whist)),
                        Term::tag("aps", aps_t(aps)),
                    ],
                )
            }
            SubKind::Watch(w, init, post) => {
                // ---- a gRPC watch stream: peer events and table events
                use api::watch_event_response::{Event, peer_event};
                for r in w.finish() {
                    match r.event {
                        Some(Event::Peer(pe)) => {
                            let ty = peer_event::Type::try_from(pe.r#type).ok();
                            if ty == Some(peer_event::Type::EndOfInit) {
                                continue;
                            }
                            let Some(peer) = pe.peer else {
                                extra += 1;
                                continue;
                            };
                            let addr: Option<IpAddr> = peer.conf.as_ref().and_then(|c| c.neighbor_address.parse().ok());
                            let up = peer.state.as_ref().map(|s| s.session_state)
                                == Some(api::peer_state::SessionState::Established as i32);
                            let Some(p) = addr.as_ref().and_then(peer_of).filter(|p| *p < nthreads) else {
                                extra += 1;
                                continue;
                            };
                            if up {
                                wctl[p].push(Term::tag("up", vec![Term::nat(p as u64)]));
                            } else {
                                wctl[p].push(Term::tag("down", vec![Term::nat(p as u64)]));
                                for (i, k) in uni.iter().enumerate() {
                                    if k.peer == p {
                                        if post {
                                            whist[i].1.push(Term::atom("d"));
                                        } else {
                                            whist[i].0.push(Term::atom("d"));
                                        }
                                    }
                                }
                            }
                        }
                        Some(Event::Table(te)) => {
                            for path in te.paths {
                                let addr: Option<IpAddr> = path.neighbor_ip.parse().ok();
                                if addr.as_ref().is_some_and(is_marker) {
                                    continue;
                                }
                                let fam = path.family.as_ref().map(convert::family_from_api);
                                let net = match (path.nlri, fam) {
                                    (Some(n), Some(f)) => convert::net_from_api(n, f).ok(),
                                    _ => None,
                                };
                                let (Some(addr), Some(fam), Some(nlri)) = (addr, fam, net) else {
                                    extra += 1;
                                    continue;
                                };
                                let pn = packet::PathNlri { path_id: path.identifier, nlri };
                                let Some(i) = key_of(&addr, fam, &pn) else {
                                    extra += 1;
                                    continue;
                                };
                                // the API path carries no next hop: the value is completed from the MED
                                let v = if path.is_withdraw {
                                    None
                                } else {
                                    let attrs: Vec<packet::Attribute> =
                                        path.pattrs.into_iter().filter_map(|a| convert::attr_from_api(a).ok()).collect();
                                    let med = attrs
                                        .iter()
                                        .find(|a| a.code() == packet::Attribute::MULTI_EXIT_DESC)
                                        .and_then(|a| a.value())
                                        .unwrap_or(0);
                                    Some(val_of(&attrs, Some(nexthop_of(fam, med))))
                                };
                                if post {
                                    whist[i].1.push(item_t(v));
                                } else {
                                    whist[i].0.push(item_t(v));
                                }
                            }
                        }
                        None => extra += 1,
                    }
                }
                Term::tag(
                    "watch",
                    vec![
                        Term::nat(tid as u64),
                        Term::nat(nth as u64),
                        Term::boolean(init),
                        Term::boolean(post),
                        Term::tag("whist", hist_t(whist)),
                        Term::tag("wctl", wctl.into_iter().map(Term::list).collect()),
                    ],
                )
            }
        };
        slots[tid][nth] = Some(term);
    }

    let subs_t: Vec<Term> = slots.into_iter().flatten().flatten().collect();
    let rets = rets_all
        .iter()
        .map(|r| Term::list(r.iter().map(|r| Term::atom(*r)).collect()))
        .collect();
    Some(
        Term::tag(
            "obs",
            vec![
                Term::tag("rets", rets),
                Term::tag("subs", subs_t),
                Term::tag("rib", rib.into_iter().map(|(a, b)| Term::list(vec![opt_t(a), opt_t(b)])).collect()),
                Term::tag("stale", stale.into_iter().map(Term::boolean).collect()),
                Term::tag("rows", vec![Term::nat(rows_pre), Term::nat(rows_post)]),
                Term::tag("extra", vec![Term::nat(extra)]),
            ],
        )
        .to_string(),
    )
}

#[test]
fn verif_main() {
    let (Ok(prop), Ok(inp), Ok(out)) =
        (std::env::var("VERIF_PROP"), std::env::var("VERIF_IN"), std::env::var("VERIF_OUT"))
    else {
        return; // not invoked by /verif/check
    };
    if prop != "C18" {
        return;
    }
    // a panic inside a worker thread is an observation; keep stderr readable
    if std::env::var("VERIF_C18_DEBUG").is_err() {
        std::panic::set_hook(Box::new(|_| {}));
    }
    sexp::run_lines(&inp, &out, |l| {
        let l = l.to_string();
        std::panic::catch_unwind(move || run_case(&l).unwrap_or_else(|| "(bad-case)".into()))
            .unwrap_or_else(|_| "(panic)".into())
    });
}
