// C12 harness (daemon side), included by harness/daemon/rpki.rs: runs the REAL table::RpkiTable held by a
// REAL TableManager (validate / insert / remove / drop_source / iter), and for `show` the whole daemon path:
// a global import policy built by PolicyTable (statement `rpki STATE` => reject, NOT the first statement / policy,
// so that PolicyAssignment::needs_rpki has to be computed over all of them and re-computed when a policy is added),
// TableManager::insert_route (apply_import behind the needs_rpki gate), TableManager::collect_paths (validation
// phase) and convert::destination_to_api (rpki_validation_to_api).
//
//   case ::= (case LOCALASN (ops OP*))
//   OP   ::= (ins C A NET ML ASN) | (rem C A NET ML ASN) | (drop C A)
//          | (reset C A ((NET ML ASN)*))          -- the REAL TableManager::rpki_reset
//          | (val NET PATH [POS]) | (iter F) | (show STATE NET PATH [POS]) | (showl STATE NET PATH [POS])
//          | (showk STATE NET PATH [POS])
//          showl / showk = the same for a locally originated route (Source::local() / Source::kernel(): the
//          speaker's global AS is the origin of an empty path)
//   case may also be (case LOCALASN GLOBALASN (ops OP*))
//   NET  ::= (4 x<8 hex> LEN) | (6 x<32 hex> LEN)
//   PATH ::= nopath | (path (T ASN*)*)            -- AS_PATH segments, T = segment type byte
//   POS  ::= 0..3  number of other attributes placed before AS_PATH (default 1)
//   C = cache address index (192.0.2.C), A = which Arc<IpAddr> instance of that address
//
//   obs  ::= (obs O*)        one O per val / iter / show op, in order
//   O    ::= none | (v STATE REASON (m E*) (ua E*) (ul E*)) | (it E*)
//          | (api none f|t) | (api STATE REASON f|t)      -- what the API shows, and whether the policy filtered
//   E    ::= (NET C A ML ASN)
use super::*;
use std::collections::HashMap;
use std::net::Ipv6Addr;

struct Ctx {
    arcs: HashMap<(u64, u64), Arc<IpAddr>>,
}

impl Ctx {
    fn arc(&mut self, c: u64, a: u64) -> Arc<IpAddr> {
        self.arcs
            .entry((c, a))
            .or_insert_with(|| Arc::new(IpAddr::V4(Ipv4Addr::new(192, 0, 2, c as u8))))
            .clone()
    }
    fn ident(&self, s: &Arc<IpAddr>) -> (u64, u64) {
        let mut hits: Vec<(u64, u64)> = self
            .arcs
            .iter()
            .filter(|(_, v)| Arc::ptr_eq(v, s))
            .map(|(k, _)| *k)
            .collect();
        hits.sort();
        hits.first().copied().unwrap_or((999, 999))
    }
}

fn net_of(t: &Term) -> Option<packet::IpNet> {
    let l = t.as_list()?;
    if l.len() != 3 {
        return None;
    }
    let fam = l[0].as_u64()?;
    let b = l[1].as_bytes()?;
    let len = l[2].as_u64()?;
    if len > 255 {
        return None;
    }
    match fam {
        4 if b.len() == 4 => {
            let mut o = [0u8; 4];
            o.copy_from_slice(&b);
            Some(packet::IpNet::new(IpAddr::V4(Ipv4Addr::from(o)), len as u8))
        }
        6 if b.len() == 16 => {
            let mut o = [0u8; 16];
            o.copy_from_slice(&b);
            Some(packet::IpNet::new(IpAddr::V6(Ipv6Addr::from(o)), len as u8))
        }
        _ => None,
    }
}

fn net_term(n: &packet::IpNet) -> Term {
    match n {
        packet::IpNet::V4(n) => Term::list(vec![Term::nat(4u8), Term::bytes(&n.addr.octets()), Term::nat(n.mask)]),
        packet::IpNet::V6(n) => Term::list(vec![Term::nat(6u8), Term::bytes(&n.addr.octets()), Term::nat(n.mask)]),
    }
}

fn nlri_of(n: &packet::IpNet) -> packet::Nlri {
    match n {
        packet::IpNet::V4(n) => packet::Nlri::V4(*n),
        packet::IpNet::V6(n) => packet::Nlri::V6(*n),
    }
}

fn vrp_of(t: &[Term]) -> Option<(packet::IpNet, u8, u32)> {
    if t.len() != 3 {
        return None;
    }
    let net = net_of(&t[0])?;
    let ml = t[1].as_u64()?;
    let asn = t[2].as_u64()?;
    if ml > 255 || asn > u32::MAX as u64 {
        return None;
    }
    Some((net, ml as u8, asn as u32))
}

enum Op {
    Show(u8, table::RpkiValidationState, packet::IpNet, Option<Vec<u8>>, usize),
    Ins(u64, u64, packet::IpNet, u8, u32),
    Rem(u64, u64, packet::IpNet, u8, u32),
    Drop(u64, u64),
    Reset(u64, u64, Vec<(packet::IpNet, u8, u32)>),
    Val(packet::IpNet, Option<Vec<u8>>, usize),
    Iter(u64),
}

fn path_of(t: &Term) -> Option<Option<Vec<u8>>> {
    if t.as_atom() == Some("nopath") {
        return Some(None);
    }
    let segs = t.tagged("path")?;
    let mut out = Vec::new();
    for s in segs {
        let l = s.as_list()?;
        let ty = l.first()?.as_u64()?;
        if ty > 255 || l.len() - 1 > 255 {
            return None;
        }
        out.push(ty as u8);
        out.push((l.len() - 1) as u8);
        for a in &l[1..] {
            let a = a.as_u64()?;
            if a > u32::MAX as u64 {
                return None;
            }
            out.extend_from_slice(&(a as u32).to_be_bytes());
        }
    }
    Some(Some(out))
}

fn pos_of(t: &Term) -> Option<usize> {
    let v = t.as_u64()?;
    if v <= 3 { Some(v as usize) } else { None }
}

/// attribute list with `pos` other attributes before AS_PATH and the rest after it
fn attrs_of(path: Option<Vec<u8>>, pos: usize) -> Arc<Vec<packet::Attribute>> {
    let others = vec![
        packet::Attribute::new_with_value(packet::Attribute::ORIGIN, 0).unwrap(),
        packet::Attribute::new_with_value(packet::Attribute::MULTI_EXIT_DESC, 7).unwrap(),
        packet::Attribute::new_with_value(packet::Attribute::LOCAL_PREF, 100).unwrap(),
    ];
    let mut attrs: Vec<packet::Attribute> = others[..pos].to_vec();
    if let Some(p) = path {
        attrs.push(packet::Attribute::new_with_bin(packet::Attribute::AS_PATH, p).unwrap());
    }
    attrs.extend_from_slice(&others[pos..]);
    Arc::new(attrs)
}

fn cid(t: &Term) -> Option<u64> {
    let v = t.as_u64()?;
    if v > 250 { None } else { Some(v) }
}

fn op_of(t: &Term) -> Option<Op> {
    let l = t.as_list()?;
    let h = l.first()?.as_atom()?;
    let a = &l[1..];
    match h {
        "ins" | "rem" if a.len() == 5 => {
            let (net, ml, asn) = vrp_of(&a[2..5])?;
            let (c, k) = (cid(&a[0])?, cid(&a[1])?);
            Some(if h == "ins" { Op::Ins(c, k, net, ml, asn) } else { Op::Rem(c, k, net, ml, asn) })
        }
        "drop" if a.len() == 2 => Some(Op::Drop(cid(&a[0])?, cid(&a[1])?)),
        "reset" if a.len() == 3 => {
            let mut v = Vec::new();
            for e in a[2].as_list()? {
                v.push(vrp_of(e.as_list()?)?);
            }
            Some(Op::Reset(cid(&a[0])?, cid(&a[1])?, v))
        }
        "val" if a.len() == 2 => Some(Op::Val(net_of(&a[0])?, path_of(&a[1])?, 1)),
        "val" if a.len() == 3 => Some(Op::Val(net_of(&a[0])?, path_of(&a[1])?, pos_of(&a[2])?)),
        "show" | "showl" | "showk" if a.len() == 3 || a.len() == 4 => {
            let st = match a[0].as_atom()? {
                "valid" => table::RpkiValidationState::Valid,
                "invalid" => table::RpkiValidationState::Invalid,
                "notfound" => table::RpkiValidationState::NotFound,
                _ => return None,
            };
            let pos = if a.len() == 4 { pos_of(&a[3])? } else { 1 };
            Some(Op::Show(if h == "showl" { 1 } else if h == "showk" { 2 } else { 0 }, st, net_of(&a[1])?, path_of(&a[2])?, pos))
        }
        "iter" if a.len() == 1 => {
            let f = a[0].as_u64()?;
            if f == 4 || f == 6 { Some(Op::Iter(f)) } else { None }
        }
        _ => None,
    }
}

fn entry(ctx: &Ctx, n: &packet::IpNet, r: &table::Roa) -> Term {
    let (c, a) = ctx.ident(&r.source);
    Term::list(vec![net_term(n), Term::nat(c), Term::nat(a), Term::nat(r.max_length), Term::nat(r.as_number)])
}

pub(super) fn run_case(line: &str) -> String {
    let t = match Term::parse(line) {
        Some(t) => t,
        None => return "(bad-case)".into(),
    };
    let a = match t.tagged("case") {
        Some(a) if a.len() == 2 || a.len() == 3 => a,
        _ => return "(bad-case)".into(),
    };
    let local_asn = match a[0].as_u64() {
        Some(v) if v <= u32::MAX as u64 => v as u32,
        _ => return "(bad-case)".into(),
    };
    // the speaker's global AS (defaults to the session's local AS)
    let global_asn = if a.len() == 3 {
        match a[1].as_u64() {
            Some(v) if v <= u32::MAX as u64 => v as u32,
            _ => return "(bad-case)".into(),
        }
    } else {
        local_asn
    };
    let ops_t = match a[a.len() - 1].tagged("ops") {
        Some(o) => o,
        None => return "(bad-case)".into(),
    };
    let mut ops = Vec::new();
    for o in ops_t {
        match op_of(o) {
            Some(o) => ops.push(o),
            None => return "(bad-case)".into(),
        }
    }
    let source = Arc::new(table::Source::new(
        IpAddr::V4(Ipv4Addr::new(10, 0, 0, 1)),
        IpAddr::V4(Ipv4Addr::new(10, 0, 0, 254)),
        65000,
        local_asn,
        Ipv4Addr::new(1, 1, 1, 1),
        table::PeerRole::Ebgp,
    ));
    let mut ctx = Ctx { arcs: HashMap::new() };
    let tables: TableHandle = Arc::new(TableManager::new(1));
    tables.rpki_set_local_asn(global_asn);
    let mut obs = vec![Term::atom("obs")];
    for op in ops {
        match op {
            Op::Ins(c, k, net, ml, asn) => {
                let s = ctx.arc(c, k);
                tables.rpki_insert(vec![(net, Arc::new(table::Roa::new(ml, asn, s)))]);
            }
            Op::Rem(c, k, net, ml, asn) => {
                let s = ctx.arc(c, k);
                tables.rpki_withdraw(vec![(net, Arc::new(table::Roa::new(ml, asn, s)))]);
            }
            Op::Drop(c, k) => {
                let s = ctx.arc(c, k);
                tables.rpki_drop_all(s);
            }
            Op::Reset(c, k, v) => {
                let s = ctx.arc(c, k);
                let roas = v
                    .into_iter()
                    .map(|(net, ml, asn)| (net, Arc::new(table::Roa::new(ml, asn, s.clone()))))
                    .collect();
                tables.rpki_reset(s, roas);
            }
            Op::Show(local, st, net, path, pos) => {
                // `showl`: a locally originated route (the add_path handler uses Source::local())
                let src = match local {
                    1 => table::Source::local(),
                    2 => table::Source::kernel(), // routes redistributed from the kernel
                    _ => source.clone(),
                };
                obs.push(show(&tables, &src, st, &net, attrs_of(path, pos)))
            }
            Op::Val(net, path, pos) => {
                let attrs = attrs_of(path, pos);
                let tbl = tables.rpki.read().unwrap();
                match tbl.validate(&source, &nlri_of(&net), &attrs) {
                    None => obs.push(Term::atom("none")),
                    Some(v) => {
                        let st = match v.state {
                            table::RpkiValidationState::Valid => "valid",
                            table::RpkiValidationState::Invalid => "invalid",
                            table::RpkiValidationState::NotFound => "notfound",
                        };
                        let rs = match v.reason {
                            table::RpkiValidationReason::None => "none",
                            table::RpkiValidationReason::Asn => "asn",
                            table::RpkiValidationReason::Length => "length",
                        };
                        let f = |tag: &str, l: &Vec<(packet::IpNet, table::Roa)>| {
                            Term::tag(tag, l.iter().map(|(n, r)| entry(&ctx, n, r)).collect())
                        };
                        obs.push(Term::tag(
                            "v",
                            vec![
                                Term::atom(st),
                                Term::atom(rs),
                                f("m", &v.matched),
                                f("ua", &v.unmatched_asn),
                                f("ul", &v.unmatched_length),
                            ],
                        ));
                    }
                }
            }
            Op::Iter(f) => {
                let fam = if f == 4 { packet::Family::IPV4 } else { packet::Family::IPV6 };
                let tbl = tables.rpki.read().unwrap();
                obs.push(Term::tag("it", tbl.iter(fam).map(|(n, r)| entry(&ctx, &n, r)).collect()));
            }
        }
    }
    Term::list(obs).to_string()
}


/// The daemon path from a received route to what the API shows and what the import policy decided.
fn show(
    tables: &TableHandle,
    source: &Arc<table::Source>,
    st: table::RpkiValidationState,
    net: &packet::IpNet,
    attrs: Arc<Vec<packet::Attribute>>,
) -> Term {
    use table::{Actions, ConditionConfig, Disposition, PolicyDirection, PolicyTable};
    let build = || -> Result<Arc<table::PolicyAssignment>, table::TableError> {
        let mut pt = PolicyTable::new();
        pt.add_statement("s0", vec![ConditionConfig::LocalPrefEq(4242)], None, Actions::default())?;
        pt.add_statement("s1", vec![ConditionConfig::MedEq(4242)], None, Actions::default())?;
        pt.add_statement("s2", vec![ConditionConfig::Rpki(st)], Some(Disposition::Reject), Actions::default())?;
        pt.add_policy("p0", vec!["s0".to_string()])?;
        pt.add_policy("p1", vec!["s1".to_string(), "s2".to_string()])?;
        pt.add_assignment("global", PolicyDirection::Import, Disposition::Accept, vec!["p0".to_string()])?;
        let (_, a) = pt.add_assignment("global", PolicyDirection::Import, Disposition::Accept, vec!["p1".to_string()])?;
        Ok(a)
    };
    let Ok(assignment) = build() else { return Term::atom("policy-build-failed") };
    tables.import_policy.store(Some(assignment));
    let (family, nexthop) = match net {
        packet::IpNet::V4(_) => (packet::Family::IPV4, packet::bgp::Nexthop::V4(Ipv4Addr::new(10, 0, 0, 1))),
        packet::IpNet::V6(_) => (
            packet::Family::IPV6,
            packet::bgp::Nexthop::V6(Ipv6Addr::new(0x2001, 0xdb8, 0, 0, 0, 0, 0, 1)),
        ),
    };
    let nlri = nlri_of(net);
    // a second path of the same destination (add-path id 1, a one-hop AS_PATH with another origin): the path
    // under observation (id 2) is then not the only and usually not the first one of the destination
    let decoy = Arc::new(vec![
        packet::Attribute::new_with_value(packet::Attribute::ORIGIN, 0).unwrap(),
        packet::Attribute::new_with_bin(packet::Attribute::AS_PATH, vec![2, 1, 0, 0, 0xfd, 0xe7]).unwrap(),
    ]);
    tables.insert_route(
        source.clone(),
        family,
        packet::PathNlri { path_id: 1, nlri: nlri.clone() },
        Some(nexthop),
        decoy,
        None,
        0,
    );
    tables.insert_route(
        source.clone(),
        family,
        packet::PathNlri { path_id: 2, nlri: nlri.clone() },
        Some(nexthop),
        attrs,
        None,
        0,
    );
    let dests = tables.collect_paths(table::TableQuery::AdjIn(source.remote_addr), family, vec![], true);
    let Some(d) = dests.into_iter().find(|d| d.net == nlri) else { return Term::atom("route-not-listed") };
    let flags = crate::convert::PathBinaryFlags { nlri_binary: false, attr_binary: false, only_binary: false };
    let api_d = crate::convert::destination_to_api(d, family, &flags);
    let Some(p) = api_d.paths.iter().find(|p| p.identifier == 2) else { return Term::atom("no-path") };
    let filtered = Term::boolean(p.filtered);
    match &p.validation {
        None => Term::tag("api", vec![Term::atom("none"), filtered]),
        Some(v) => {
            let stt = match api::ValidationState::try_from(v.state) {
                Ok(api::ValidationState::Valid) => "valid",
                Ok(api::ValidationState::Invalid) => "invalid",
                Ok(api::ValidationState::NotFound) => "notfound",
                _ => "other",
            };
            let rs = match api::validation::Reason::try_from(v.reason) {
                Ok(api::validation::Reason::None) => "none",
                Ok(api::validation::Reason::Asn) => "asn",
                Ok(api::validation::Reason::Length) => "length",
                _ => "other",
            };
            Term::tag("api", vec![Term::atom(stt), Term::atom(rs), filtered])
        }
    }
}
