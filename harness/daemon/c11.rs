// Verification harness for C11 (restarting speaker: nothing is selected until all helpers sent
// End-of-RIB or the timer fires), compiled into rustybgpd's unit-test binary only with
// `--cfg osrg_rustybgp_verif` and `--cfg verif_c11` (or verif_all).  Grand-child of `crate::event`.
//
// Case syntax: lean/Rbgp/Gr/Restarting/Codec.lean.  One REAL `Global` (four peers added with
// `add_peer`, the helpers with their `graceful_restart` config), one REAL `TableManager` (2 shards,
// an observer peer channel collecting every distributed `NlriChange`).  Every machine event goes
// through the real glue:
//   est   -> `PeerSession::process_effects(GrSessionEstablished)`   (feeds PeerEstablished, applies the
//            outputs through `process_restarting_outputs`, spawns the selection-deferral timer)
//   eor   -> `PeerSession::process_effects(GrEorReceived)`
//   wd    -> a REAL TCP connection from that peer's address is accepted (`accept_connection`) and its
//            `PeerSession::run` runs to the end (the client closes): the tail of `run` feeds PeerWithdrawn
//   timer -> `gr_selection_deferral_timer_expired`
//   gdown -> the REAL `PeerSession::finish_session(IoError)` of a session that holds one Source per
//            family and the GR families `est` announced: `unregister_peer(.., drop, stale)` -> `restale`
// and the table mutators a GR helper / the next-hop tracker use, called on the real TableManager:
//   stale / llgr / purge / lpurge / nhv -> `unregister_peer(.., [], [f])`, `mark_llgr_stale`,
//            `drop_stale_families`, `drop_llgr_stale_families`, `update_nexthop_validity`
// Observed after each step: the state tag and `pending` of the machine in `Global.selection_deferral`
// (through gr.rs's accessor), `selection_deferral.is_some()`, `selection_deferral_timer.is_some()`,
// the per-family `Rib.deferring` flags (probe insert), every distributed change (with best_changed /
// any_changed for releases), and the `RestartingOutput`s of a SHADOW machine fed the same inputs (the
// real glue consumes the outputs of the installed machine; `RestartingDeferral` is deterministic).
// A second stream, `(wire ...)` cases (c11w.rs), starts the whole daemon from a configuration file and
// observes at the socket only; there the start-up block below runs for real.
// Transcribed in THIS stream: the start-up block of `serve` (it is inline in a function that binds sockets):
// gr_peers from `Global.peers[..].config.graceful_restart`, the stale_routes_time mapping, `new`,
// `start_deferral_families`, install.
#![allow(dead_code, unused_imports)]

use super::super::*;
use crate::gr::{RestartingDeferral, RestartingInput, RestartingOutput};

#[path = "/verif/harness/common/sexp.rs"]
mod sexp;
use sexp::Term;

unsafe extern "Rust" {
    fn verif_c11_rd_dump(
        rd: Option<&RestartingDeferral>,
    ) -> (&'static str, Vec<(IpAddr, Vec<Family>)>);
}

const MAX_PEER: u64 = 4;
const MAX_FAM: u64 = 3;
const MAX_PFX: u64 = 4;

fn fam_of(i: u64) -> Family {
    match i {
        0 => Family::IPV4,
        1 => Family::IPV6,
        _ => Family::IPV4_MC,
    }
}
fn fam_idx(f: Family) -> u64 {
    if f == Family::IPV4 {
        0
    } else if f == Family::IPV6 {
        1
    } else if f == Family::IPV4_MC {
        2
    } else {
        99
    }
}
fn peer_addr(i: u64) -> IpAddr {
    IpAddr::V4(Ipv4Addr::new(127, 0, 0, 2 + i as u8))
}
fn peer_idx(a: IpAddr) -> u64 {
    match a {
        IpAddr::V4(v) => (v.octets()[3] as u64).wrapping_sub(2),
        _ => 99,
    }
}
fn net_of(f: u64, n: u64) -> packet::Nlri {
    if f == 1 {
        format!("2001:db8:{}::/48", n + 1).parse().unwrap()
    } else {
        format!("10.{}.0.0/16", n + 1).parse().unwrap()
    }
}
fn pfx_idx(net: &packet::Nlri) -> u64 {
    let s = net.to_string();
    for n in 0..MAX_PFX {
        if s == format!("2001:db8:{}::/48", n + 1) || s == format!("10.{}.0.0/16", n + 1) {
            return n;
        }
    }
    99
}
fn small(t: &Term, max: u64) -> Option<u64> {
    let n = t.as_u64()?;
    if n < max { Some(n) } else { None }
}
fn fams_of(t: &Term) -> Option<Vec<u64>> {
    t.as_list()?.iter().map(|x| small(x, MAX_FAM)).collect()
}

enum Ev {
    Est(u64, Vec<u64>),
    Eor(u64, u64),
    Wd(u64),
    Timer,
    Ins(u64, u64, u64),
    Rm(u64, u64, u64),
    Drop(u64, u64),
    Stale(u64, u64),
    Llgr(u64, u64),
    Purge(u64, u64),
    Lpurge(u64, u64),
    Nhv(u64, bool),
    Gdown(u64),
}

fn ev_of(t: &Term) -> Option<Ev> {
    if t.as_atom() == Some("timer") {
        return Some(Ev::Timer);
    }
    let l = t.as_list()?;
    let h = l.first()?.as_atom()?;
    match (h, l.len()) {
        ("est", 3) => Some(Ev::Est(small(&l[1], MAX_PEER)?, fams_of(&l[2])?)),
        ("eor", 3) => Some(Ev::Eor(small(&l[1], MAX_PEER)?, small(&l[2], MAX_FAM)?)),
        ("wd", 2) => Some(Ev::Wd(small(&l[1], MAX_PEER)?)),
        ("ins", 4) => Some(Ev::Ins(
            small(&l[1], MAX_PEER)?,
            small(&l[2], MAX_FAM)?,
            small(&l[3], MAX_PFX)?,
        )),
        ("rm", 4) => Some(Ev::Rm(
            small(&l[1], MAX_PEER)?,
            small(&l[2], MAX_FAM)?,
            small(&l[3], MAX_PFX)?,
        )),
        ("drop", 3) => Some(Ev::Drop(small(&l[1], MAX_PEER)?, small(&l[2], MAX_FAM)?)),
        ("stale", 3) => Some(Ev::Stale(small(&l[1], MAX_PEER)?, small(&l[2], MAX_FAM)?)),
        ("llgr", 3) => Some(Ev::Llgr(small(&l[1], MAX_PEER)?, small(&l[2], MAX_FAM)?)),
        ("purge", 3) => Some(Ev::Purge(small(&l[1], MAX_PEER)?, small(&l[2], MAX_FAM)?)),
        ("lpurge", 3) => Some(Ev::Lpurge(small(&l[1], MAX_PEER)?, small(&l[2], MAX_FAM)?)),
        ("nhv", 3) => Some(Ev::Nhv(
            small(&l[1], MAX_PEER)?,
            match l[2].as_atom()? {
                "t" => true,
                "f" => false,
                _ => return None,
            },
        )),
        ("gdown", 2) => Some(Ev::Gdown(small(&l[1], MAX_PEER)?)),
        _ => None,
    }
}

struct Case {
    peers: Vec<(u64, Vec<u64>)>,
    dur: Option<u64>,
    evs: Vec<Ev>,
}

fn case_of(t: &Term) -> Option<Case> {
    let l = t.as_list()?;
    if l.len() != 4 || l[0].as_atom()? != "case" {
        return None;
    }
    let ps = l[1].tagged("peers")?;
    let mut peers = Vec::new();
    for p in ps {
        let e = p.as_list()?;
        if e.len() != 2 {
            return None;
        }
        peers.push((small(&e[0], MAX_PEER)?, fams_of(&e[1])?));
    }
    let d = l[2].tagged("dur")?;
    if d.len() != 1 {
        return None;
    }
    let dur = if d[0].as_atom() == Some("none") {
        None
    } else {
        let s = d[0].tagged("some")?;
        if s.len() != 1 {
            return None;
        }
        Some(s[0].as_u64()?)
    };
    let evs = l[3].tagged("evs")?.iter().map(ev_of).collect::<Option<Vec<_>>>()?;
    Some(Case { peers, dur, evs })
}

fn fams_t(fs: &[Family]) -> Term {
    let mut v: Vec<u64> = fs.iter().map(|f| fam_idx(*f)).collect();
    v.sort_unstable();
    Term::list(v.into_iter().map(Term::nat).collect())
}

fn outs_t(outs: &[RestartingOutput]) -> Term {
    let mut keyed: Vec<((u64, u64), Term)> = outs
        .iter()
        .map(|o| match o {
            RestartingOutput::DeferFamilies(fs) => ((0, 0), Term::tag("defer", vec![fams_t(fs)])),
            RestartingOutput::FamilyDeferralComplete(f) => (
                (1, fam_idx(*f)),
                Term::tag("complete", vec![Term::nat(fam_idx(*f))]),
            ),
            RestartingOutput::StartDeferralTimer(d) => (
                (2, 0),
                Term::tag("timer", vec![Term::opt(d.map(|d| Term::nat(d.as_secs())))]),
            ),
            RestartingOutput::EndDeferral(fs) => ((3, 0), Term::tag("end", vec![fams_t(fs)])),
        })
        .collect();
    keyed.sort_by_key(|(k, _)| *k);
    Term::tag("outs", keyed.into_iter().map(|(_, t)| t).collect())
}

/// `release`: the step is a machine event, so every change it distributes is a release announcement
/// whose best_changed / any_changed flags decide whether a neighbour gets it at all.
fn drain_changes(rx: &mut mpsc::UnboundedReceiver<ToPeerEvent>, release: bool) -> Term {
    let mut v: Vec<(u64, u64, u64, Vec<u64>, String)> = Vec::new();
    while let Ok(ev) = rx.try_recv() {
        if let ToPeerEvent::NlriChange(c) = ev {
            let mut peers: Vec<u64> = c
                .current_paths
                .iter()
                .map(|p| peer_idx(p.source.remote_addr))
                .collect();
            peers.sort_unstable();
            let key = peers.iter().fold(0u64, |a, p| a + (1u64 << (*p).min(62)));
            let fl = if release {
                if c.best_changed && c.any_changed { "adv" } else { "mute" }
            } else if c.any_changed {
                "chg"
            } else {
                "mute"
            };
            v.push((fam_idx(c.family), pfx_idx(&c.net), key, peers, fl.to_string()));
        }
    }
    v.sort();
    Term::tag(
        "chg",
        v.into_iter()
            .map(|(f, n, _, ps, fl)| {
                Term::list(vec![
                    Term::nat(f),
                    Term::nat(n),
                    Term::list(ps.into_iter().map(Term::nat).collect()),
                    Term::atom(fl),
                ])
            })
            .collect(),
    )
}

fn flags_t(tables: &TableManager, probe: &Arc<table::Source>) -> Term {
    let mut v = Vec::new();
    for f in 0..MAX_FAM {
        let fam = fam_of(f);
        let net: packet::Nlri = if f == 1 {
            "2001:db8:ffff::/48".parse().unwrap()
        } else {
            "10.255.0.0/16".parse().unwrap()
        };
        let mut set = 0;
        let n = tables.shards.len();
        for sh in &tables.shards {
            let mut t = sh.lock().unwrap();
            let r = t.rtable.insert(
                probe.clone(),
                fam,
                net.clone(),
                0,
                None,
                Arc::new(Vec::new()),
                None,
                false,
                false,
                None,
                0,
            );
            if matches!(r, table::InsertResult::NoChange) {
                set += 1;
            }
            let _ = t.rtable.remove(probe.clone(), fam, net.clone(), 0, None);
        }
        if set == n {
            v.push(Term::nat(f));
        } else if set != 0 {
            v.push(Term::atom(format!("mixed{}", f)));
        }
    }
    Term::tag("flags", v)
}

struct World {
    global: GlobalHandle,
    tables: TableHandle,
    rx: mpsc::UnboundedReceiver<ToPeerEvent>,
    /// one `Source` per (peer, family), as a session has (`on_established`)
    sources: Vec<Vec<Arc<table::Source>>>,
    /// sessions that are up: peer -> GR families negotiated (what `est` said)
    up: FnvHashMap<u64, Vec<u64>>,
    probe: Arc<table::Source>,
    /// fed the same inputs as the installed machine; only its outputs are read
    shadow: Option<RestartingDeferral>,
    rbit_mismatch: bool,
}

fn mk_source(addr: IpAddr) -> Arc<table::Source> {
    Arc::new(table::Source::new(
        addr,
        IpAddr::V4(Ipv4Addr::new(127, 0, 0, 1)),
        65002,
        65001,
        Ipv4Addr::new(10, 0, 0, 200),
        PeerRole::Ebgp,
    ))
}

fn peer_params(remote_addr: IpAddr, gr: Option<GrPeerConfig>) -> PeerParams {
    PeerParams {
        remote_addr,
        remote_port: Global::BGP_PORT,
        expected_remote_asn: 0,
        local_asn: 0,
        passive: true,
        rs_client: false,
        route_reflector: RouteReflectorConfig::default(),
        delete_on_disconnected: false,
        admin_down: false,
        state: SessionState::Idle,
        holdtime: PeerParams::DEFAULT_HOLD_TIME,
        connect_retry_time: PeerParams::DEFAULT_CONNECT_RETRY_TIME,
        multihop_ttl: None,
        ttl_security: None,
        password: None,
        families: FnvHashMap::default(),
        send_max: FnvHashMap::default(),
        prefix_limits: FnvHashMap::default(),
        graceful_restart: gr,
        llgr: None,
        bfd_config: None,
        neighbor_interface: None,
        bind_interface: None,
        export_policy: None,
    }
}

async fn settle() {
    for _ in 0..8 {
        tokio::task::yield_now().await;
    }
}

async fn obs(w: &mut World, outs: &[RestartingOutput], release: bool) -> Term {
    let chg = drain_changes(&mut w.rx, release);
    let flags = flags_t(&w.tables, &w.probe);
    let g = w.global.read().await;
    // SAFETY: plain Rust function exported by harness/daemon/gr.rs in the same crate
    let (tag, pend) = unsafe { verif_c11_rd_dump(g.selection_deferral.as_ref()) };
    let mut v: Vec<(u64, Vec<u64>)> = pend
        .into_iter()
        .map(|(a, fs)| {
            let mut f: Vec<u64> = fs.iter().map(|f| fam_idx(*f)).collect();
            f.sort_unstable();
            (peer_idx(a), f)
        })
        .collect();
    v.sort();
    let mut items = vec![
        outs_t(outs),
        chg,
        Term::atom(tag),
        Term::tag(
            "pend",
            v.into_iter()
                .map(|(p, fs)| {
                    Term::list(vec![
                        Term::nat(p),
                        Term::list(fs.into_iter().map(Term::nat).collect()),
                    ])
                })
                .collect(),
        ),
        Term::boolean(g.selection_deferral.is_some()),
        flags,
        Term::boolean(g.selection_deferral_timer.is_some()),
    ];
    if w.rbit_mismatch {
        items.push(Term::atom("rbit-mismatch"));
    }
    Term::list(items)
}

fn shadow_feed(w: &mut World, input: RestartingInput) -> Vec<RestartingOutput> {
    let outs = match &mut w.shadow {
        Some(rd) => rd.process(input),
        None => vec![],
    };
    if outs
        .iter()
        .any(|o| matches!(o, RestartingOutput::EndDeferral(_)))
    {
        w.shadow = None;
    }
    outs
}

/// A connection from `addr` is accepted and its session task runs to the end (the client closes
/// right away): the REAL `accept_connection` + `PeerSession::run`, whose tail feeds PeerWithdrawn.
async fn real_connection_ends(w: &mut World, addr: IpAddr) -> bool {
    // No socket operation may panic: on a busy machine (ports in TIME_WAIT, descriptor limits) the
    // caller falls back to feeding PeerWithdrawn the way the tail of `run` does, same observation.
    let Some(listener) = shared_listener() else {
        return false;
    };
    let Ok(laddr) = listener.local_addr() else {
        return false;
    };
    let Ok(sock) = tokio::net::TcpSocket::new_v4() else {
        return false;
    };
    if sock.bind(SocketAddr::new(addr, 0)).is_err() {
        return false;
    }
    // (the listener is shared: a connection left over from an attempt that timed out is skipped)
    let both = tokio::time::timeout(Duration::from_secs(20), async {
        let client = sock.connect(laddr).await.ok()?;
        let me = client.local_addr().ok()?;
        loop {
            let (server, from) = listener.accept().await.ok()?;
            if from == me {
                return Some((client, server));
            }
        }
    })
    .await;
    let Ok(Some((client, server))) = both else {
        return false;
    };
    // closed with a reset: thousands of these connections per run must not pile up in TIME_WAIT
    let _ = client.set_linger(Some(Duration::from_secs(0)));
    let installed = w.global.read().await.selection_deferral.is_some();
    let Some(session) = accept_connection(&w.global, &w.tables, server, crate::fsm::Role::Passive).await
    else {
        return false;
    };
    // the R-bit of the OPEN we send is derived from selection_deferral.is_some() at accept time
    if session.is_restarting != installed {
        w.rbit_mismatch = true;
    }
    let (active_tx, _active_rx) = mpsc::unbounded_channel::<TcpStream>();
    let g = w.global.clone();
    let h = tokio::spawn(async move { session.run(g, active_tx).await });
    drop(client);
    let _ = h.await;
    true
}

/// One listening socket per harness process (bound once, duplicated for the runtime of each case): every
/// `bind(:0)` takes an ephemeral port, and closed loopback connections hold theirs for 60 s in TIME_WAIT, so
/// a busy box can run out of them for every process on it.
fn shared_listener() -> Option<tokio::net::TcpListener> {
    static L: std::sync::OnceLock<Option<std::net::TcpListener>> = std::sync::OnceLock::new();
    let l = L
        .get_or_init(|| {
            for _ in 0..240 {
                if let Ok(l) = std::net::TcpListener::bind("127.0.0.1:0") {
                    let _ = l.set_nonblocking(true);
                    return Some(l);
                }
                std::thread::sleep(Duration::from_millis(500));
            }
            None
        })
        .as_ref()?;
    tokio::net::TcpListener::from_std(l.try_clone().ok()?).ok()
}

async fn gr_peers(global: &GlobalHandle) -> FnvHashMap<IpAddr, Vec<Family>> {
    let server = global.read().await;
    server
        .peers
        .iter()
        .filter_map(|(addr, peer)| {
            peer.config
                .graceful_restart
                .as_ref()
                .map(|gr| (*addr, gr.families.clone()))
        })
        .collect()
}

async fn run_c11(case: Case) -> String {
    let (tx, _rx) = mpsc::unbounded_channel();
    let (bfd_tx, _bfd_rx) = mpsc::unbounded_channel();
    let mut g = Global::new(tx, bfd_tx);
    g.asn = 65001;
    g.router_id = Ipv4Addr::new(1, 0, 0, 1);
    // configuration: the last entry of a peer wins; an empty family list = no GR config
    let mut cfg: FnvHashMap<u64, Vec<u64>> = FnvHashMap::default();
    for (p, fs) in &case.peers {
        cfg.insert(*p, fs.clone());
    }
    for p in 0..MAX_PEER {
        let mut fams: Vec<Family> = Vec::new();
        for f in cfg.get(&p).cloned().unwrap_or_default() {
            if !fams.contains(&fam_of(f)) {
                fams.push(fam_of(f));
            }
        }
        let gr = if fams.is_empty() {
            None
        } else {
            Some(GrPeerConfig {
                restart_time: 120,
                notification_enabled: false,
                families: fams,
            })
        };
        g.add_peer(peer_params(peer_addr(p), gr), None).unwrap();
    }
    let global: GlobalHandle = Arc::new(tokio::sync::RwLock::new(g));
    let tables: TableHandle = Arc::new(TableManager::new(2));
    let rx = tables.register_peer(
        IpAddr::V4(Ipv4Addr::new(10, 0, 0, 250)),
        FnvHashSet::default(),
        |_| {},
    );
    let mut w = World {
        global,
        tables,
        rx,
        sources: (0..MAX_PEER)
            .map(|i| (0..MAX_FAM).map(|_| mk_source(peer_addr(i))).collect())
            .collect(),
        up: FnvHashMap::default(),
        probe: mk_source(IpAddr::V4(Ipv4Addr::new(10, 0, 0, 251))),
        shadow: None,
        rbit_mismatch: false,
    };
    let mut steps = Vec::new();

    // ---- start-up block of `serve` (transcribed; `is_restarting && bgp.is_some()`) ----
    // stale_routes_time: absent -> 360 s; 0 -> disabled; > 0 -> that value   (case: none / 0 / n)
    let stale_routes_time: Option<f64> = case.dur.map(|d| d as f64);
    let selection_deferral_time: Option<Duration> =
        stale_routes_time.map_or(Some(Duration::from_secs(360)), |secs| {
            if secs == 0.0 {
                None
            } else {
                Some(Duration::from_secs_f64(secs))
            }
        });
    let (deferral, init_outputs) = RestartingDeferral::new(gr_peers(&w.global).await, selection_deferral_time);
    if !deferral.is_completed() {
        for output in &init_outputs {
            if let RestartingOutput::DeferFamilies(families) = output {
                w.tables.start_deferral_families(families);
            }
        }
        w.global.write().await.selection_deferral = Some(deferral);
    }
    let (shadow, shadow_out) = RestartingDeferral::new(gr_peers(&w.global).await, selection_deferral_time);
    if !shadow.is_completed() {
        w.shadow = Some(shadow);
    }
    steps.push(obs(&mut w, &shadow_out, true).await);

    for ev in &case.evs {
        match ev {
            Ev::Est(p, fs) => {
                w.up.insert(*p, fs.clone());
                let addr = peer_addr(*p);
                let fams: Vec<Family> = fs.iter().map(|f| fam_of(*f)).collect();
                let ctx = w.global.read().await.peers.get(&addr).unwrap().context.clone();
                let mut s = PeerSession::new_for_test(addr, ctx, w.tables.clone());
                let negotiated_gr = if fams.is_empty() {
                    None
                } else {
                    Some(NegotiatedGr {
                        families: fams.clone(),
                        restart_time: Duration::from_secs(120),
                        notification_enabled: false,
                    })
                };
                s.process_effects(vec![GlobalEffect::GrSessionEstablished { negotiated_gr }], &w.global)
                    .await;
                settle().await;
                let outs = shadow_feed(&mut w, RestartingInput::PeerEstablished(addr, fams));
                steps.push(obs(&mut w, &outs, true).await);
            }
            Ev::Eor(p, f) => {
                let addr = peer_addr(*p);
                let ctx = w.global.read().await.peers.get(&addr).unwrap().context.clone();
                let mut s = PeerSession::new_for_test(addr, ctx, w.tables.clone());
                s.process_effects(vec![GlobalEffect::GrEorReceived { family: fam_of(*f) }], &w.global)
                    .await;
                settle().await;
                let outs = shadow_feed(&mut w, RestartingInput::EorReceived(addr, fam_of(*f)));
                steps.push(obs(&mut w, &outs, true).await);
            }
            Ev::Wd(p) => {
                w.up.remove(p);
                let addr = peer_addr(*p);
                if !real_connection_ends(&mut w, addr).await {
                    // no connection could be made from that address: feed the machine as `run` does
                    let rd_outputs = {
                        let mut server = w.global.write().await;
                        if let Some(rd) = &mut server.selection_deferral {
                            rd.process(RestartingInput::PeerWithdrawn(addr))
                        } else {
                            vec![]
                        }
                    };
                    let _ = process_restarting_outputs(rd_outputs, &w.global, &w.tables).await;
                }
                settle().await;
                let outs = shadow_feed(&mut w, RestartingInput::PeerWithdrawn(addr));
                steps.push(obs(&mut w, &outs, true).await);
            }
            Ev::Timer => {
                gr_selection_deferral_timer_expired(w.global.clone(), w.tables.clone()).await;
                settle().await;
                let outs = shadow_feed(&mut w, RestartingInput::TimerExpired);
                steps.push(obs(&mut w, &outs, true).await);
            }
            Ev::Ins(p, f, n) => {
                let nh = bgp::Nexthop::V4(Ipv4Addr::new(10, 0, 0, 1 + *p as u8));
                w.tables.insert_route(
                    w.sources[*p as usize][*f as usize].clone(),
                    fam_of(*f),
                    packet::PathNlri::new(net_of(*f, *n)),
                    Some(nh),
                    Arc::new(Vec::new()),
                    None,
                    0,
                );
                steps.push(obs(&mut w, &[], false).await);
            }
            Ev::Rm(p, f, n) => {
                w.tables.remove_route(
                    w.sources[*p as usize][*f as usize].clone(),
                    fam_of(*f),
                    packet::PathNlri::new(net_of(*f, *n)),
                    None,
                    0,
                );
                steps.push(obs(&mut w, &[], false).await);
            }
            Ev::Drop(p, f) => {
                w.tables.drop_families(peer_addr(*p), &[fam_of(*f)]);
                steps.push(obs(&mut w, &[], false).await);
            }
            // ---- the GR-helper / next-hop mutators, which may hit a family that is deferred ----
            Ev::Stale(p, f) => {
                w.tables.unregister_peer(peer_addr(*p), &[], &[fam_of(*f)]);
                steps.push(obs(&mut w, &[], false).await);
            }
            Ev::Llgr(p, f) => {
                w.tables.mark_llgr_stale(peer_addr(*p), &[fam_of(*f)]);
                steps.push(obs(&mut w, &[], false).await);
            }
            Ev::Purge(p, f) => {
                w.tables.drop_stale_families(peer_addr(*p), &[fam_of(*f)]);
                steps.push(obs(&mut w, &[], false).await);
            }
            Ev::Lpurge(p, f) => {
                w.tables.drop_llgr_stale_families(peer_addr(*p), &[fam_of(*f)]);
                steps.push(obs(&mut w, &[], false).await);
            }
            Ev::Nhv(p, ok) => {
                w.tables
                    .update_nexthop_validity(IpAddr::V4(Ipv4Addr::new(10, 0, 0, 1 + *p as u8)), *ok);
                steps.push(obs(&mut w, &[], false).await);
            }
            Ev::Gdown(p) => {
                // The established session of a helper ends by an I/O error while we are (possibly)
                // still deferring: the REAL `PeerSession::finish_session` decides GR eligibility and
                // calls `unregister_peer(addr, drop_families, stale_families)`.  The session holds
                // what `on_established` / `apply_outputs(SessionEstablished)` had given it: one Source
                // per family, and the GR negotiation result `est` announced.
                if let Some(fs) = w.up.remove(p) {
                    let addr = peer_addr(*p);
                    let ctx = w.global.read().await.peers.get(&addr).unwrap().context.clone();
                    let mut s = PeerSession::new_for_test(addr, ctx, w.tables.clone());
                    for f in 0..MAX_FAM {
                        s.source
                            .insert(fam_of(f), w.sources[*p as usize][f as usize].clone());
                    }
                    // (negotiate_gr filters the local, duplicate-free family list)
                    let mut fams: Vec<Family> = Vec::new();
                    for f in &fs {
                        if !fams.contains(&fam_of(*f)) {
                            fams.push(fam_of(*f));
                        }
                    }
                    s.negotiated_gr = if fams.is_empty() {
                        None
                    } else {
                        Some(NegotiatedGr {
                            families: fams,
                            restart_time: Duration::from_secs(120),
                            notification_enabled: false,
                        })
                    };
                    let disconnect = DisconnectInfo {
                        role: s.role,
                        remote_addr: addr,
                        export_map: ExportMap::default(),
                        negotiated_gr: None,
                        negotiated_llgr: None,
                    };
                    let _ = s
                        .finish_session(crate::fsm::SessionDownReason::IoError, &w.global, disconnect)
                        .await;
                    settle().await;
                }
                steps.push(obs(&mut w, &[], false).await);
            }
        }
    }
    Term::tag("trace", steps).to_string()
}

#[path = "/verif/harness/daemon/c11w.rs"]
mod wire;

fn run_case(line: &str) -> String {
    let term = Term::parse(line);
    if term.as_ref().and_then(|t| t.head()) == Some("wire") {
        let Some(case) = term.as_ref().and_then(wire::wcase_of) else {
            return "(bad-case)".into();
        };
        // the whole daemon runs inside this runtime; dropping it ends every task the case started
        let rt = build_rt();
        let out = rt.block_on(wire::run_wire(case));
        // everything the case started (the daemon's tasks, its listeners, the gRPC server) ends here
        rt.shutdown_timeout(Duration::from_millis(200));
        return out;
    }
    let Some(case) = term.as_ref().and_then(case_of) else {
        return "(bad-case)".into();
    };
    let rt = build_rt();
    let out = rt.block_on(run_c11(case));
    rt.shutdown_timeout(Duration::from_millis(200));
    out
}

/// A runtime per case.  Creating one needs an epoll instance and an eventfd: when the machine is short of
/// descriptors for a moment this waits instead of panicking.
fn build_rt() -> tokio::runtime::Runtime {
    let mut tries = 0;
    loop {
        match tokio::runtime::Builder::new_current_thread().enable_all().build() {
            Ok(rt) => return rt,
            Err(e) => {
                tries += 1;
                if tries > 600 {
                    panic!("cannot create a runtime: {e}");
                }
                std::thread::sleep(Duration::from_millis(100));
            }
        }
    }
}

#[test]
fn verif_main() {
    let (Ok(prop), Ok(inp), Ok(out)) = (
        std::env::var("VERIF_PROP"),
        std::env::var("VERIF_IN"),
        std::env::var("VERIF_OUT"),
    ) else {
        return; // not invoked by /verif/check
    };
    if prop != "C11" {
        return;
    }
    // the first few panics are reported on stderr (a case that panics is `(panic)` in the output)
    static PANICS: std::sync::atomic::AtomicUsize = std::sync::atomic::AtomicUsize::new(0);
    std::panic::set_hook(Box::new(|info| {
        if PANICS.fetch_add(1, std::sync::atomic::Ordering::Relaxed) < 5 {
            let fds = std::fs::read_dir("/proc/self/fd").map(|d| d.count()).unwrap_or(0);
            let threads = std::fs::read_dir("/proc/self/task").map(|d| d.count()).unwrap_or(0);
            eprintln!("verif harness panic: {info} [open fds {fds}, threads {threads}]");
        }
    }));
    sexp::run_lines(&inp, &out, |l| {
        let l = l.to_string();
        std::panic::catch_unwind(move || run_case(&l)).unwrap_or_else(|_| "(panic)".into())
    });
    if std::env::var("VERIF_DIAG").is_ok() {
        let fds = std::fs::read_dir("/proc/self/fd").map(|d| d.count()).unwrap_or(0);
        let threads = std::fs::read_dir("/proc/self/task").map(|d| d.count()).unwrap_or(0);
        eprintln!("verif harness end: open fds {fds}, threads {threads}");
    }
}
