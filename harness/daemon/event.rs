// Verification harness modules included at the end of daemon/src/event/mod.rs under
// cfg(all(test, osrg_rustybgp_verif)).  One sub-module per property, enabled with
// --cfg verif_cXX (development, isolated target dir) or --cfg verif_all (default of ./check).
#![allow(dead_code, unused_imports)]

#[cfg(any(verif_all, verif_c01))]
#[path = "/verif/harness/daemon/c01.rs"]
mod c01;
#[cfg(any(verif_all, verif_c03))]
#[path = "/verif/harness/daemon/c03.rs"]
mod c03;
#[cfg(any(verif_all, verif_c05))]
#[path = "/verif/harness/daemon/c05.rs"]
mod c05;
#[cfg(any(verif_all, verif_c07))]
#[path = "/verif/harness/daemon/c07.rs"]
mod c07;
#[cfg(any(verif_all, verif_c08))]
#[path = "/verif/harness/daemon/c08.rs"]
mod c08;
#[cfg(any(verif_all, verif_c09))]
#[path = "/verif/harness/daemon/c09.rs"]
mod c09;
#[cfg(any(verif_all, verif_c10))]
#[path = "/verif/harness/daemon/c10.rs"]
mod c10;
#[cfg(any(verif_all, verif_c11))]
#[path = "/verif/harness/daemon/c11.rs"]
mod c11;
#[cfg(any(verif_all, verif_c14))]
#[path = "/verif/harness/daemon/c14.rs"]
mod c14;
#[cfg(any(verif_all, verif_c16))]
#[path = "/verif/harness/daemon/c16.rs"]
mod c16;
// C17 lives here (not under main_hook.rs) because it drives `GrpcService`, which is `pub(super)` in `event`;
// `crate::convert` is reachable from here as well.
#[cfg(any(verif_all, verif_c17))]
#[path = "/verif/harness/daemon/c17.rs"]
mod c17;
#[cfg(any(verif_all, verif_c18))]
#[path = "/verif/harness/daemon/c18.rs"]
mod c18;
// C19 lives here (not under main_hook.rs) since its end-to-end items drive `accept_connection` / `run_select` /
// `on_established` (private to `event`) through rig.rs; the converters in bmp.rs / mrt.rs are reached through
// their own hook modules (c19_bmp.rs, c19_mrt.rs).
#[cfg(any(verif_all, verif_c19))]
#[path = "/verif/harness/daemon/c19.rs"]
mod c19;
#[cfg(any(verif_all, verif_c20))]
#[path = "/verif/harness/daemon/c20.rs"]
mod c20;
