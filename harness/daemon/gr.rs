// Verification harness module included at the end of daemon/src/gr.rs under
// cfg(all(test, osrg_rustybgp_verif)).  Sub-modules are enabled per property with
// --cfg verif_cXX (development) or --cfg verif_all (what ./check uses by default).
#![allow(dead_code, unused_imports)]
