// Verification harness module included at the end of daemon/src/gr.rs under
// cfg(all(test, osrg_rustybgp_verif)).  Child module of `crate::gr`, so it reaches the private
// `RestartingDeferral.state` / `RestartingInner` internals.
//
// The C11 harness itself lives under crate::event (harness/daemon/c11.rs) so that it can drive the
// REAL glue (`process_effects`, `process_restarting_outputs`, `gr_selection_deferral_timer_expired`,
// `PeerSession::run`) on a real `Global`.  `mod verif_gr` is private to crate::gr, so the one thing
// that needs the private fields — reading `pending` and the state tag of the machine that sits in
// `Global.selection_deferral` — is exported here by symbol name and imported there with
// `unsafe extern "Rust"` (test-only code; always compiled, no sub-cfg).
#![allow(dead_code, unused_imports)]

use super::*;

/// (state tag, pending as (peer address, families)) of a machine; `None` = no machine installed.
#[unsafe(no_mangle)]
pub fn verif_c11_rd_dump(rd: Option<&RestartingDeferral>) -> (&'static str, Vec<(IpAddr, Vec<Family>)>) {
    let (tag, pend): (&'static str, Option<&FnvHashMap<IpAddr, FnvHashSet<Family>>>) = match rd {
        None => ("absent", None),
        Some(m) => match &m.state {
            RestartingInner::AwaitingStart { pending, .. } => ("awaiting", Some(pending)),
            RestartingInner::Deferring { pending } => ("deferring", Some(pending)),
            RestartingInner::Completed => ("completed", None),
        },
    };
    let v = pend
        .map(|p| p.iter().map(|(a, fs)| (*a, fs.iter().copied().collect())).collect())
        .unwrap_or_default();
    (tag, v)
}

#[test]
fn verif_main() {
    // C11 moved to event::verif_event::c11::verif_main
}
