// Verification harness module included at the end of daemon/src/gr.rs under
// cfg(all(test, osrg_rustybgp_verif)).  Child module of `crate::gr`, so it reaches the private
// `RestartingDeferral.state` / `RestartingInner` internals.
//
// C11 (restarting speaker): reads case lines (lean/Rbgp/Gr/Restarting/Codec.lean syntax) from
// $VERIF_IN, drives the REAL `RestartingDeferral` and a REAL `TableManager` (2 shards, one observer
// peer channel collecting every distributed `NlriChange`), writes one observation line per case to
// $VERIF_OUT.  The ~20 lines of `process_restarting_outputs` (private to crate::event) and of the
// start-up block in event/mod.rs are transcribed here (`apply_outs`, `init`); they only route the
// machine's outputs to `TableManager::{start,end}_deferral_families`.
#![allow(dead_code, unused_imports)]

use super::*;
use std::net::Ipv4Addr;
use std::sync::Arc;

#[path = "/verif/harness/common/sexp.rs"]
mod sexp;
use sexp::Term;

use crate::event::ToPeerEvent;
use crate::table_manager::TableManager;
use rustybgp_packet as packet;
use rustybgp_table as table;

const MAX_PEER: u64 = 4;
const MAX_FAM: u64 = 3;
const MAX_PFX: u64 = 4;

fn fam_of(i: u64) -> Family {
    match i {
        0 => Family::IPV4,
        1 => Family::IPV6,
        _ => Family::IPV4_MC,
    }
}
fn fam_idx(f: Family) -> u64 {
    if f == Family::IPV4 {
        0
    } else if f == Family::IPV6 {
        1
    } else if f == Family::IPV4_MC {
        2
    } else {
        99
    }
}
fn peer_addr(i: u64) -> IpAddr {
    IpAddr::V4(Ipv4Addr::new(10, 0, 0, 1 + i as u8))
}
fn peer_idx(a: IpAddr) -> u64 {
    match a {
        IpAddr::V4(v) => (v.octets()[3] as u64).wrapping_sub(1),
        _ => 99,
    }
}
fn net_of(f: u64, n: u64) -> packet::Nlri {
    if f == 1 {
        format!("2001:db8:{}::/48", n + 1).parse().unwrap()
    } else {
        format!("10.{}.0.0/16", n + 1).parse().unwrap()
    }
}
fn pfx_idx(net: &packet::Nlri) -> u64 {
    let s = net.to_string();
    for n in 0..MAX_PFX {
        if s == format!("2001:db8:{}::/48", n + 1) || s == format!("10.{}.0.0/16", n + 1) {
            return n;
        }
    }
    99
}

fn small(t: &Term, max: u64) -> Option<u64> {
    let n = t.as_u64()?;
    if n < max { Some(n) } else { None }
}
fn fams_of(t: &Term) -> Option<Vec<u64>> {
    t.as_list()?.iter().map(|x| small(x, MAX_FAM)).collect()
}

enum Ev {
    Est(u64, Vec<u64>),
    Eor(u64, u64),
    Wd(u64),
    Timer,
    Ins(u64, u64, u64),
    Rm(u64, u64, u64),
    Drop(u64, u64),
}

fn ev_of(t: &Term) -> Option<Ev> {
    if t.as_atom() == Some("timer") {
        return Some(Ev::Timer);
    }
    let l = t.as_list()?;
    let h = l.first()?.as_atom()?;
    match (h, l.len()) {
        ("est", 3) => Some(Ev::Est(small(&l[1], MAX_PEER)?, fams_of(&l[2])?)),
        ("eor", 3) => Some(Ev::Eor(small(&l[1], MAX_PEER)?, small(&l[2], MAX_FAM)?)),
        ("wd", 2) => Some(Ev::Wd(small(&l[1], MAX_PEER)?)),
        ("ins", 4) => Some(Ev::Ins(
            small(&l[1], MAX_PEER)?,
            small(&l[2], MAX_FAM)?,
            small(&l[3], MAX_PFX)?,
        )),
        ("rm", 4) => Some(Ev::Rm(
            small(&l[1], MAX_PEER)?,
            small(&l[2], MAX_FAM)?,
            small(&l[3], MAX_PFX)?,
        )),
        ("drop", 3) => Some(Ev::Drop(small(&l[1], MAX_PEER)?, small(&l[2], MAX_FAM)?)),
        _ => None,
    }
}

struct Case {
    peers: Vec<(u64, Vec<u64>)>,
    dur: Option<u64>,
    evs: Vec<Ev>,
}

fn case_of(t: &Term) -> Option<Case> {
    let l = t.as_list()?;
    if l.len() != 4 || l[0].as_atom()? != "case" {
        return None;
    }
    let ps = l[1].tagged("peers")?;
    let mut peers = Vec::new();
    for p in ps {
        let e = p.as_list()?;
        if e.len() != 2 {
            return None;
        }
        peers.push((small(&e[0], MAX_PEER)?, fams_of(&e[1])?));
    }
    let d = l[2].tagged("dur")?;
    if d.len() != 1 {
        return None;
    }
    let dur = if d[0].as_atom() == Some("none") {
        None
    } else {
        let s = d[0].tagged("some")?;
        if s.len() != 1 {
            return None;
        }
        // Lean's `asNat?` accepts any decimal; keep the same domain (u64 is ample for generated cases)
        Some(s[0].as_u64()?)
    };
    let evs = l[3].tagged("evs")?.iter().map(ev_of).collect::<Option<Vec<_>>>()?;
    Some(Case { peers, dur, evs })
}

// ---- observation printing -------------------------------------------------------------------

fn fams_t(fs: &[Family]) -> Term {
    let mut v: Vec<u64> = fs.iter().map(|f| fam_idx(*f)).collect();
    v.sort_unstable();
    Term::list(v.into_iter().map(Term::nat).collect())
}

fn outs_t(outs: &[RestartingOutput]) -> Term {
    // canonical order: defer < complete (by family) < timer < end   (Codec.canonOuts)
    let mut keyed: Vec<((u64, u64), Term)> = outs
        .iter()
        .map(|o| match o {
            RestartingOutput::DeferFamilies(fs) => ((0, 0), Term::tag("defer", vec![fams_t(fs)])),
            RestartingOutput::FamilyDeferralComplete(f) => (
                (1, fam_idx(*f)),
                Term::tag("complete", vec![Term::nat(fam_idx(*f))]),
            ),
            RestartingOutput::StartDeferralTimer(d) => (
                (2, 0),
                Term::tag("timer", vec![Term::opt(d.map(|d| Term::nat(d.as_secs())))]),
            ),
            RestartingOutput::EndDeferral(fs) => ((3, 0), Term::tag("end", vec![fams_t(fs)])),
        })
        .collect();
    keyed.sort_by_key(|(k, _)| *k);
    Term::tag("outs", keyed.into_iter().map(|(_, t)| t).collect())
}

fn drain_changes(rx: &mut tokio::sync::mpsc::UnboundedReceiver<ToPeerEvent>) -> Term {
    let mut v: Vec<(u64, u64, u64, Vec<u64>)> = Vec::new();
    while let Ok(ev) = rx.try_recv() {
        if let ToPeerEvent::NlriChange(c) = ev {
            let mut peers: Vec<u64> = c
                .current_paths
                .iter()
                .map(|p| peer_idx(p.source.remote_addr))
                .collect();
            peers.sort_unstable();
            let key = peers.iter().fold(0u64, |a, p| a + (1u64 << (*p).min(62)));
            v.push((fam_idx(c.family), pfx_idx(&c.net), key, peers));
        }
    }
    v.sort();
    Term::tag(
        "chg",
        v.into_iter()
            .map(|(f, n, _, ps)| {
                Term::list(vec![
                    Term::nat(f),
                    Term::nat(n),
                    Term::list(ps.into_iter().map(Term::nat).collect()),
                ])
            })
            .collect(),
    )
}

fn tag_and_pending(rd: Option<&RestartingDeferral>) -> (Term, Term) {
    let (tag, pend): (&str, Option<&FnvHashMap<IpAddr, FnvHashSet<Family>>>) = match rd {
        None => ("absent", None),
        Some(m) => match &m.state {
            RestartingInner::AwaitingStart { pending, .. } => ("awaiting", Some(pending)),
            RestartingInner::Deferring { pending } => ("deferring", Some(pending)),
            RestartingInner::Completed => ("completed", None),
        },
    };
    let mut v: Vec<(u64, Vec<u64>)> = pend
        .map(|p| {
            p.iter()
                .map(|(a, fs)| {
                    let mut f: Vec<u64> = fs.iter().map(|f| fam_idx(*f)).collect();
                    f.sort_unstable();
                    (peer_idx(*a), f)
                })
                .collect()
        })
        .unwrap_or_default();
    v.sort();
    (
        Term::atom(tag),
        Term::tag(
            "pend",
            v.into_iter()
                .map(|(p, fs)| {
                    Term::list(vec![
                        Term::nat(p),
                        Term::list(fs.into_iter().map(Term::nat).collect()),
                    ])
                })
                .collect(),
        ),
    )
}

/// `Rib.deferring` has no accessor outside the table crate: probe it.  A fresh unfiltered path
/// inserted straight into a shard's `Table` yields `NoChange` iff the family is deferring there;
/// the probe path is removed again at once (nothing is distributed: the shard's `rtable` is used
/// directly, not `insert_route`).
fn flags_t(tables: &TableManager, probe: &Arc<table::Source>) -> Term {
    let mut v = Vec::new();
    for f in 0..MAX_FAM {
        let fam = fam_of(f);
        let net: packet::Nlri = if f == 1 {
            "2001:db8:ffff::/48".parse().unwrap()
        } else {
            "10.255.0.0/16".parse().unwrap()
        };
        let mut set = 0;
        let n = tables.shards.len();
        for sh in &tables.shards {
            let mut t = sh.lock().unwrap();
            let r = t.rtable.insert(
                probe.clone(),
                fam,
                net.clone(),
                0,
                None,
                Arc::new(Vec::new()),
                None,
                false,
                false,
                None,
                0,
            );
            if matches!(r, table::InsertResult::NoChange) {
                set += 1;
            }
            let _ = t.rtable.remove(probe.clone(), fam, net.clone(), 0, None);
        }
        if set == n {
            v.push(Term::nat(f));
        } else if set != 0 {
            v.push(Term::atom(format!("mixed{}", f)));
        }
    }
    Term::tag("flags", v)
}

// ---- the transcribed glue -------------------------------------------------------------------

struct World {
    sd: Option<RestartingDeferral>, // Global.selection_deferral
    tables: Arc<TableManager>,
    rx: tokio::sync::mpsc::UnboundedReceiver<ToPeerEvent>,
    sources: Vec<Arc<table::Source>>,
    probe: Arc<table::Source>,
}

fn mk_source(addr: IpAddr) -> Arc<table::Source> {
    Arc::new(table::Source::new(
        addr,
        IpAddr::V4(Ipv4Addr::new(127, 0, 0, 1)),
        65002,
        65001,
        Ipv4Addr::new(10, 0, 0, 200),
        table::PeerRole::Ebgp,
    ))
}

/// event/mod.rs `process_restarting_outputs` (selection_deferral_timer handle omitted)
fn apply_outs(w: &mut World, outputs: &[RestartingOutput]) {
    let mut complete_families: Vec<Family> = vec![];
    let mut end_remaining: Option<Vec<Family>> = None;
    for output in outputs {
        match output {
            RestartingOutput::StartDeferralTimer(_) => {}
            RestartingOutput::FamilyDeferralComplete(family) => complete_families.push(*family),
            RestartingOutput::EndDeferral(remaining) => end_remaining = Some(remaining.clone()),
            RestartingOutput::DeferFamilies(_) => {}
        }
    }
    if !complete_families.is_empty() {
        w.tables.end_deferral_families(&complete_families);
    }
    if let Some(remaining) = end_remaining {
        if !remaining.is_empty() {
            w.tables.end_deferral_families(&remaining);
        }
        w.sd = None;
    }
}

fn obs(w: &mut World, outs: &[RestartingOutput], machine_after: (Term, Term)) -> Term {
    let chg = drain_changes(&mut w.rx);
    let flags = flags_t(&w.tables, &w.probe);
    Term::list(vec![
        outs_t(outs),
        chg,
        machine_after.0,
        machine_after.1,
        Term::boolean(w.sd.is_some()),
        flags,
    ])
}

fn run_case_c11(line: &str) -> String {
    let Some(case) = Term::parse(line).as_ref().and_then(case_of) else {
        return "(bad-case)".into();
    };
    let tables = Arc::new(TableManager::new(2));
    let rx = tables.register_peer(
        IpAddr::V4(Ipv4Addr::new(10, 0, 0, 250)),
        FnvHashSet::default(),
        |_| {},
    );
    let mut w = World {
        sd: None,
        tables,
        rx,
        sources: (0..MAX_PEER).map(|i| mk_source(peer_addr(i))).collect(),
        probe: mk_source(IpAddr::V4(Ipv4Addr::new(10, 0, 0, 251))),
    };
    let mut steps = Vec::new();

    // start-up block of event/mod.rs (is_restarting && bgp.is_some())
    let mut gr_peers: FnvHashMap<IpAddr, Vec<Family>> = FnvHashMap::default();
    for (p, fs) in &case.peers {
        gr_peers.insert(peer_addr(*p), fs.iter().map(|f| fam_of(*f)).collect());
    }
    let (deferral, init_outputs) =
        RestartingDeferral::new(gr_peers, case.dur.map(Duration::from_secs));
    if !deferral.is_completed() {
        for output in &init_outputs {
            if let RestartingOutput::DeferFamilies(families) = output {
                w.tables.start_deferral_families(families);
            }
        }
        w.sd = Some(deferral);
    }
    let m = tag_and_pending(w.sd.as_ref());
    steps.push(obs(&mut w, &init_outputs, m));

    for ev in &case.evs {
        let input = match ev {
            Ev::Est(p, fs) => Some(RestartingInput::PeerEstablished(
                peer_addr(*p),
                fs.iter().map(|f| fam_of(*f)).collect(),
            )),
            Ev::Eor(p, f) => Some(RestartingInput::EorReceived(peer_addr(*p), fam_of(*f))),
            Ev::Wd(p) => Some(RestartingInput::PeerWithdrawn(peer_addr(*p))),
            Ev::Timer => Some(RestartingInput::TimerExpired),
            _ => None,
        };
        if let Some(input) = input {
            // `if let Some(rd) = &mut server.selection_deferral { rd.process(..) } else { vec![] }`
            let (outputs, m) = if let Some(rd) = &mut w.sd {
                let out = rd.process(input);
                (out, tag_and_pending(w.sd.as_ref()))
            } else {
                (vec![], tag_and_pending(None))
            };
            apply_outs(&mut w, &outputs);
            steps.push(obs(&mut w, &outputs, m));
            continue;
        }
        match ev {
            Ev::Ins(p, f, n) => {
                let nh = packet::bgp::Nexthop::V4(Ipv4Addr::new(10, 0, 0, 1 + *p as u8));
                w.tables.insert_route(
                    w.sources[*p as usize].clone(),
                    fam_of(*f),
                    packet::PathNlri::new(net_of(*f, *n)),
                    Some(nh),
                    Arc::new(Vec::new()),
                    None,
                    0,
                );
            }
            Ev::Rm(p, f, n) => {
                w.tables.remove_route(
                    w.sources[*p as usize].clone(),
                    fam_of(*f),
                    packet::PathNlri::new(net_of(*f, *n)),
                    None,
                    0,
                );
            }
            Ev::Drop(p, f) => {
                w.tables.drop_families(peer_addr(*p), &[fam_of(*f)]);
            }
            _ => {}
        }
        let m = tag_and_pending(w.sd.as_ref());
        steps.push(obs(&mut w, &[], m));
    }
    Term::tag("trace", steps).to_string()
}

#[test]
fn verif_main() {
    let (Ok(prop), Ok(inp), Ok(out)) = (
        std::env::var("VERIF_PROP"),
        std::env::var("VERIF_IN"),
        std::env::var("VERIF_OUT"),
    ) else {
        return; // not invoked by /verif/check
    };
    // silence the default panic message of caught panics (one line per case otherwise)
    std::panic::set_hook(Box::new(|_| {}));
    match prop.as_str() {
        "C11" => sexp::run_lines(&inp, &out, |l| {
            let l = l.to_string();
            std::panic::catch_unwind(move || run_case_c11(&l)).unwrap_or_else(|_| "(panic)".into())
        }),
        _ => {}
    }
}
