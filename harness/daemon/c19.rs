// C19 daemon-level harness (sub-module of the main.rs hook, see main_hook.rs; the private converters are
// reached through the hook modules c19_bmp.rs / c19_mrt.rs included at the end of daemon/src/bmp.rs / mrt.rs).
//
// Superset of the packet-level harness (harness/pt/src/bin/c19.rs, shared code in harness/common/c19_core.rs):
//   (dcase (tbl ...) (items ITEM...))     ITEM = any packet-level REC, or an EVENT converted by the REAL daemon code:
//     (ev-rm POST SRC FAM AP NLRIS ATTRS NH TS EMB)        live AdjRibIn / AdjRibInPost event -> adj_rib_in_to_bmp_update
//     (ev-out POST (peer IP ASN ID) FAM AP (PID xNLRI) ATTRS NH TS EMB)   AdjRibOutPre/Post -> adj_rib_out_to_bmp_update
//     (ev-loc FAM xNLRI ATTRS NH TS xRID ASN EMB)          LocRib event -> loc_rib_to_bmp
//     (ev-mrt SRC FAM AP NLRIS ATTRS NH TS EMB)            AdjRibIn event -> adj_rib_in_to_mrt
//     (ev-down (peer IP ASN ID) UPTIME REASON EMB)         SessionDownReason -> session_down_to_bmp
//     (ev-locup xRID ASN EMB)                              Loc-RIB virtual peer -> loc_rib_peer_up
//     (ev-flush (peer IP ASN ID) UPTS POST (chgs (chg SRC FAM AP NLRIS ATTRS NH TS)...) (embs EMB...))
//                                                          apply_snapshot* ; flush_peer_snapshot (messages sorted)
//     (ev-live (cfg LRID LASN LHOLD AP) (popen RASN RHOLD RRID) (acts (ann PID xNLRI)|(wd PID xNLRI)...) LATE (opens SENT RECV) (embs EMB...))
//                                                          END-TO-END: a real session (rig.rs: accept_connection, run_select,
//                                                          on_established, finish_session) on a real TableManager with the REAL
//                                                          BmpClient::serve (policy all) connected before (and, LATE, also while)
//                                                          the session is up; the bytes serve wrote, canonicalised (canon_bmp)
//     (ev-dump xRID (chg4 CHG...) (chg6 CHG...))           dump_table on a TableManager holding exactly these paths;
//                                                          CHG = (PFX (path SRC NH ATTRS)...) in collect_loc_rib_paths order
//   SRC = (src IP IP RASN LASN RID) ; ATTRS = none | (ATTR...) ; REASON = none|hold|fsm|admin|io|(remote MON)|(local MON)
//   The per-peer headers of the live events are built in the body of `BmpClient::serve` (not a function): the
//   harness transcribes those `PerPeerHeader::new(..)` calls (trusted glue, listed in checks/c19.py).
// Modes: VERIF_PROP=C19 VERIF_IN VERIF_OUT [VERIF_MODE=gen VERIF_SEED VERIF_N VERIF_TIER].
#![allow(dead_code, unused_imports)]

#[path = "/verif/harness/common/sexp.rs"]
mod sexp;
#[path = "/verif/harness/common/c19_core.rs"]
mod c19core;

use c19core::*;
use rustybgp_packet::bgp::{self, Attribute, Family, Nexthop, Nlri, PathNlri};
use rustybgp_packet::{bmp, mrt};
use rustybgp_table as table;
use sexp::{Rng, Term};
use std::net::{IpAddr, Ipv4Addr};
use std::panic::{AssertUnwindSafe, catch_unwind};
use std::sync::Arc;

use crate::table_manager::{AdjRibInChange, AdjRibOutChange, LocRibChange};

#[path = "/verif/harness/daemon/rig.rs"]
mod rig;

fn src_of(t: &Term) -> Option<Arc<table::Source>> {
    let a = t.tagged("src")?;
    if a.len() != 5 {
        return None;
    }
    Some(Arc::new(table::Source::new(
        ip_of(&a[0])?,
        ip_of(&a[1])?,
        u32_of(&a[2])?,
        u32_of(&a[3])?,
        Ipv4Addr::from(u32_of(&a[4])?),
        table::PeerRole::Ebgp,
    )))
}

fn opt_attrs_of(t: &Term) -> Option<Option<Arc<Vec<Attribute>>>> {
    if t.as_atom() == Some("none") {
        return Some(None);
    }
    let v = attrs_of(t)?;
    if attrs_term(&v) != *t {
        return None;
    }
    Some(Some(Arc::new(v)))
}

/// SRC FAM AP NLRIS ATTRS NH TS
fn change_of(a: &[Term]) -> Option<AdjRibInChange> {
    if a.len() != 7 {
        return None;
    }
    let family = fam_of(&a[1])?;
    let nlris = ents_of(family, &a[3])?;
    if ents_term(&nlris) != a[3] {
        return None;
    }
    Some(AdjRibInChange {
        source: src_of(&a[0])?,
        family,
        addpath: a[2].as_bool()?,
        nlris,
        attrs: opt_attrs_of(&a[4])?,
        nexthop: nh_of(&a[5])?,
        timestamp: u32_of(&a[6])?,
    })
}

fn peer_of(t: &Term) -> Option<(IpAddr, u32, u32)> {
    let a = t.tagged("peer")?;
    if a.len() != 3 {
        return None;
    }
    Some((ip_of(&a[0])?, u32_of(&a[1])?, u32_of(&a[2])?))
}

fn upd_tags(m: &bgp::Message, ap: bool, emb: &Option<Vec<u8>>, tags: &mut Vec<Term>) {
    tags.push(Term::atom(if ap { "ap-on" } else { "ap-off" }));
    tags.push(Term::atom(mon_head(&msg_term(m))));
    emb_tags(emb, tags);
}

fn with_emb(kind: &str, a: &[Term], emb: &Option<Vec<u8>>) -> Term {
    let mut v: Vec<Term> = a[..a.len() - 1].to_vec();
    v.push(emb_term(emb));
    Term::tag(kind, v)
}

fn build_item(t: &Term) -> Option<Built> {
    let Some(l) = t.as_list() else { return build(t) };
    let Some(kind) = l.first().and_then(|k| k.as_atom()) else { return None };
    let a = &l[1..];
    let mut tags = vec![Term::atom(kind)];
    match kind {
        "ev-rm" if a.len() == 9 => {
            let post = a[0].as_bool()?;
            let change = change_of(&a[1..8])?;
            // BmpClient::serve, `Some(BgpEvent::AdjRibIn(change))` / `AdjRibInPost` arms
            let update = crate::bmp::verif_c19_bmp::rm_in(&change);
            let header = bmp::PerPeerHeader::new(
                if post { bmp::Message::PEER_FLAG_POST_POLICY } else { 0 },
                change.source.remote_asn,
                Ipv4Addr::from(change.source.router_id),
                0,
                change.source.remote_addr,
                change.timestamp,
            );
            let emb = standalone(&[&update], change.addpath);
            tags.push(Term::atom(if change.source.remote_addr.is_ipv6() { "peer-v6" } else { "peer-v4" }));
            tags.push(Term::atom(if post { "post" } else { "pre" }));
            upd_tags(&update, change.addpath, &emb, &mut tags);
            let real = Real::Bmp(bmp::Message::RouteMonitoring { header, update, addpath: change.addpath });
            Some(Built { term: with_emb(kind, a, &emb), real, embs: emb.into_iter().map(|e| (change.addpath, e)).collect(), tags })
        }
        "ev-out" if a.len() == 9 => {
            let post = a[0].as_bool()?;
            let (peer_addr, peer_asn, peer_id) = peer_of(&a[1])?;
            let family = fam_of(&a[2])?;
            let addpath = a[3].as_bool()?;
            let nl = ents_of(family, &Term::list(vec![a[4].clone()]))?;
            let change = AdjRibOutChange {
                peer_addr,
                peer_asn,
                peer_id,
                family,
                addpath,
                nlri: nl[0].clone(),
                attrs: opt_attrs_of(&a[5])?,
                nexthop: nh_of(&a[6])?,
                timestamp: u32_of(&a[7])?,
            };
            // BmpClient::serve, `AdjRibOutPre` / `AdjRibOutPost` arms
            let update = crate::bmp::verif_c19_bmp::rm_out(&change);
            let header = bmp::PerPeerHeader::new(
                if post { bmp::Message::PEER_FLAG_ADJ_RIB_OUT | bmp::Message::PEER_FLAG_POST_POLICY } else { bmp::Message::PEER_FLAG_ADJ_RIB_OUT },
                change.peer_asn,
                Ipv4Addr::from(change.peer_id),
                0,
                change.peer_addr,
                change.timestamp,
            );
            let emb = standalone(&[&update], addpath);
            tags.push(Term::atom(if peer_addr.is_ipv6() { "peer-v6" } else { "peer-v4" }));
            tags.push(Term::atom(if post { "post" } else { "pre" }));
            upd_tags(&update, addpath, &emb, &mut tags);
            let real = Real::Bmp(bmp::Message::RouteMonitoring { header, update, addpath });
            Some(Built { term: with_emb(kind, a, &emb), real, embs: emb.into_iter().map(|e| (addpath, e)).collect(), tags })
        }
        "ev-loc" if a.len() == 8 => {
            let family = fam_of(&a[0])?;
            let nl = ents_of(family, &Term::list(vec![Term::list(vec![Term::nat(0u8), a[1].clone()])]))?;
            let change = LocRibChange {
                family,
                net: nl[0].nlri.clone(),
                attr: opt_attrs_of(&a[2])?,
                nexthop: nh_of(&a[3])?,
                timestamp: u32_of(&a[4])?,
            };
            let msg = crate::bmp::verif_c19_bmp::loc_rib(&change, v4_of(&a[5])?, u32_of(&a[6])?);
            let bmp::Message::RouteMonitoring { update, addpath, .. } = &msg else { return None };
            let emb = standalone(&[update], *addpath);
            upd_tags(update, *addpath, &emb, &mut tags);
            let ap = *addpath;
            Some(Built { term: with_emb(kind, a, &emb), real: Real::Bmp(msg), embs: emb.into_iter().map(|e| (ap, e)).collect(), tags })
        }
        "ev-mrt" if a.len() == 8 => {
            let change = change_of(&a[0..7])?;
            let msg = crate::mrt::verif_c19_mrt::to_mrt(&change);
            let mrt::Message::Mp { body, addpath, .. } = &msg;
            let emb = standalone(&[body], *addpath);
            tags.push(Term::atom(if change.source.remote_addr.is_ipv6() { "afi-v6" } else { "afi-v4" }));
            upd_tags(body, *addpath, &emb, &mut tags);
            let ap = *addpath;
            Some(Built { term: with_emb(kind, a, &emb), real: Real::Mrt(msg), embs: emb.into_iter().map(|e| (ap, e)).collect(), tags })
        }
        "ev-down" if a.len() == 4 => {
            let (peer_addr, peer_asn, peer_id) = peer_of(&a[0])?;
            let uptime = a[1].as_u64()?;
            use crate::fsm::SessionDownReason as R;
            let notif_of = |m: &Term| -> Option<bgp::Message> {
                let msg = msg_of(m)?;
                if msg_term(&msg) != *m || !matches!(msg, bgp::Message::Notification(_)) {
                    return None;
                }
                Some(msg)
            };
            let reason = match &a[2] {
                Term::Atom(s) => match s.as_str() {
                    "none" => None,
                    "hold" => Some(R::HoldTimerExpired),
                    "fsm" => Some(R::FsmError),
                    "admin" => Some(R::AdminShutdown),
                    "io" => Some(R::IoError),
                    _ => return None,
                },
                Term::List(r) if r.len() == 2 => match r[0].as_atom()? {
                    "remote" => Some(R::RemoteNotification(notif_of(&r[1])?)),
                    "local" => Some(R::LocalNotification(notif_of(&r[1])?)),
                    _ => return None,
                },
                _ => return None,
            };
            tags.push(Term::atom(format!("sess-{}", a[2].head()?)));
            // event/mod.rs: `reason: crate::bmp::session_down_to_bmp(..)`; BmpClient::serve `PeerDown` arm
            let reason = crate::bmp::session_down_to_bmp(reason);
            let emb = match &reason {
                bmp::PeerDownReason::LocalNotification(m) | bmp::PeerDownReason::RemoteNotification(m) => Some(standalone(&[m], false)),
                _ => None,
            };
            let header = bmp::PerPeerHeader::new(0, peer_asn, Ipv4Addr::from(peer_id), 0, peer_addr, uptime as u32);
            let et = match &emb {
                None => Term::atom("-"),
                Some(e) => emb_term(e),
            };
            let mut v: Vec<Term> = a[..3].to_vec();
            v.push(et);
            let embs = emb.into_iter().flatten().map(|e| (false, e)).collect();
            Some(Built { term: Term::tag(kind, v), real: Real::Bmp(bmp::Message::PeerDown { header, reason }), embs, tags })
        }
        "ev-locup" if a.len() == 3 => {
            // BmpClient::serve, Loc-RIB snapshot: `let peer_up = loc_rib_peer_up(local_id, local_asn)`
            let msg = crate::bmp::verif_c19_bmp::loc_rib_up(v4_of(&a[0])?, u32_of(&a[1])?);
            let bmp::Message::PeerUp { local_open, remote_open, .. } = &msg else { return None };
            let emb = standalone(&[local_open, remote_open], false);
            emb_tags(&emb, &mut tags);
            Some(Built { term: with_emb(kind, a, &emb), real: Real::Bmp(msg), embs: emb.into_iter().map(|e| (false, e)).collect(), tags })
        }
        "ev-live" if a.len() == 6 => build_live(a),
        "ev-dump" if a.len() == 3 => build_dump(t, a),
        "ev-flush" if a.len() == 5 => build_flush(a),
        k if k.starts_with("ev-") => None,
        _ => build(t),
    }
}


// ------------------------------------------------------------------ dump_table
struct DPath {
    src: Arc<table::Source>,
    nh: Option<Nexthop>,
    attrs: Arc<Vec<Attribute>>,
}
struct DChg {
    net: Nlri,
    paths: Vec<DPath>,
}

fn pfx_nlri(t: &Term) -> Option<Nlri> {
    let p = t.tagged("pfx")?;
    if p.len() != 2 {
        return None;
    }
    let mask = u8_of(&p[0])?;
    let ab = p[1].as_bytes()?;
    match ab.len() {
        4 if mask <= 32 => Some(Nlri::V4(bgp::Ipv4Net { addr: Ipv4Addr::from(<[u8; 4]>::try_from(&ab[..]).ok()?), mask })),
        16 if mask <= 128 => Some(Nlri::V6(bgp::Ipv6Net { addr: std::net::Ipv6Addr::from(<[u8; 16]>::try_from(&ab[..]).ok()?), mask })),
        _ => None,
    }
}
fn pfx_term(n: &Nlri) -> Term {
    match n {
        Nlri::V4(x) => Term::tag("pfx", vec![Term::nat(x.mask), Term::bytes(&x.addr.octets())]),
        Nlri::V6(x) => Term::tag("pfx", vec![Term::nat(x.mask), Term::bytes(&x.addr.octets())]),
        _ => Term::atom("?"),
    }
}
fn src_term(s: &table::Source) -> Term {
    Term::tag("src", vec![ip_term(&s.remote_addr), ip_term(&s.local_addr), Term::nat(s.remote_asn), Term::nat(s.local_asn), Term::nat(s.router_id)])
}
fn chgs_of(t: &Term, key: &str) -> Option<Vec<DChg>> {
    let mut out = vec![];
    for c in t.tagged(key)? {
        let c = c.as_list()?;
        let net = pfx_nlri(c.first()?)?;
        let mut paths = vec![];
        for p in &c[1..] {
            let p = p.tagged("path")?;
            if p.len() != 3 {
                return None;
            }
            let attrs = attrs_of(&p[2])?;
            if attrs_term(&attrs) != p[2] {
                return None;
            }
            paths.push(DPath { src: src_of(&p[0])?, nh: nh_of(&p[1])?, attrs: Arc::new(attrs) });
        }
        out.push(DChg { net, paths });
    }
    Some(out)
}
fn chgs_term(key: &str, v: &[table::NlriChange]) -> Term {
    Term::tag(
        key,
        v.iter()
            .map(|c| {
                let mut l = vec![pfx_term(&c.net)];
                for p in c.current_paths.iter() {
                    l.push(Term::tag("path", vec![src_term(&p.source), nh_term(&p.nexthop), attrs_term(&p.attr)]));
                }
                Term::list(l)
            })
            .collect(),
    )
}

/// zero the header timestamps and the per-entry originated times (SystemTime::now()) of a TABLE_DUMP_V2 stream
fn zero_td_times(b: &mut [u8]) -> bool {
    let rd16 = |b: &[u8], p: usize| ((b[p] as usize) << 8) | b[p + 1] as usize;
    let mut p = 0;
    while p + 12 <= b.len() {
        for x in &mut b[p..p + 4] {
            *x = 0;
        }
        let st = rd16(b, p + 6);
        let len = ((rd16(b, p + 8)) << 16) | rd16(b, p + 10);
        let (body, end) = (p + 12, p + 12 + len);
        if end > b.len() {
            return false;
        }
        if st == 2 || st == 4 {
            if body + 5 > end {
                return false;
            }
            let mut q = body + 4;
            let plen = b[q] as usize;
            q += 1 + plen.div_ceil(8);
            if q + 2 > end {
                return false;
            }
            let cnt = rd16(b, q);
            q += 2;
            for _ in 0..cnt {
                if q + 8 > end {
                    return false;
                }
                for x in &mut b[q + 2..q + 6] {
                    *x = 0;
                }
                q += 8 + rd16(b, q + 6);
            }
        }
        p = end;
    }
    p == b.len()
}

static DUMP_SEQ: std::sync::atomic::AtomicU64 = std::sync::atomic::AtomicU64::new(0);

fn build_dump(_t: &Term, a: &[Term]) -> Option<Built> {
    let rid = v4_of(&a[0])?;
    let c4 = chgs_of(&a[1], "chg4")?;
    let c6 = chgs_of(&a[2], "chg6")?;
    // a TableManager that holds exactly these paths (no policy, no kernel, no subscriber), inserted in case order
    let tables: crate::table_manager::TableHandle = Arc::new(crate::table_manager::TableManager::new(2));
    let mut inserted: Vec<String> = vec![];
    for (fam, chgs) in [(Family::IPV4, &c4), (Family::IPV6, &c6)] {
        for c in chgs.iter() {
            match (&c.net, fam) {
                (Nlri::V4(_), Family::IPV4) | (Nlri::V6(_), Family::IPV6) => {}
                _ => return None,
            }
            for p in &c.paths {
                // one path per (peer, prefix): no add-path receive in the dump scenarios
                tables.insert_route(p.src.clone(), fam, PathNlri { path_id: 0, nlri: c.net.clone() }, p.nh, p.attrs.clone(), None, 0);
                inserted.push(format!("{} {} {} {}", pfx_term(&c.net), src_term(&p.src), nh_term(&p.nh), attrs_term(&p.attrs)));
            }
        }
    }
    // the order in which dump_table will see them
    let r4 = tables.collect_loc_rib_paths(Family::IPV4);
    let r6 = tables.collect_loc_rib_paths(Family::IPV6);
    let mut collected: Vec<String> = vec![];
    for c in r4.iter().chain(r6.iter()) {
        for p in c.current_paths.iter() {
            collected.push(format!("{} {} {} {}", pfx_term(&c.net), src_term(&p.source), nh_term(&p.nexthop), attrs_term(&p.attr)));
        }
    }
    inserted.sort();
    collected.sort();
    if inserted != collected {
        return None; // duplicate (peer, prefix) in the case, or the table did not keep a path: not a dump scenario
    }
    let term = Term::tag("ev-dump", vec![a[0].clone(), chgs_term("chg4", &r4), chgs_term("chg6", &r6)]);
    // the real dump
    let path = format!(
        "{}.dump{}-{}",
        std::env::var("VERIF_OUT").unwrap_or_else(|_| "/tmp/c19".into()),
        std::process::id(),
        DUMP_SEQ.fetch_add(1, std::sync::atomic::Ordering::Relaxed)
    );
    let rt = tokio::runtime::Builder::new_current_thread().enable_all().build().ok()?;
    let ok = rt.block_on(async {
        use tokio::io::AsyncWriteExt;
        let mut f = tokio::fs::File::create(&path).await.ok()?;
        crate::mrt::dump_table(rid, &tables, &mut f).await.ok()?;
        f.flush().await.ok()?;
        f.sync_all().await.ok()?;
        Some(())
    });
    let bytes = std::fs::read(&path).ok();
    let _ = std::fs::remove_file(&path);
    ok?;
    let mut bytes = bytes?;
    if !zero_td_times(&mut bytes) {
        // leave the bytes as they are: the oracle will say what is wrong with them
    }
    let npeers = {
        let mut v: Vec<IpAddr> = vec![];
        for c in c4.iter().chain(c6.iter()) {
            for p in &c.paths {
                if !v.contains(&p.src.remote_addr) {
                    v.push(p.src.remote_addr);
                }
            }
        }
        v.len()
    };
    let tags = vec![
        Term::atom("ev-dump"),
        Term::atom(format!("dpeers-{}", npeers.min(4))),
        Term::atom(format!("dchg4-{}", c4.len().min(3))),
        Term::atom(format!("dchg6-{}", c6.len().min(3))),
    ];
    let mut tags = tags;
    if npeers > 255 {
        tags.push(Term::atom("dpeers-256+"));
    }
    Some(Built { term, real: Real::Raw(bytes), embs: vec![], tags })
}

// ------------------------------------------------------------------ flush_peer_snapshot
fn build_flush(a: &[Term]) -> Option<Built> {
    let (peer_addr, peer_asn, peer_id) = peer_of(&a[0])?;
    let upts = u32_of(&a[1])?;
    let post = a[2].as_bool()?;
    let mut changes = vec![];
    for c in a[3].tagged("chgs")? {
        changes.push(change_of(c.tagged("chg")?)?);
    }
    // BmpClient::serve: `flush_peer_snapshot(&mut snapshot, *addr, peer_header, 0)` resp.
    // `(&mut snapshot_post, *addr, &peer_header.clone().with_post_policy(), PEER_FLAG_POST_POLICY)`,
    // peer_header as built by Peer::bmp_peer_up
    let peer_header = bmp::PerPeerHeader::new(0, peer_asn, Ipv4Addr::from(peer_id), 0, peer_addr, upts);
    let (hdr, flags) = if post { (peer_header.with_post_policy(), bmp::Message::PEER_FLAG_POST_POLICY) } else { (peer_header, 0) };
    let msgs = crate::bmp::verif_c19_bmp::flush(changes, peer_addr, &hdr, flags);
    // canonical order (the real one is hash order): route messages by (family, NLRI bytes, path id), then the
    // End-of-RIB messages by family; the real list must already have every route before every End-of-RIB
    let mut routes: Vec<((u64, Vec<u8>, u32), bmp::Message)> = vec![];
    let mut eors: Vec<(u64, bmp::Message)> = vec![];
    for m in msgs {
        let key = match &m {
            bmp::Message::RouteMonitoring { update: bgp::Message::Update(bgp::Update::Reach { family, entries, .. }), .. } if entries.len() == 1 => {
                if !eors.is_empty() {
                    panic!("route after end-of-rib");
                }
                Ok((fam_num(*family), entries[0].nlri.encode_to_bytes(), entries[0].path_id))
            }
            bmp::Message::RouteMonitoring { update: bgp::Message::Update(bgp::Update::EndOfRib(family)), .. } => Err(fam_num(*family)),
            _ => panic!("unexpected message from flush_peer_snapshot"),
        };
        match key {
            Ok(k) => routes.push((k, m)),
            Err(f) => eors.push((f, m)),
        }
    }
    routes.sort_by(|x, y| x.0.cmp(&y.0));
    eors.sort_by(|x, y| x.0.cmp(&y.0));
    let mut embs_t = vec![];
    let mut embs = vec![];
    let mut reals = vec![];
    for m in routes.into_iter().map(|x| x.1).chain(eors.into_iter().map(|x| x.1)) {
        let bmp::Message::RouteMonitoring { update, addpath, .. } = &m else { unreachable!() };
        let e = standalone(&[update], *addpath);
        embs_t.push(emb_term(&e));
        if let Some(e) = e {
            embs.push((*addpath, e));
        }
        reals.push(Real::Bmp(m));
    }
    let tags = vec![Term::atom("ev-flush"), Term::atom(if post { "post" } else { "pre" }), Term::atom(format!("fmsgs-{}", reals.len().min(4)))];
    let term = Term::tag("ev-flush", vec![a[0].clone(), a[1].clone(), a[2].clone(), a[3].clone(), Term::tag("embs", embs_t)]);
    Some(Built { term, real: Real::Many(reals), embs, tags })
}


// ------------------------------------------------------------------ end-to-end: real session -> real serve
/// What one end-to-end scenario produced: bytes written by the serve connected before the session came up, by
/// the one connected while it was up, and the OPEN frame this speaker really sent to the peer.
struct LiveOut {
    early: Vec<u8>,
    late: Vec<u8>,
    sent_open: Vec<u8>,
    /// what the REAL `MrtDumper::serve` (update dump, no rotation) wrote to its file during the session
    mrt: Vec<u8>,
}

static LIVE_SEQ: std::sync::atomic::AtomicU64 = std::sync::atomic::AtomicU64::new(0);

/// Canonical form of an MRT update dump: wall-clock timestamps zeroed; per record the bytes after the BGP4MP
/// header of an IPv4 session (the embedded BGP message).
fn canon_mrt(b: &[u8]) -> Option<(Vec<u8>, Vec<Vec<u8>>)> {
    let mut out = b.to_vec();
    let mut embs = vec![];
    let mut p = 0;
    while p < out.len() {
        if p + 12 > out.len() {
            return None;
        }
        let l = u32::from_be_bytes([out[p + 8], out[p + 9], out[p + 10], out[p + 11]]) as usize;
        if p + 12 + l > out.len() || l < 20 {
            return None;
        }
        for x in &mut out[p..p + 4] {
            *x = 0;
        }
        embs.push(out[p + 12 + 20..p + 12 + l].to_vec());
        p += 12 + l;
    }
    Some((out, embs))
}

struct LiveCfg {
    /// ADD-PATH (send+receive, IPv4 unicast) configured locally and advertised by the peer
    ap: bool,
    lrid: u32,
    lasn: u32,
    lhold: u64,
    rasn: u32,
    rhold: u16,
    rrid: u32,
    late: bool,
}

/// UPDATE frame the remote speaker sends: announcement (ORIGIN IGP, AS_PATH [rasn], NEXT_HOP 10.0.0.1) or
/// withdrawal of one IPv4 prefix (wire form)
fn live_open_frame(asn: u32, hold: u16, rid: u32, ap: bool) -> Vec<u8> {
    let mut f = rig::open_frame(asn, hold, rid);
    if ap {
        // append the ADD-PATH capability (code 69: IPv4 unicast, send+receive) to the capability parameter
        let cap = [69u8, 4, 0, 1, 1, 3];
        f.extend_from_slice(&cap);
        let n = f.len() as u16;
        f[16..18].copy_from_slice(&n.to_be_bytes());
        f[28] += cap.len() as u8; // optional parameters length
        f[30] += cap.len() as u8; // capability parameter length
    }
    f
}

/// a Rig (rig.rs) whose peer is configured with ADD-PATH send+receive for IPv4 unicast; `peer_params` of rig.rs
/// with `families` filled (the struct literal is the only copied code)
async fn rig_with_addpath(cfg: rig::RigCfg) -> rig::Rig {
    use crate::event::*;
    let (tx, _rx) = tokio::sync::mpsc::unbounded_channel();
    let (bfd_tx, _bfd_rx) = tokio::sync::mpsc::unbounded_channel();
    let mut g = Global::new(tx, bfd_tx);
    g.asn = cfg.asn;
    g.router_id = Ipv4Addr::from(cfg.rid);
    let global: GlobalHandle = Arc::new(tokio::sync::RwLock::new(g));
    let tables: TableHandle = Arc::new(crate::table_manager::TableManager::new(1));
    let remote_addr: IpAddr = "127.0.0.1".parse().unwrap();
    let mut families = fnv::FnvHashMap::default();
    families.insert(Family::IPV4, 3u8);
    let mut send_max = fnv::FnvHashMap::default();
    send_max.insert(Family::IPV4, 4usize);
    let params = PeerParams {
        remote_addr,
        remote_port: Global::BGP_PORT,
        expected_remote_asn: cfg.expected,
        local_asn: 0,
        passive: true,
        rs_client: false,
        route_reflector: RouteReflectorConfig::default(),
        delete_on_disconnected: false,
        admin_down: false,
        state: SessionState::Idle,
        holdtime: cfg.hold,
        connect_retry_time: PeerParams::DEFAULT_CONNECT_RETRY_TIME,
        multihop_ttl: None,
        ttl_security: None,
        password: None,
        families,
        send_max,
        prefix_limits: fnv::FnvHashMap::default(),
        graceful_restart: None,
        llgr: None,
        bfd_config: None,
        neighbor_interface: None,
        bind_interface: None,
        export_policy: None,
    };
    global.write().await.add_peer(params, None).unwrap();
    rig::Rig { cfg, global, tables, remote_addr, conns: [None, None], closed_frames: [Vec::new(), Vec::new()], storm: false }
}

fn live_update(announce: bool, nlri: &[u8], rasn: u32) -> Vec<u8> {
    let mut b: Vec<u8> = Vec::new();
    if announce {
        let mut a: Vec<u8> = vec![0x40, 1, 1, 0, 0x40, 2, 6, 2, 1];
        a.extend_from_slice(&rasn.to_be_bytes());
        a.extend_from_slice(&[0x40, 3, 4, 10, 0, 0, 1]);
        b.extend_from_slice(&[0, 0]);
        b.extend_from_slice(&(a.len() as u16).to_be_bytes());
        b.extend_from_slice(&a);
        b.extend_from_slice(nlri);
    } else {
        b.extend_from_slice(&(nlri.len() as u16).to_be_bytes());
        b.extend_from_slice(nlri);
        b.extend_from_slice(&[0, 0]);
    }
    let mut f = vec![0xffu8; 16];
    f.extend_from_slice(&((19 + b.len()) as u16).to_be_bytes());
    f.push(2);
    f.extend_from_slice(&b);
    f
}

async fn run_live(cfg: &LiveCfg, acts: &[(bool, Vec<u8>)]) -> Option<LiveOut> {
    use crate::fsm::Role;
    let rcfg = rig::RigCfg { rid: cfg.lrid, asn: cfg.lasn, hold: cfg.lhold, expected: cfg.rasn };
    let mut rg = if cfg.ap { rig_with_addpath(rcfg).await } else { rig::Rig::new(rcfg).await };
    let mut early = crate::bmp::verif_c19_bmp::LiveServe::start(rg.global.clone(), rg.tables.clone(), 4).await;
    // the MRT update dumper of `mrt dump updates` (interval 0 = one file), subscribed before the session
    let mrt_path = format!(
        "{}.mrt{}-{}",
        std::env::var("VERIF_OUT").unwrap_or_else(|_| "/tmp/c19".into()),
        std::process::id(),
        LIVE_SEQ.fetch_add(1, std::sync::atomic::Ordering::Relaxed)
    );
    let mrt_cancel = tokio_util::sync::CancellationToken::new();
    let mrt_task = {
        let file = tokio::fs::File::create(&mrt_path).await.ok()?;
        let (c2, t2, p2) = (mrt_cancel.clone(), rg.tables.clone(), mrt_path.clone());
        tokio::spawn(async move {
            let mut d = crate::mrt::MrtDumper::new(&p2, 0);
            let _ = d.serve(file, c2, t2).await;
        })
    };
    tokio::task::yield_now().await;
    if !rg.connect(Role::Passive).await {
        return None;
    }
    rg.pump().await;
    rg.client_write(Role::Passive, &live_open_frame(cfg.rasn, cfg.rhold, cfg.rrid, cfg.ap)).await;
    rg.pump().await;
    rg.client_write(Role::Passive, &rig::keepalive_frame()).await;
    rg.pump().await;
    early.drain().await;
    // what this speaker sent so far: its OPEN is the first frame
    let mut sent = Vec::new();
    if let Some(c) = rg.conns[rig::idx(Role::Passive)].as_mut() {
        if let Some(cl) = c.client.as_mut() {
            let mut tmp = [0u8; 8192];
            while let Ok(n) = cl.try_read(&mut tmp) {
                if n == 0 {
                    break;
                }
                sent.extend_from_slice(&tmp[..n]);
            }
        }
    }
    let n = bgp_len(&sent)?;
    let sent_open = sent[..n].to_vec();
    if rg.fsm_state(Role::Passive) != crate::fsm::State::Established {
        return None;
    }
    for (ann, nlri) in acts {
        rg.client_write(Role::Passive, &live_update(*ann, nlri, cfg.rasn)).await;
        rg.pump().await;
        early.drain().await;
    }
    let late = if cfg.late {
        let mut l = crate::bmp::verif_c19_bmp::LiveServe::start(rg.global.clone(), rg.tables.clone(), 4).await;
        l.drain().await;
        Some(l)
    } else {
        None
    };
    rg.client_close(Role::Passive).await;
    rg.pump().await;
    early.drain().await;
    let late = match late {
        Some(mut l) => {
            l.drain().await;
            l.finish().await
        }
        None => vec![],
    };
    let early = early.finish().await;
    // let the dumper drain its channel, then stop it and read its file
    tokio::time::sleep(std::time::Duration::from_millis(20)).await;
    mrt_cancel.cancel();
    let _ = mrt_task.await;
    let mrt = std::fs::read(&mrt_path).ok()?;
    let _ = std::fs::remove_file(&mrt_path);
    Some(LiveOut { early, late, sent_open, mrt })
}

fn bgp_len(b: &[u8]) -> Option<usize> {
    if b.len() < 19 {
        return None;
    }
    let n = ((b[16] as usize) << 8) | b[17] as usize;
    if n < 19 || n > b.len() { None } else { Some(n) }
}

/// debugging aid: one line per BMP message of a stream
fn describe_bmp(b: &[u8]) -> Vec<String> {
    let mut out = vec![];
    let mut p = 0;
    while p + 6 <= b.len() {
        let len = u32::from_be_bytes([b[p + 1], b[p + 2], b[p + 3], b[p + 4]]) as usize;
        let ty = b[p + 5];
        if len < 6 || p + len > b.len() {
            out.push(format!("BAD at {}", p));
            break;
        }
        let body = &b[p + 6..p + len];
        let mut s = format!("type={} len={}", ty, len);
        if ty != 4 && ty != 5 && body.len() >= 42 {
            s += &format!(" ptype={} flags={} addr={:?} asn={} id={:?}", body[0], body[1], &body[22..26], u32::from_be_bytes([body[26], body[27], body[28], body[29]]), &body[30..34]);
            let rest = &body[42..];
            if ty == 0 {
                for f in split_frames(rest) {
                    s += &format!(" {} | ap: {}", parse_back(f, false), parse_back(f, true));
                }
            } else if ty == 3 {
                for f in split_frames(&rest[20..]) {
                    s += &format!(" {}", parse_back(f, false));
                }
            } else if ty == 2 {
                s += &format!(" reason={} {:?}", rest[0], &rest[1..]);
            }
        }
        out.push(s);
        p += len;
    }
    out
}

/// Canonical form of what a real serve wrote: Initiation messages are removed (host name, version string: not
/// inputs; `ok` = each had a non-empty sysDescr starting with "RustyBGP" and a sysName TLV), wall-clock
/// timestamps of the per-peer headers and the TCP ports of Peer Up are zeroed.  Also returns, per remaining
/// message, the bytes after its fixed-size part (the embedded BGP PDUs).
fn canon_bmp(b: &[u8]) -> Option<(Vec<u8>, Vec<(bool, Vec<u8>)>, bool)> {
    let mut out = vec![];
    let mut embs = vec![];
    let mut init_ok = true;
    let mut p = 0;
    while p < b.len() {
        if p + 6 > b.len() {
            return None;
        }
        let len = u32::from_be_bytes([b[p + 1], b[p + 2], b[p + 3], b[p + 4]]) as usize;
        let ty = b[p + 5];
        if len < 6 || p + len > b.len() {
            return None;
        }
        let mut m = b[p..p + len].to_vec();
        p += len;
        if ty == 4 {
            let body = &m[6..];
            let descr_ok = body.len() >= 12 && body[0..2] == [0, 1] && &body[4..12] == b"RustyBGP";
            init_ok = init_ok && descr_ok;
            continue;
        }
        if m.len() < 48 {
            return None;
        }
        for x in &mut m[6 + 34..6 + 42] {
            *x = 0;
        }
        let fixed = match ty {
            0 => 48,
            2 => 49,
            3 => {
                if m.len() < 68 {
                    return None;
                }
                for x in &mut m[48 + 16..48 + 20] {
                    *x = 0;
                }
                68
            }
            _ => return None,
        };
        if m.len() < fixed {
            return None;
        }
        // Adj-RIB-In (pre / post policy) Route Monitoring of a Global-instance peer: the session's add-path setting applies
        let adj_in = ty == 0 && m[6] == 0 && (m[7] & !0x40 & !0x80) == 0;
        embs.push((adj_in, m[fixed..].to_vec()));
        out.extend_from_slice(&m);
    }
    Some((out, embs, init_ok))
}

/// `(ev-live (cfg LRID LASN LHOLD AP) (popen RASN RHOLD RRID) (acts (ann PID xNLRI)|(wd PID xNLRI)...) LATE (opens SENT RECV) (embs EMB...))`
fn build_live(a: &[Term]) -> Option<Built> {
    let c = a[0].tagged("cfg")?;
    let po = a[1].tagged("popen")?;
    if c.len() != 4 || po.len() != 3 {
        return None;
    }
    let cfg = LiveCfg {
        ap: c[3].as_bool()?,
        lrid: u32_of(&c[0])?,
        lasn: u32_of(&c[1])?,
        lhold: c[2].as_u64()?,
        rasn: u32_of(&po[0])?,
        rhold: u16_of(&po[1])?,
        rrid: u32_of(&po[2])?,
        late: a[3].as_bool()?,
    };
    if !(cfg.lhold == 0 || (3..=65535).contains(&cfg.lhold)) || cfg.rhold == 1 || cfg.rhold == 2 {
        return None;
    }
    let mut acts = vec![];
    for x in a[2].tagged("acts")? {
        let l = x.as_list()?;
        if l.len() != 3 {
            return None;
        }
        let ann = match l[0].as_atom()? {
            "ann" => true,
            "wd" => false,
            _ => return None,
        };
        let pid = u32_of(&l[1])?;
        let n = l[2].as_bytes()?;
        nlri_of(Family::IPV4, &n)?;
        if !cfg.ap && pid != 0 {
            return None;
        }
        // wire form of the NLRI: with ADD-PATH the path identifier precedes the prefix
        let mut w = if cfg.ap { pid.to_be_bytes().to_vec() } else { vec![] };
        w.extend_from_slice(&n);
        acts.push((ann, w));
    }
    let rt = tokio::runtime::Builder::new_current_thread().enable_all().build().ok()?;
    let o = rt.block_on(run_live(&cfg, &acts))?;
    drop(rt);
    let (mut bytes, mut embs, ok1) = canon_bmp(&o.early)?;
    let (b2, e2, ok2) = canon_bmp(&o.late)?;
    bytes.extend_from_slice(&b2);
    embs.extend(e2);
    let (b3, e3) = canon_mrt(&o.mrt)?;
    bytes.extend_from_slice(&b3);
    embs.extend(e3.into_iter().map(|e| (true, e)));
    let sent = parse_back(&o.sent_open, false);
    let recv = parse_back(&live_open_frame(cfg.rasn, cfg.rhold, cfg.rrid, cfg.ap), false);
    let term = Term::tag(
        "ev-live",
        vec![
            a[0].clone(),
            a[1].clone(),
            a[2].clone(),
            a[3].clone(),
            Term::tag("opens", vec![sent, recv]),
            Term::tag("embs", embs.iter().map(|e| Term::bytes(&e.1)).collect()),
        ],
    );
    let mut tags = vec![
        Term::atom("ev-live"),
        Term::atom(if cfg.late { "late-serve" } else { "early-serve" }),
        Term::atom(if cfg.ap { "ap-on" } else { "ap-off" }),
        Term::atom(format!("lacts-{}", acts.len().min(3))),
    ];
    if !(ok1 && ok2) {
        tags.push(Term::atom("initiation-odd"));
    }
    let ap = cfg.ap;
    let embs = embs.into_iter().filter(|e| !e.1.is_empty()).map(|e| (ap && e.0, e.1)).collect();
    Some(Built { term, real: Real::Raw(bytes), embs, tags })
}

fn run_dcase(line: &str) -> String {
    run_case_with(line, "dcase", "items", &build_item)
}

// ------------------------------------------------------------------ generator
fn g_src(r: &mut Rng) -> Term {
    let v6 = r.chance(1, 2);
    Term::tag(
        "src",
        vec![
            g_ip(r, v6),
            g_ip(r, v6),
            Term::nat(*r.pick(&ASNS)),
            Term::nat(*r.pick(&ASNS)),
            Term::nat(u32::from_be_bytes(pick_v4(r))),
        ],
    )
}

/// (FAM AP NLRIS ATTRS NH) taken from a generated packet-level UPDATE content
fn g_change_parts(r: &mut Rng, big: bool) -> Option<(Term, Term, Term, Term, Term)> {
    let u = g_update(r, big);
    let l = u.as_list()?;
    let ap = Term::atom(if r.chance(1, 3) { "t" } else { "f" });
    match l[0].as_atom()? {
        "reach" => Some((l[1].clone(), ap, l[2].clone(), l[4].clone(), l[3].clone())),
        "unreach" => Some((l[1].clone(), ap, l[2].clone(), Term::atom("none"), Term::atom("none"))),
        _ => None,
    }
}

fn g_peer(r: &mut Rng) -> Term {
    let v6 = r.chance(1, 2);
    Term::tag("peer", vec![g_ip(r, v6), Term::nat(*r.pick(&ASNS)), Term::nat(u32::from_be_bytes(pick_v4(r)))])
}


fn g_srcs(r: &mut Rng, n: usize) -> Vec<Term> {
    // mostly distinct peer addresses; sometimes two sessions (different AS / identifier) share one address:
    // dump_table keys its peer index by address only
    let mut v: Vec<Term> = vec![];
    let mut guard = 0;
    let share = r.chance(1, 5);
    while v.len() < n && guard < 50 {
        guard += 1;
        let s = g_src(r);
        let addr = s.as_list().unwrap()[1].clone();
        if share || !v.iter().any(|x| x.as_list().unwrap()[1] == addr) {
            v.push(s);
        }
    }
    v
}

/// more peers than fit one octet: `n` IPv4 peers 10.9.x.y with one path each, spread over two prefixes
fn g_dump_many(r: &mut Rng, n: usize) -> Term {
    let mut paths: Vec<Vec<Term>> = vec![vec![], vec![]];
    for i in 0..n {
        let a = [10u8, 9, (i >> 8) as u8, i as u8];
        let src = Term::tag(
            "src",
            vec![
                Term::list(vec![Term::atom("v4"), Term::bytes(&a)]),
                Term::list(vec![Term::atom("v4"), Term::bytes(&[10, 0, 0, 9])]),
                Term::nat(64512 + i as u32),
                Term::nat(65009u32),
                Term::nat(u32::from_be_bytes(a)),
            ],
        );
        let attrs = Term::list(vec![
            Term::list(vec![Term::nat(1u8), Term::nat(64u8), Term::atom("val"), Term::nat(0u8)]),
            Term::list(vec![Term::nat(2u8), Term::nat(64u8), Term::atom("bin"), Term::bytes(&[2, 1, 0, 0, 0xfc, (i % 251) as u8])]),
        ]);
        paths[i % 2].push(Term::tag("path", vec![src, Term::bytes(&a), attrs]));
    }
    let mut c4 = vec![];
    for (k, ps) in paths.into_iter().enumerate() {
        if ps.is_empty() {
            continue;
        }
        let mut l = vec![Term::tag("pfx", vec![Term::nat(24u8), Term::bytes(&[10, 1, k as u8, 0])])];
        l.extend(ps);
        c4.push(Term::list(l));
    }
    Term::tag("ev-dump", vec![Term::bytes(&pick_v4(r)), Term::tag("chg4", c4), Term::tag("chg6", vec![])])
}

fn g_dump(r: &mut Rng) -> Term {
    let np = if r.chance(1, 10) { 0 } else { 1 + r.below(4) as usize };
    let srcs = g_srcs(r, np);
    let mut mk = |v6: bool, r: &mut Rng| -> Vec<Term> {
        let mut out: Vec<Term> = vec![];
        if srcs.is_empty() {
            return out;
        }
        let n = r.below(4);
        for i in 0..n {
            let (mask, addr) = if v6 {
                (*r.pick(&[0u8, 32, 48, 64, 128]), {
                    let mut a = v6s(0);
                    a[5] = i as u8;
                    a.to_vec()
                })
            } else {
                (*r.pick(&[0u8, 8, 24, 25, 32]), vec![10, i as u8, r.below(2) as u8, 0])
            };
            let pfx = Term::tag("pfx", vec![Term::nat(mask), Term::bytes(&addr)]);
            if out.iter().any(|c: &Term| c.as_list().unwrap()[0] == pfx) {
                continue;
            }
            let k = 1 + r.below(srcs.len().min(3) as u64) as usize;
            let mut l = vec![pfx];
            let start = r.below(srcs.len() as u64) as usize;
            for j in 0..k {
                let s = srcs[(start + j) % srcs.len()].clone();
                let mixed = r.chance(1, 10);
                l.push(Term::tag("path", vec![s, g_nh(r, v6 != mixed), Term::list(g_attrs(r, 0))]));
            }
            out.push(Term::list(l));
        }
        out
    };
    let c4 = mk(false, r);
    let c6 = mk(true, r);
    Term::tag("ev-dump", vec![Term::bytes(&pick_v4(r)), Term::tag("chg4", c4), Term::tag("chg6", c6)])
}

fn g_flush(r: &mut Rng) -> Term {
    let peer = g_peer(r);
    let pa = peer.as_list().unwrap();
    let v6peer = pa[1].as_list().unwrap()[0].as_atom() == Some("v6");
    let mine = Term::tag("src", vec![pa[1].clone(), g_ip(r, v6peer), pa[2].clone(), Term::nat(*r.pick(&ASNS)), pa[3].clone()]);
    let n = r.below(7);
    let mut chgs = vec![];
    for _ in 0..n {
        let v6 = r.chance(1, 2);
        let fam = Term::nat(fam_num(if v6 { Family::IPV6 } else { Family::IPV4 }));
        let k = 1 + r.below(3);
        let nl: Vec<Term> = (0..k)
            .map(|_| {
                let b = if v6 { vec![48, 0x20, 0x01, 0x0d, 0xb8, 0, r.below(3) as u8] } else { vec![24, 10, 0, r.below(3) as u8] };
                Term::list(vec![Term::nat(r.below(2)), Term::bytes(&b)])
            })
            .collect();
        let src = if r.chance(1, 5) { g_src(r) } else { mine.clone() };
        let ap = Term::atom(if r.chance(1, 3) { "t" } else { "f" });
        let (at, nh) = if r.chance(1, 3) { (Term::atom("none"), Term::atom("none")) } else { (Term::list(g_attrs(r, 0)), g_nh(r, v6)) };
        chgs.push(Term::tag("chg", vec![src, fam, ap, Term::list(nl), at, nh, Term::nat(*r.pick(&TSS))]));
    }
    Term::tag(
        "ev-flush",
        vec![peer, Term::nat(*r.pick(&TSS)), Term::atom(if r.chance(1, 2) { "t" } else { "f" }), Term::tag("chgs", chgs), Term::tag("embs", vec![])],
    )
}

fn g_live(r: &mut Rng) -> Term {
    let lasn = *r.pick(&[65009u32, 64512, 4200000009]);
    let rasn = *r.pick(&[65001u32, 65002, 4200000001]);
    let lrid = u32::from_be_bytes(*r.pick(&[[10u8, 0, 0, 9], [192, 168, 0, 9]]));
    let rrid = u32::from_be_bytes(*r.pick(&[[10u8, 0, 0, 1], [1, 1, 1, 1]]));
    let late = r.chance(1, 2);
    let ap = r.chance(1, 3);
    // announcements of prefixes not currently announced, withdrawals of announced ones; at most one route left
    let pool: [[u8; 4]; 3] = [[24, 192, 0, 2], [24, 192, 0, 3], [16, 10, 7, 0]];
    let mut have: Vec<(u32, Vec<u8>)> = vec![];
    let mut acts = vec![];
    let n = r.below(5);
    for _ in 0..n {
        if !have.is_empty() && r.chance(1, 2) {
            let i = r.below(have.len() as u64) as usize;
            let (pid, p) = have.remove(i);
            acts.push(Term::list(vec![Term::atom("wd"), Term::nat(pid), Term::bytes(&p)]));
        } else {
            let p = r.pick(&pool);
            let p = p[..1 + (p[0] as usize).div_ceil(8)].to_vec();
            if have.iter().any(|x| x.1 == p) {
                continue;
            }
            let pid = if ap { 1 + r.below(3) as u32 } else { 0 };
            have.push((pid, p.clone()));
            acts.push(Term::list(vec![Term::atom("ann"), Term::nat(pid), Term::bytes(&p)]));
        }
    }
    while have.len() > 1 {
        let (pid, p) = have.remove(0);
        acts.push(Term::list(vec![Term::atom("wd"), Term::nat(pid), Term::bytes(&p)]));
    }
    Term::tag(
        "ev-live",
        vec![
            Term::tag("cfg", vec![Term::nat(lrid), Term::nat(lasn), Term::nat(*r.pick(&[0u64, 3, 90, 180])), Term::atom(if ap { "t" } else { "f" })]),
            Term::tag("popen", vec![Term::nat(rasn), Term::nat(*r.pick(&[0u16, 30, 90])), Term::nat(rrid)]),
            Term::tag("acts", acts),
            Term::atom(if late { "t" } else { "f" }),
            Term::tag("opens", vec![]),
            Term::tag("embs", vec![]),
        ],
    )
}

fn g_item(r: &mut Rng, big: bool) -> Term {
    loop {
        // half of the items are plain packet-level records (all kinds), half are daemon events
        match r.below(20) {
            0 | 1 => {
                let Some((fam, ap, nl, at, nh)) = g_change_parts(r, big) else { continue };
                if nl.as_list().map(|x| x.is_empty()).unwrap_or(true) {
                    continue;
                }
                return Term::tag("ev-rm", vec![Term::atom(if r.chance(1, 2) { "t" } else { "f" }), g_src(r), fam, ap, nl, at, nh, Term::nat(*r.pick(&TSS)), q()]);
            }
            2 => {
                let Some((fam, ap, nl, at, nh)) = g_change_parts(r, false) else { continue };
                let Some(first) = nl.as_list().and_then(|x| x.first().cloned()) else { continue };
                return Term::tag("ev-out", vec![Term::atom(if r.chance(1, 2) { "t" } else { "f" }), g_peer(r), fam, ap, first, at, nh, Term::nat(*r.pick(&TSS)), q()]);
            }
            3 => {
                let Some((fam, _ap, nl, at, nh)) = g_change_parts(r, false) else { continue };
                let Some(first) = nl.as_list().and_then(|x| x.first().cloned()) else { continue };
                let net = first.as_list().unwrap()[1].clone();
                return Term::tag("ev-loc", vec![fam, net, at, nh, Term::nat(*r.pick(&TSS)), Term::bytes(&pick_v4(r)), Term::nat(*r.pick(&ASNS)), q()]);
            }
            4 | 5 => {
                let Some((fam, ap, nl, at, nh)) = g_change_parts(r, big) else { continue };
                if nl.as_list().map(|x| x.is_empty()).unwrap_or(true) {
                    continue;
                }
                return Term::tag("ev-mrt", vec![g_src(r), fam, ap, nl, at, nh, Term::nat(*r.pick(&TSS)), q()]);
            }
            6 if r.chance(1, 4) => {
                let rid = *r.pick(&[[10u8, 0, 0, 1], [1, 1, 1, 1], [192, 168, 0, 1]]);
                return Term::tag("ev-locup", vec![Term::bytes(&rid), Term::nat(*r.pick(&[1u32, 65001, 65535, 65536, 4200000001, u32::MAX])), q()]);
            }
            6 => {
                let reason = match r.below(7) {
                    0 => Term::atom("none"),
                    1 => Term::atom("hold"),
                    2 => Term::atom("fsm"),
                    3 => Term::atom("admin"),
                    4 => Term::atom("io"),
                    5 => Term::tag("remote", vec![g_notif(r)]),
                    _ => Term::tag("local", vec![g_notif(r)]),
                };
                let up: u64 = if r.chance(1, 6) { (1u64 << 32) + 5 } else { *r.pick(&TSS) as u64 };
                return Term::tag("ev-down", vec![g_peer(r), Term::nat(up), reason, q()]);
            }
            7 if r.chance(1, 12) => {
                let n = 256 + r.below(50) as usize;
                return g_dump_many(r, n);
            }
            7 => return g_dump(r),
            8 if r.chance(1, 8) => return g_live(r),
            8 => return g_flush(r),
            9 if r.chance(1, 2) => return g_dump(r),
            _ => return g_rec(r, big),
        }
    }
}

fn gen_cases(seed: u64, n: usize, tier: &str, out: &str) {
    use std::io::Write;
    let mut f = std::io::BufWriter::new(std::fs::File::create(out).expect("create gen output"));
    let mut r = Rng(seed.wrapping_mul(1000003).wrapping_add(1919));
    let big = tier == "thorough";
    let mut i = 0;
    while i < n {
        let items: Vec<Term> = if r.chance(1, 8) {
            g_td(&mut r, big) // a packet-level TABLE_DUMP_V2 sequence
        } else {
            let k = 1 + r.below(4);
            (0..k).map(|_| g_item(&mut r, big)).collect()
        };
        let done = catch_unwind(AssertUnwindSafe(|| complete_with("dcase", "items", &items, &build_item)));
        if let Ok(Some((c, _))) = done {
            // the canonical case must reproduce itself (dump order depends on the table's own ordering)
            let line = c.to_string();
            let again = catch_unwind(AssertUnwindSafe(|| run_dcase(&line))).unwrap_or_else(|_| "(panic)".into());
            if again == "(bad-case)" {
                continue;
            }
            writeln!(f, "{}", line).unwrap();
            i += 1;
        }
    }
    f.flush().unwrap();
}

#[test]
fn verif_main() {
    let (Ok(prop), Ok(inp), Ok(out)) = (std::env::var("VERIF_PROP"), std::env::var("VERIF_IN"), std::env::var("VERIF_OUT")) else {
        return; // not invoked by /verif/check
    };
    if prop != "C19" {
        return;
    }
    std::panic::set_hook(Box::new(|_| {}));
    if std::env::var("VERIF_MODE").as_deref() == Ok("live-debug") {
        let rt = tokio::runtime::Builder::new_current_thread().enable_all().build().unwrap();
        let cfg = LiveCfg { ap: true, lrid: 0x0a000009, lasn: 65009, lhold: 90, rasn: 4200000001, rhold: 30, rrid: 0x0a000001, late: true };
        let acts = vec![(true, vec![0, 0, 0, 7, 24, 192, 0, 2]), (true, vec![0, 0, 0, 8, 24, 192, 0, 3]), (false, vec![0, 0, 0, 7, 24, 192, 0, 2])];
        let o = rt.block_on(run_live(&cfg, &acts)).expect("live");
        let mut txt = format!("sent_open {}\n", parse_back(&o.sent_open, false));
        for l in describe_bmp(&o.early) {
            txt += &format!("E {}\n", l);
        }
        for l in describe_bmp(&o.late) {
            txt += &format!("L {}\n", l);
        }
        if let Some((c, e)) = canon_mrt(&o.mrt) {
            let mut p = 0;
            for x in e {
                let l = u32::from_be_bytes([c[p + 8], c[p + 9], c[p + 10], c[p + 11]]) as usize;
                txt += &format!("M sub={} hdr={:?} {} | ap: {}\n", c[p + 7], &c[p + 12..p + 32], parse_back(&x, false), parse_back(&x, true));
                p += 12 + l;
            }
        } else {
            txt += "M unreadable\n";
        }
        std::fs::write(&out, txt).unwrap();
    } else if std::env::var("VERIF_MODE").as_deref() == Ok("gen") {
        let seed: u64 = std::env::var("VERIF_SEED").ok().and_then(|s| s.parse().ok()).unwrap_or(1);
        let n: usize = std::env::var("VERIF_N").ok().and_then(|s| s.parse().ok()).unwrap_or(100);
        let tier = std::env::var("VERIF_TIER").unwrap_or_else(|_| "quick".into());
        gen_cases(seed, n, &tier, &out);
    } else if std::env::var("VERIF_MODE").as_deref() == Ok("mk") {
        // complete hand-written cases (EMB fields `?`, empty tbl): comment lines are copied
        use std::io::{BufRead, Write};
        let mut f = std::io::BufWriter::new(std::fs::File::create(&out).expect("create output"));
        for line in std::io::BufReader::new(std::fs::File::open(&inp).expect("open input")).lines() {
            let line = line.unwrap();
            if line.trim().is_empty() || line.starts_with(';') {
                writeln!(f, "{}", line).unwrap();
                continue;
            }
            let done = Term::parse(&line).and_then(|t| {
                let (head, key): (&str, &str) = if t.tagged("dcase").is_some() { ("dcase", "items") } else { ("case", "recs") };
                let a = t.tagged(head)?.to_vec();
                let recs = a.last()?.tagged(key)?.to_vec();
                complete_with(head, key, &recs, &build_item).map(|x| x.0)
            });
            match done {
                Some(c) => writeln!(f, "{}", c).unwrap(),
                None => writeln!(f, "; cannot build: {}", line).unwrap(),
            }
        }
        f.flush().unwrap();
    } else {
        sexp::run_lines(&inp, &out, |l| {
            let l = l.to_string();
            catch_unwind(AssertUnwindSafe(|| {
                if l.starts_with("(dcase") { run_dcase(&l) } else { run_case(&l) }
            }))
            .unwrap_or_else(|_| "(panic)".into())
        });
    }
    let _ = std::panic::take_hook();
}
