// harness module for C19 (not written yet)
