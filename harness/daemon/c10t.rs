// C10, `(glue-tcp ev ...)` cases: the same `Global` / `PeerContext` / `TableManager` world as the `(glue ...)`
// stream and the same observation, but the peer's session is a REAL session task: a loopback TCP
// connection from 127.0.0.2 is handed to the real `accept_connection`, the returned `PeerSession` runs the
// real `PeerSession::run` (session_loop, run_select, flush_tx, the tail that calls finish_session and
// apply_disconnect) on the runtime, and the harness is the remote speaker on the other end of the socket.
//
//   est            the speaker connects, sends its OPEN (MP-BGP families, graceful-restart capability with /
//                  without the N bit and restart time, long-lived GR capability as the case says), answers the
//                  daemon's OPEN with a KEEPALIVE: capabilities are negotiated by the real OPEN handling
//   ann / eor      UPDATE / End-of-RIB frames on the socket (handle_message's End-of-RIB detection and its
//                  `negotiated_gr.is_some()` guard are the daemon's)
//   down io        the speaker closes the socket
//   down (rnotif c s)   the speaker sends that NOTIFICATION, then closes
//   down fsm       the speaker sends a second OPEN (an FSM error in Established)
//   attempt        a connection that is closed before any OPEN
//   force / disable / enable   the real gRPC handlers; the close reason travels through the session's close
//                  channel to the real `run_select`, whose Step::Terminate ends the session task
//   gr-timer / llgr-timer f    the real expiry handlers, as in the `(glue ...)` stream
// Not possible here (the case is `(bad-case)` on both sides): `wait`, `down hold|admin|(lnotif ..)`, `est` or
// `attempt` while a session may be up, `est` while the peer is administratively down.
#![allow(dead_code)]

use super::*;
use tokio::io::AsyncWriteExt;

const AFI_SAFI: [(u16, u8); 3] = [(1, 1), (2, 1), (1, 2)];

fn frame(ty: u8, body: &[u8]) -> Vec<u8> {
    let mut f = vec![0xffu8; 16];
    f.extend_from_slice(&((19 + body.len()) as u16).to_be_bytes());
    f.push(ty);
    f.extend_from_slice(body);
    f
}

fn open_frame(
    fams: &[u64],
    gr: &Option<(Vec<u64>, bool)>,
    llgr: &Option<Vec<u64>>,
    restart_secs: u16,
    llgr_secs: u32,
) -> Vec<u8> {
    let asn: u32 = 65002;
    let mut caps: Vec<u8> = Vec::new();
    for f in fams {
        let (afi, safi) = AFI_SAFI[*f as usize];
        caps.extend_from_slice(&[1, 4]);
        caps.extend_from_slice(&afi.to_be_bytes());
        caps.extend_from_slice(&[0, safi]);
    }
    caps.extend_from_slice(&[65, 4]);
    caps.extend_from_slice(&asn.to_be_bytes());
    if let Some((fs, nbit)) = gr {
        let flags: u16 = if *nbit { 0x4000 } else { 0 };
        let mut v: Vec<u8> = (flags | (restart_secs & 0x0fff)).to_be_bytes().to_vec();
        for f in fs {
            let (afi, safi) = AFI_SAFI[*f as usize];
            v.extend_from_slice(&afi.to_be_bytes());
            v.extend_from_slice(&[safi, 0]);
        }
        caps.extend_from_slice(&[64, v.len() as u8]);
        caps.extend_from_slice(&v);
    }
    if let Some(fs) = llgr {
        let mut v: Vec<u8> = Vec::new();
        for f in fs {
            let (afi, safi) = AFI_SAFI[*f as usize];
            v.extend_from_slice(&afi.to_be_bytes());
            v.extend_from_slice(&[safi, 0]);
            v.extend_from_slice(&llgr_secs.to_be_bytes()[1..]);
        }
        caps.extend_from_slice(&[71, v.len() as u8]);
        caps.extend_from_slice(&v);
    }
    let mut body: Vec<u8> = vec![4];
    body.extend_from_slice(&(asn as u16).to_be_bytes());
    body.extend_from_slice(&240u16.to_be_bytes());
    body.extend_from_slice(&[10, 0, 0, 2]);
    body.push((caps.len() + 2) as u8);
    body.push(2);
    body.push(caps.len() as u8);
    body.extend_from_slice(&caps);
    frame(1, &body)
}

fn prefix_bytes(f: u64, n: u64) -> Vec<u8> {
    if f == 1 {
        vec![48, 0x20, 0x01, 0x0d, 0xb8, 0x00, (n + 1) as u8]
    } else {
        vec![16, 10, (n + 1) as u8]
    }
}

fn update_body(withdrawn: &[u8], attrs: &[u8], nlri: &[u8]) -> Vec<u8> {
    let mut b: Vec<u8> = Vec::new();
    b.extend_from_slice(&(withdrawn.len() as u16).to_be_bytes());
    b.extend_from_slice(withdrawn);
    b.extend_from_slice(&(attrs.len() as u16).to_be_bytes());
    b.extend_from_slice(attrs);
    b.extend_from_slice(nlri);
    frame(2, &b)
}

fn announce_frame(f: u64, n: u64, no_llgr: bool, llgr_stale: bool) -> Vec<u8> {
    let mut a: Vec<u8> = vec![0x40, 1, 1, 0];
    a.extend_from_slice(&[0x40, 2, 6, 2, 1]);
    a.extend_from_slice(&65002u32.to_be_bytes());
    let pb = prefix_bytes(f, n);
    if f == 0 {
        a.extend_from_slice(&[0x40, 3, 4, 10, 0, 0, 2]);
    }
    let mut comm: Vec<u8> = Vec::new();
    if no_llgr {
        comm.extend_from_slice(&0xffff_0007u32.to_be_bytes());
    }
    if llgr_stale {
        comm.extend_from_slice(&0xffff_0006u32.to_be_bytes());
    }
    if !comm.is_empty() {
        a.extend_from_slice(&[0xc0, 8, comm.len() as u8]);
        a.extend_from_slice(&comm);
    }
    if f == 0 {
        update_body(&[], &a, &pb)
    } else {
        let (afi, safi) = AFI_SAFI[f as usize];
        let mut v: Vec<u8> = Vec::new();
        v.extend_from_slice(&afi.to_be_bytes());
        v.push(safi);
        if afi == 2 {
            v.push(16);
            v.extend_from_slice(&[0x20, 0x01, 0x0d, 0xb8, 0xff, 0, 0, 0, 0, 0, 0, 0, 0, 0, 0, 2]);
        } else {
            v.push(4);
            v.extend_from_slice(&[10, 0, 0, 2]);
        }
        v.push(0);
        v.extend_from_slice(&pb);
        a.extend_from_slice(&[0x80, 14, v.len() as u8]);
        a.extend_from_slice(&v);
        update_body(&[], &a, &[])
    }
}

fn eor_frame(f: u64) -> Vec<u8> {
    if f == 0 {
        update_body(&[], &[], &[])
    } else {
        let (afi, safi) = AFI_SAFI[f as usize];
        let mut a: Vec<u8> = vec![0x80, 15, 3];
        a.extend_from_slice(&afi.to_be_bytes());
        a.push(safi);
        update_body(&[], &a, &[])
    }
}

/// static validity of a `(glue-tcp ...)` script (the same rule as Codec.lean `tcpOk`)
pub(super) fn tcp_ok(evs: &[Ev]) -> bool {
    let mut maybe_up = false;
    let mut admin = false;
    let mut sess: Vec<u64> = Vec::new();
    for e in evs {
        match e {
            Ev::Est { fams, .. } => {
                if maybe_up || admin {
                    return false;
                }
                maybe_up = true;
                sess = fams.clone();
            }
            Ev::Eor(f) => {
                // the End-of-RIB of IPv4 unicast is the empty UPDATE; another family's needs the family
                if !(*f == 0 || !maybe_up || sess.contains(f)) {
                    return false;
                }
            }
            Ev::Ann(..) | Ev::GrTimer | Ev::LlgrTimer(_) => {}
            Ev::Down(r) => {
                if !matches!(r, Reason::Io | Reason::Remote(..) | Reason::Fsm) {
                    return false;
                }
                maybe_up = false;
            }
            Ev::Attempt => {
                if maybe_up {
                    return false;
                }
            }
            Ev::Force => maybe_up = false,
            Ev::Disable => {
                maybe_up = false;
                admin = true;
            }
            Ev::Enable => admin = false,
            Ev::Wait => return false,
        }
    }
    true
}

struct Tcp {
    client: Option<TcpStream>,
    /// families of the live session (the speaker's MP families; the daemon advertises all three)
    fams: Vec<u64>,
    rx: Vec<u8>,
}

const TURNS: usize = 16;

/// let the session task (and whatever it wakes) run until nothing moves any more: counted in scheduler
/// turns of this single-threaded runtime, during which the speaker's socket is drained
async fn quiesce(t: &mut Tcp) {
    let mut quiet = 0;
    let hard = tokio::time::Instant::now() + Duration::from_secs(30);
    while quiet < TURNS && tokio::time::Instant::now() < hard {
        let mut got = false;
        let mut closed = false;
        if let Some(c) = t.client.as_mut() {
            let mut tmp = [0u8; 8192];
            loop {
                match c.try_read(&mut tmp) {
                    Ok(0) => {
                        closed = true;
                        break;
                    }
                    Ok(n) => {
                        t.rx.extend_from_slice(&tmp[..n]);
                        got = true;
                    }
                    Err(e) if e.kind() == std::io::ErrorKind::WouldBlock => break,
                    Err(_) => {
                        closed = true;
                        break;
                    }
                }
            }
        }
        if closed {
            t.client = None;
            got = true;
        }
        if got {
            quiet = 0;
        } else {
            quiet += 1;
        }
        tokio::time::sleep(Duration::from_millis(2)).await;
    }
}

/// message types received so far (and dropped from the buffer)
fn take_types(t: &mut Tcp) -> Vec<u8> {
    let mut out = Vec::new();
    let mut pos = 0;
    while t.rx.len() >= pos + 19 {
        let len = u16::from_be_bytes([t.rx[pos + 16], t.rx[pos + 17]]) as usize;
        if len < 19 || t.rx.len() < pos + len {
            break;
        }
        out.push(t.rx[pos + 18]);
        pos += len;
    }
    t.rx.drain(..pos);
    out
}

async fn connect_once(listener: &tokio::net::TcpListener, from: IpAddr) -> Option<(TcpStream, TcpStream)> {
    let sock = tokio::net::TcpSocket::new_v4().ok()?;
    let _ = sock.set_reuseaddr(true);
    sock.bind(SocketAddr::new(from, 0)).ok()?;
    let laddr = listener.local_addr().ok()?;
    // (the listener is shared: a connection left over from an attempt that timed out is skipped)
    let (c, s) = tokio::time::timeout(Duration::from_secs(20), async {
        let c = sock.connect(laddr).await.ok()?;
        let me = c.local_addr().ok()?;
        loop {
            let (s, from) = listener.accept().await.ok()?;
            if from == me {
                return Some((c, s));
            }
        }
    })
    .await
    .ok()??;
    let _ = c.set_nodelay(true);
    Some((c, s))
}

/// (a busy machine may be out of ports for a moment: try for a while before giving the case up)
async fn connect(listener: &tokio::net::TcpListener, from: IpAddr) -> Option<(TcpStream, TcpStream)> {
    for k in 0..120u64 {
        if let Some(x) = connect_once(listener, from).await {
            return Some(x);
        }
        tokio::time::sleep(Duration::from_millis(200 + 20 * k.min(40))).await;
    }
    None
}

fn shared_listener() -> Option<tokio::net::TcpListener> {
    static L: std::sync::OnceLock<Option<std::net::TcpListener>> = std::sync::OnceLock::new();
    let l = L
        .get_or_init(|| {
            for _ in 0..240 {
                if let Ok(l) = std::net::TcpListener::bind("127.0.0.1:0") {
                    let _ = l.set_nonblocking(true);
                    return Some(l);
                }
                std::thread::sleep(Duration::from_millis(500));
            }
            None
        })
        .as_ref()?;
    tokio::net::TcpListener::from_std(l.try_clone().ok()?).ok()
}

fn session_up(w: &World) -> bool {
    let ctx = w.context.lock().unwrap();
    let arb = ctx.conn_arbiter.lock().unwrap();
    arb.state(crate::fsm::Role::Passive) == crate::fsm::State::Established
        || arb.state(crate::fsm::Role::Active) == crate::fsm::State::Established
}

pub(super) async fn run_tcp(evs: Vec<Ev>) -> String {
    let (tx, _rx) = mpsc::unbounded_channel();
    let (bfd_tx, _bfd_rx) = mpsc::unbounded_channel();
    let mut g = Global::new(tx, bfd_tx);
    g.asn = 65001;
    g.router_id = Ipv4Addr::new(1, 0, 0, 1);
    let addr: IpAddr = "127.0.0.2".parse().unwrap();
    let all: Vec<Family> = (0..MAX_FAM).map(fam_of).collect();
    let restart_secs: u16 = 3600;
    let llgr_secs: u32 = 7200;
    let mut params = peer_params(addr);
    // what the `(glue ...)` stream puts into `local_cap` by hand comes from the peer's configuration here
    params.families = all.iter().map(|f| (*f, 0u8)).collect();
    params.graceful_restart = Some(GrPeerConfig {
        restart_time: 120,
        notification_enabled: true,
        families: all.clone(),
    });
    params.llgr = Some(LlgrPeerConfig {
        families: all.iter().map(|f| (*f, llgr_secs)).collect(),
    });
    g.add_peer(params, None).unwrap();
    let context = Arc::clone(&g.peers.get(&addr).unwrap().context);
    let global: GlobalHandle = Arc::new(tokio::sync::RwLock::new(g));
    let tables: TableHandle = Arc::new(TableManager::new(2));
    let (active_conn_tx, _active_conn_rx) = mpsc::unbounded_channel();
    let svc = grpc::GrpcService::new(
        Arc::new(tokio::sync::Notify::new()),
        active_conn_tx.clone(),
        global.clone(),
        tables.clone(),
    );
    let mut w = World {
        global,
        tables,
        addr,
        context,
        session: None,
        restart_secs,
        llgr_secs,
        svc,
        close_rx: None,
    };
    // one listening socket per harness process, duplicated for this case's runtime (no bind per case)
    let Some(listener) = shared_listener() else {
        return "(tcp-setup-failed listen)".into();
    };
    let mut t = Tcp {
        client: None,
        fams: Vec::new(),
        rx: Vec::new(),
    };
    let mut steps = Vec::new();
    for ev in evs {
        let mut note: Option<&'static str> = None;
        match ev {
            Ev::Est { fams, gr, llgr, lr } => {
                w.global.write().await.selection_deferral = if lr {
                    let mut m: FnvHashMap<IpAddr, Vec<Family>> = FnvHashMap::default();
                    m.insert("10.0.0.99".parse().unwrap(), vec![Family::IPV4]);
                    Some(crate::gr::RestartingDeferral::new(m, None).0)
                } else {
                    None
                };
                match connect(&listener, addr).await {
                    None => return "(tcp-setup-failed connect)".into(),
                    Some((client, server)) => {
                        // the listener arm of `serve`: accept_connection, spawn `run`, keep the join handle
                        match accept_connection(&w.global, &w.tables, server, crate::fsm::Role::Passive).await {
                            None => note = Some("refused"),
                            Some(h) => {
                                let arb = h.conn_arbiter.clone();
                                let jh = tokio::spawn(h.run(w.global.clone(), active_conn_tx.clone()));
                                arb.lock().unwrap().passive_join_handle = Some(jh);
                                t.client = Some(client);
                                t.rx.clear();
                                t.fams = fams.clone();
                                let open = open_frame(&fams, &gr, &llgr, w.restart_secs, w.llgr_secs);
                                let _ = t.client.as_mut().unwrap().write_all(&open).await;
                                quiesce(&mut t).await;
                                if take_types(&mut t).contains(&1) {
                                    if let Some(c) = t.client.as_mut() {
                                        let _ = c.write_all(&frame(4, &[])).await;
                                    }
                                    quiesce(&mut t).await;
                                } else {
                                    note = Some("no-open");
                                }
                            }
                        }
                    }
                }
                w.global.write().await.selection_deferral = None;
            }
            Ev::Ann(f, n, nl, lc) => {
                if t.client.is_some() && session_up(&w) && t.fams.contains(&f) {
                    let _ = t.client.as_mut().unwrap().write_all(&announce_frame(f, n, nl, lc)).await;
                }
            }
            Ev::Eor(f) => {
                if t.client.is_some() && session_up(&w) && (f == 0 || t.fams.contains(&f)) {
                    let _ = t.client.as_mut().unwrap().write_all(&eor_frame(f)).await;
                }
            }
            Ev::Down(r) => {
                if let Some(c) = t.client.as_mut() {
                    match r {
                        Reason::Remote(c0, s0) => {
                            let _ = c.write_all(&frame(3, &[c0, s0])).await;
                        }
                        Reason::Fsm => {
                            let _ = c
                                .write_all(&open_frame(&t.fams, &None, &None, w.restart_secs, w.llgr_secs))
                                .await;
                        }
                        _ => {}
                    }
                    if matches!(r, Reason::Fsm | Reason::Remote(..)) {
                        // the daemon reads the message before it sees the close
                        quiesce(&mut t).await;
                    }
                }
                t.client = None;
            }
            Ev::Attempt => match connect(&listener, addr).await {
                None => return "(tcp-setup-failed connect)".into(),
                Some((client, server)) => {
                    if let Some(h) =
                        accept_connection(&w.global, &w.tables, server, crate::fsm::Role::Passive).await
                    {
                        let arb = h.conn_arbiter.clone();
                        let jh = tokio::spawn(h.run(w.global.clone(), active_conn_tx.clone()));
                        arb.lock().unwrap().passive_join_handle = Some(jh);
                    }
                    drop(client);
                }
            },
            Ev::GrTimer => {
                let armed = gr_armed(&w.context.lock().unwrap());
                if armed {
                    w.context.lock().unwrap().gr_restart_timer.take();
                    gr_restart_timer_expired(w.context.clone(), w.tables.clone(), w.addr, false).await;
                }
            }
            Ev::LlgrTimer(f) => {
                let armed = {
                    let mut ctx = w.context.lock().unwrap();
                    if ctx
                        .llgr_family_timers
                        .get(&fam_of(f))
                        .is_some_and(|tx| !tx.is_closed())
                    {
                        ctx.llgr_family_timers.remove(&fam_of(f));
                        true
                    } else {
                        false
                    }
                };
                if armed {
                    llgr_timer_expired(w.context.clone(), w.tables.clone(), w.addr, fam_of(f)).await;
                }
            }
            Ev::Force => {
                let _ = w
                    .svc
                    .shutdown_peer(tonic::Request::new(api::ShutdownPeerRequest {
                        address: w.addr.to_string(),
                        ..Default::default()
                    }))
                    .await;
            }
            Ev::Disable => {
                let _ = w
                    .svc
                    .disable_peer(tonic::Request::new(api::DisablePeerRequest {
                        address: w.addr.to_string(),
                        ..Default::default()
                    }))
                    .await;
            }
            Ev::Enable => {
                let _ = w
                    .svc
                    .enable_peer(tonic::Request::new(api::EnablePeerRequest {
                        address: w.addr.to_string(),
                        ..Default::default()
                    }))
                    .await;
            }
            Ev::Wait => unreachable!(),
        }
        quiesce(&mut t).await;
        let _ = take_types(&mut t);
        let mut o = observe_up(&w, session_up(&w));
        if let Some(n) = note {
            o = Term::list(vec![o, Term::atom(n)]);
        }
        steps.push(o);
    }
    Term::tag("trace", steps).to_string()
}
