// Helpers shared by the C09 and C01 harness modules (#[path]-included by both, so this file is a
// great-grand-child of `crate::event`): term <-> real types for attributes, next hops, roles,
// sources, export contexts and the export-policy fragment; canonical printing of attributes.
// Syntax: lean/Rbgp/Export/Codec.lean.
#![allow(dead_code)]

use super::super::super::export::PeerExportContext;
use super::super::super::*;

#[path = "/verif/harness/common/sexp.rs"]
pub mod sexp;
pub use sexp::Term;

const U32: u128 = 1 << 32;

pub fn nat32(t: &Term) -> Option<u32> {
    let s = t.as_atom()?;
    if s.is_empty() || !s.bytes().all(|b| b.is_ascii_digit()) || s.len() > 20 {
        return None;
    }
    let n: u128 = s.parse().ok()?;
    if n < U32 { Some(n as u32) } else { None }
}
pub fn nat128(t: &Term) -> Option<u128> {
    let s = t.as_atom()?;
    if s.is_empty() || !s.bytes().all(|b| b.is_ascii_digit()) || s.len() > 39 {
        return None;
    }
    s.parse().ok()
}
pub fn nat_small(t: &Term) -> Option<u64> {
    let s = t.as_atom()?;
    if s.is_empty() || !s.bytes().all(|b| b.is_ascii_digit()) || s.len() > 18 {
        return None;
    }
    s.parse().ok()
}

pub fn role_of(t: &Term) -> Option<PeerRole> {
    Some(match t.as_atom()? {
        "ebgp" => PeerRole::Ebgp,
        "rsc" => PeerRole::RsClient,
        "ibgp" => PeerRole::Ibgp,
        "rrc" => PeerRole::IbgpRrClient,
        "confed" => PeerRole::ConfedEbgp,
        _ => return None,
    })
}

pub fn addr_of(t: &Term) -> Option<IpAddr> {
    if let Some([a]) = t.tagged("v4") {
        return Some(IpAddr::V4(Ipv4Addr::from(nat32(a)?)));
    }
    if let Some([a]) = t.tagged("v6") {
        return Some(IpAddr::V6(Ipv6Addr::from(nat128(a)?)));
    }
    None
}

pub fn nh_of(t: &Term) -> Option<bgp::Nexthop> {
    if let Some([a]) = t.tagged("v4") {
        return Some(bgp::Nexthop::V4(Ipv4Addr::from(nat32(a)?)));
    }
    if let Some([a]) = t.tagged("v6") {
        return Some(bgp::Nexthop::V6(Ipv6Addr::from(nat128(a)?)));
    }
    if let Some([a, l]) = t.tagged("v6ll") {
        return Some(bgp::Nexthop::V6LinkLocal(
            Ipv6Addr::from(nat128(a)?),
            Ipv6Addr::from(nat128(l)?),
        ));
    }
    None
}
pub fn nh_opt_of(t: &Term) -> Option<Option<bgp::Nexthop>> {
    if t.as_atom() == Some("none") {
        return Some(None);
    }
    nh_of(t).map(Some)
}
pub fn nh_t(n: &Option<bgp::Nexthop>) -> Term {
    match n {
        None => Term::atom("none"),
        Some(bgp::Nexthop::V4(a)) => Term::tag("v4", vec![Term::nat(u32::from(*a))]),
        Some(bgp::Nexthop::V6(a)) => Term::tag("v6", vec![Term::nat(u128::from(*a))]),
        Some(bgp::Nexthop::V6LinkLocal(a, l)) => Term::tag(
            "v6ll",
            vec![Term::nat(u128::from(*a)), Term::nat(u128::from(*l))],
        ),
    }
}

pub fn family_of(t: &Term) -> Option<Family> {
    Some(match t.as_atom()? {
        "ipv4" => Family::IPV4,
        "ipv6" => Family::IPV6,
        "fs4" => Family::IPV4_FLOWSPEC,
        _ => return None,
    })
}

pub fn known_code(c: u8) -> bool {
    packet::Attribute::canonical_flags(c).is_some()
}

/// One attribute from its term; the same well-formedness rules as `Attr.wf` in the Lean codec.
pub fn attr_of(t: &Term) -> Option<packet::Attribute> {
    if let Some([c, v]) = t.tagged("val") {
        let c = nat_small(c)?;
        let v = nat32(v)?;
        if !matches!(c, 1 | 4 | 5 | 9) {
            return None;
        }
        return packet::Attribute::new_with_value(c as u8, v);
    }
    if let Some(segs) = t.tagged("aspath") {
        let mut bin = Vec::new();
        for s in segs {
            let l = s.as_list()?;
            let (ty, asns) = l.split_first()?;
            let ty = nat_small(ty)?;
            if !(1..=4).contains(&ty) || asns.len() > 255 {
                return None;
            }
            bin.push(ty as u8);
            bin.push(asns.len() as u8);
            for a in asns {
                bin.extend_from_slice(&nat32(a)?.to_be_bytes());
            }
        }
        return packet::Attribute::new_with_bin(packet::Attribute::AS_PATH, bin);
    }
    if let Some(rest) = t.tagged("words") {
        let (c, ws) = rest.split_first()?;
        let c = nat_small(c)?;
        if !matches!(c, 8 | 10) {
            return None;
        }
        let mut bin = Vec::new();
        for w in ws {
            bin.extend_from_slice(&nat32(w)?.to_be_bytes());
        }
        return packet::Attribute::new_with_bin(c as u8, bin);
    }
    if let Some([c, bs]) = t.tagged("bin") {
        let c = nat_small(c)?;
        if c > 255 || !known_code(c as u8) || matches!(c, 1 | 2 | 4 | 5 | 8 | 9 | 10) {
            return None;
        }
        return packet::Attribute::new_with_bin(c as u8, bs.as_bytes()?);
    }
    if let Some([c, f, bs]) = t.tagged("opq") {
        let c = nat_small(c)?;
        let f = nat_small(f)?;
        if c > 255 || f > 255 || known_code(c as u8) {
            return None;
        }
        return Some(packet::Attribute::new_opaque(c as u8, f as u8, bs.as_bytes()?));
    }
    None
}

pub fn attrs_of(t: &Term) -> Option<Vec<packet::Attribute>> {
    t.tagged("attrs")?.iter().map(attr_of).collect()
}

/// Canonical term of one attribute as it came out of the real code.
pub fn attr_t(a: &packet::Attribute) -> Term {
    let code = a.code();
    if a.is_opaque() {
        return Term::tag(
            "opq",
            vec![
                Term::nat(code),
                Term::nat(a.flags()),
                Term::bytes(a.binary().map(|b| b.as_slice()).unwrap_or(&[])),
            ],
        );
    }
    // known attributes never change flags on the export path: anything else is printed raw
    if packet::Attribute::canonical_flags(code) != Some(a.flags()) {
        return Term::tag(
            "flagged",
            vec![
                Term::nat(code),
                Term::nat(a.flags()),
                match (a.value(), a.binary()) {
                    (Some(v), _) => Term::nat(v),
                    (_, Some(b)) => Term::bytes(b),
                    _ => Term::atom("?"),
                },
            ],
        );
    }
    if let Some(v) = a.value() {
        return Term::tag("val", vec![Term::nat(code), Term::nat(v)]);
    }
    let bin = a.binary().unwrap();
    if code == packet::Attribute::AS_PATH {
        // independent segment walk
        let mut segs = vec![Term::atom("aspath")];
        let mut i = 0usize;
        let mut ok = true;
        while i < bin.len() {
            if i + 2 > bin.len() {
                ok = false;
                break;
            }
            let ty = bin[i];
            let n = bin[i + 1] as usize;
            if i + 2 + 4 * n > bin.len() {
                ok = false;
                break;
            }
            let mut seg = vec![Term::nat(ty)];
            for k in 0..n {
                let o = i + 2 + 4 * k;
                seg.push(Term::nat(u32::from_be_bytes([
                    bin[o],
                    bin[o + 1],
                    bin[o + 2],
                    bin[o + 3],
                ])));
            }
            segs.push(Term::list(seg));
            i += 2 + 4 * n;
        }
        if ok {
            return Term::list(segs);
        }
        return Term::tag("badpath", vec![Term::bytes(bin)]);
    }
    if (code == packet::Attribute::COMMUNITY || code == packet::Attribute::CLUSTER_LIST)
        && bin.len() % 4 == 0
    {
        let mut v = vec![Term::atom("words"), Term::nat(code)];
        for c in bin.chunks(4) {
            v.push(Term::nat(u32::from_be_bytes([c[0], c[1], c[2], c[3]])));
        }
        return Term::list(v);
    }
    Term::tag("bin", vec![Term::nat(code), Term::bytes(bin)])
}

/// `(attrs …)` stably sorted by attribute code (canonical form; the position at which
/// `inject_local_pref_if_absent` inserts into an unsorted vector is std's binary search).
pub fn attrs_t(attrs: &[packet::Attribute]) -> Term {
    let mut v: Vec<&packet::Attribute> = attrs.iter().collect();
    v.sort_by_key(|a| a.code()); // stable
    let mut out = vec![Term::atom("attrs")];
    out.extend(v.into_iter().map(attr_t));
    Term::list(out)
}

pub fn disp_of(t: &Term) -> Option<table::Disposition> {
    Some(match t.as_atom()? {
        "pass" => table::Disposition::Pass,
        "accept" => table::Disposition::Accept,
        "reject" => table::Disposition::Reject,
        _ => return None,
    })
}

pub fn int_of(sign: &Term, n: &Term) -> Option<i64> {
    let v = nat_small(n)? as i64;
    match sign.as_atom()? {
        "+" => Some(v),
        "-" => Some(-v),
        _ => None,
    }
}

/// `none` | `(pol COND NH MED (comm …) DISP DEFAULT)`: one policy holding one statement whose only
/// condition is `any` (none) or `(origin v)`.
pub fn policy_of(t: &Term) -> Option<Option<Arc<table::PolicyAssignment>>> {
    if t.as_atom() == Some("none") {
        return Some(None);
    }
    let [cond, nh, med, comm, d, dflt] = t.tagged("pol")? else {
        return None;
    };
    let conditions = if cond.as_atom() == Some("any") {
        Vec::new()
    } else {
        let [v] = cond.tagged("origin")? else { return None };
        let v = nat_small(v)?;
        if v > 255 {
            return None;
        }
        vec![table::Condition::Origin(v as u8)]
    };
    let nh = match nh {
        Term::Atom(s) if s == "none" => None,
        Term::Atom(s) if s == "self" => Some(table::NexthopAction::PeerSelf),
        Term::Atom(s) if s == "peer" => Some(table::NexthopAction::PeerAddress),
        Term::Atom(s) if s == "unchanged" => Some(table::NexthopAction::Unchanged),
        _ => {
            let [a] = nh.tagged("addr")? else { return None };
            Some(table::NexthopAction::Address(addr_of(a)?))
        }
    };
    let med = if med.as_atom() == Some("none") {
        None
    } else if let Some([s, n]) = med.tagged("set") {
        Some(table::MedAction {
            action_type: table::MedActionType::Replace,
            value: int_of(s, n)?,
        })
    } else if let Some([s, n]) = med.tagged("mod") {
        Some(table::MedAction {
            action_type: table::MedActionType::Mod,
            value: int_of(s, n)?,
        })
    } else {
        return None;
    };
    let comm: Vec<u32> = comm.tagged("comm")?.iter().map(nat32).collect::<Option<_>>()?;
    let d = disp_of(d)?;
    let dflt = disp_of(dflt)?;
    if dflt == table::Disposition::Pass {
        return None;
    }
    let actions = table::Actions {
        nexthop: nh,
        med,
        community: if comm.is_empty() {
            None
        } else {
            Some(table::CommunityAction {
                action_type: table::CommunityActionType::Add,
                communities: comm,
            })
        },
        ..Default::default()
    };
    let stmt = Arc::new(table::Statement {
        name: Arc::from("s"),
        conditions,
        disposition: Some(d),
        actions,
    });
    let pol = Arc::new(table::Policy {
        name: Arc::from("p"),
        statements: vec![stmt],
    });
    Some(Some(Arc::new(table::PolicyAssignment {
        name: Arc::from("a"),
        disposition: dflt,
        policies: vec![pol],
        needs_rpki: false,
    })))
}

pub fn source_of(t: &Term) -> Option<Arc<table::Source>> {
    match t.as_atom() {
        Some("local") => return Some(table::Source::local()),
        Some("kernel") => return Some(table::Source::kernel()),
        Some(_) => return None,
        None => {}
    }
    let [a, rasn, lasn, rid, role, llgr] = t.tagged("peer")? else {
        return None;
    };
    let s = table::Source::new(
        addr_of(a)?,
        IpAddr::V4(Ipv4Addr::new(127, 0, 0, 1)),
        nat32(rasn)?,
        nat32(lasn)?,
        Ipv4Addr::from(nat32(rid)?),
        role_of(role)?,
    );
    if llgr.as_bool()? {
        s.mark_llgr_stale();
    }
    Some(Arc::new(s))
}

pub fn ctx_of(t: &Term) -> Option<PeerExportContext> {
    let [role, lasn, laddr, link, confed] = t.tagged("ctx")? else {
        return None;
    };
    let link_addr = if link.as_atom() == Some("none") {
        None
    } else {
        let [l] = link.tagged("some")? else { return None };
        Some(Ipv6Addr::from(nat128(l)?))
    };
    Some(PeerExportContext {
        role: role_of(role)?,
        local_asn: nat32(lasn)?,
        local_addr: addr_of(laddr)?,
        link_addr,
        confederation_id: nat32(confed)?,
    })
}

pub fn opt32(t: &Term) -> Option<Option<u32>> {
    if t.as_atom() == Some("none") {
        return Some(None);
    }
    let [x] = t.tagged("some")? else { return None };
    Some(Some(nat32(x)?))
}


pub fn make_context() -> Arc<std::sync::Mutex<PeerContext>> {
    let fsm = crate::fsm::PeerFsm::new(
        u32::from(Ipv4Addr::new(1, 0, 0, 1)),
        65001,
        vec![],
        90,
        0,
        FnvHashMap::default(),
    );
    let conn_arbiter = Arc::new(std::sync::Mutex::new(ConnArbiter::new(fsm)));
    Arc::new(std::sync::Mutex::new(PeerContext {
        conn_arbiter,
        active_connect_cancel_tx: None,
        active_connect_join_handle: None,
        gr_state: crate::gr::GrState::new(),
        gr_restart_timer: None,
        llgr_family_timers: FnvHashMap::default(),
        rtc_state: crate::rtc::RtcState::new(),
        rtc_eor_timer: None,
    }))
}


// ---------------------------------------------------------------- independent UPDATE reader
// (RFC 4271 / 4760 / 7911: IPv4 + IPv6 unicast), used by the C01 and C09 harnesses to turn the bytes a
// session wrote into a mirror Adj-RIB-In without calling the decoder under test.
use std::collections::BTreeMap;

pub type Key = (u128, u8, u32); // address, prefix length, path id
pub type Mirror = BTreeMap<Key, (Term, Term)>; // next hop, attributes (canonical terms)

pub const KNOWN: [u8; 20] = [
    1, 2, 3, 4, 5, 6, 7, 8, 9, 10, 14, 15, 16, 17, 18, 23, 26, 29, 32, 40,
];
pub fn canon_flags(code: u8) -> Option<u8> {
    match code {
        1 | 2 | 3 | 5 | 6 => Some(0x40),
        4 | 9 | 10 | 14 | 15 | 26 | 29 => Some(0x80),
        7 | 8 | 16 | 17 | 18 | 23 | 32 | 40 => Some(0xc0),
        _ => None,
    }
}

pub fn be32(b: &[u8]) -> u32 {
    u32::from_be_bytes([b[0], b[1], b[2], b[3]])
}

/// canonical term of one raw attribute (same vocabulary as `xc::attr_t`, computed from wire bytes)
pub fn raw_attr_t(flags: u8, code: u8, v: &[u8]) -> Term {
    let Some(cf) = canon_flags(code) else {
        return Term::tag(
            "opq",
            vec![Term::nat(code), Term::nat(flags), Term::bytes(v)],
        );
    };
    if flags & !0x10 != cf {
        return Term::tag(
            "flagged",
            vec![Term::nat(code), Term::nat(flags), Term::bytes(v)],
        );
    }
    match code {
        1 if v.len() == 1 => Term::tag("val", vec![Term::nat(code), Term::nat(v[0])]),
        4 | 5 | 9 if v.len() == 4 => Term::tag("val", vec![Term::nat(code), Term::nat(be32(v))]),
        2 => {
            let mut segs = vec![Term::atom("aspath")];
            let mut i = 0usize;
            while i < v.len() {
                if i + 2 > v.len() || i + 2 + 4 * (v[i + 1] as usize) > v.len() {
                    return Term::tag("badpath", vec![Term::bytes(v)]);
                }
                let n = v[i + 1] as usize;
                let mut seg = vec![Term::nat(v[i])];
                for k in 0..n {
                    seg.push(Term::nat(be32(&v[i + 2 + 4 * k..])));
                }
                segs.push(Term::list(seg));
                i += 2 + 4 * n;
            }
            Term::list(segs)
        }
        8 | 10 if v.len() % 4 == 0 => {
            let mut w = vec![Term::atom("words"), Term::nat(code)];
            for c in v.chunks(4) {
                w.push(Term::nat(be32(c)));
            }
            Term::list(w)
        }
        _ => Term::tag("bin", vec![Term::nat(code), Term::bytes(v)]),
    }
}

pub fn read_prefixes(
    mut b: &[u8],
    addpath: bool,
    v6: bool,
    out: &mut Vec<Key>,
) -> Result<(), &'static str> {
    while !b.is_empty() {
        let mut pid = 0u32;
        if addpath {
            if b.len() < 4 {
                return Err("short-path-id");
            }
            pid = be32(b);
            b = &b[4..];
        }
        if b.is_empty() {
            return Err("short-prefix");
        }
        let bits = b[0];
        let n = (bits as usize + 7) / 8;
        let max = if v6 { 16 } else { 4 };
        if n > max || b.len() < 1 + n {
            return Err("bad-prefix");
        }
        let mut a = [0u8; 16];
        a[..n].copy_from_slice(&b[1..1 + n]);
        let addr = if v6 {
            u128::from_be_bytes(a)
        } else {
            be32(&a[..4]) as u128
        };
        out.push((addr, bits, pid));
        b = &b[1 + n..];
    }
    Ok(())
}

/// Apply every BGP message in `buf` (one flush) to the mirror; returns the number of frames.
/// A key announced twice with different contents within one flush gets the value `amb`: the two
/// UPDATEs come out of one `drain_messages` in hash-map order, so the survivor is not determined.
/// VPNv4 NLRI (RFC 4364): [path id] length in bits, 3 label bytes, 8 bytes of route distinguisher,
/// the prefix.  Key: 2^127 + rd * 2^32 + address, prefix length.
pub fn read_vpn4(mut b: &[u8], addpath: bool, out: &mut Vec<Key>) -> Result<(), &'static str> {
    while !b.is_empty() {
        let mut pid = 0u32;
        if addpath {
            if b.len() < 4 {
                return Err("short-path-id");
            }
            pid = be32(b);
            b = &b[4..];
        }
        if b.is_empty() {
            return Err("short-prefix");
        }
        let bits = b[0] as usize;
        if bits < 88 || bits > 120 {
            return Err("bad-vpn-prefix");
        }
        let n = (bits + 7) / 8;
        if b.len() < 1 + n {
            return Err("bad-vpn-prefix");
        }
        let rd = u64::from_be_bytes([b[4], b[5], b[6], b[7], b[8], b[9], b[10], b[11]]);
        let mut a = [0u8; 4];
        a[..n - 11].copy_from_slice(&b[12..1 + n]);
        out.push((
            (1u128 << 127) + ((rd as u128) << 32) + be32(&a) as u128,
            (bits - 88) as u8,
            pid,
        ));
        b = &b[1 + n..];
    }
    Ok(())
}

pub fn apply_bytes(buf: &[u8], addpath: bool, m: &mut Mirror) -> Result<usize, &'static str> {
    let mut written: BTreeMap<Key, (Term, Term)> = BTreeMap::new();
    let mut pos = 0usize;
    let mut frames = 0usize;
    while pos < buf.len() {
        if buf.len() - pos < 19 {
            return Err("short-header");
        }
        if buf[pos..pos + 16].iter().any(|b| *b != 0xff) {
            return Err("bad-marker");
        }
        let l = u16::from_be_bytes([buf[pos + 16], buf[pos + 17]]) as usize;
        if l < 19 || l > 4096 || pos + l > buf.len() {
            return Err("bad-length");
        }
        let ty = buf[pos + 18];
        let body = &buf[pos + 19..pos + l];
        pos += l;
        frames += 1;
        if ty != 2 {
            continue;
        }
        if body.len() < 4 {
            return Err("short-update");
        }
        let wl = u16::from_be_bytes([body[0], body[1]]) as usize;
        if body.len() < 2 + wl + 2 {
            return Err("bad-withdrawn-length");
        }
        let al = u16::from_be_bytes([body[2 + wl], body[3 + wl]]) as usize;
        if body.len() < 4 + wl + al {
            return Err("bad-attr-length");
        }
        if wl == 0 && al == 0 && body.len() == 4 {
            // End-of-RIB: what was buffered before it (the initial dump) is ordered before
            // everything after it
            written.clear();
            continue;
        }
        let mut gone: Vec<Key> = Vec::new();
        read_prefixes(&body[2..2 + wl], addpath, false, &mut gone)?;
        let mut reach: Vec<Key> = Vec::new();
        read_prefixes(&body[4 + wl + al..], addpath, false, &mut reach)?;
        let mut nh = Term::atom("none");
        let mut attrs: Vec<(u8, Term)> = Vec::new();
        let mut v6_eor = false;
        let mut a = &body[4 + wl..4 + wl + al];
        while !a.is_empty() {
            if a.len() < 3 {
                return Err("short-attr");
            }
            let (flags, code) = (a[0], a[1]);
            let (len, hdr) = if flags & 0x10 != 0 {
                if a.len() < 4 {
                    return Err("short-attr");
                }
                (u16::from_be_bytes([a[2], a[3]]) as usize, 4)
            } else {
                (a[2] as usize, 3)
            };
            if a.len() < hdr + len {
                return Err("attr-overrun");
            }
            let v = &a[hdr..hdr + len];
            a = &a[hdr + len..];
            match code {
                3 => {
                    if v.len() != 4 {
                        return Err("bad-nexthop");
                    }
                    nh = Term::tag("v4", vec![Term::nat(be32(v))]);
                }
                14 if v.len() >= 5 && (v[0], v[1], v[2]) == (0, 1, 128) => {
                    let nl = v[3] as usize;
                    if nl != 12 || v.len() < 5 + nl {
                        return Err("mp-reach-vpn-nexthop");
                    }
                    nh = Term::tag("v4", vec![Term::nat(be32(&v[4 + 8..4 + 12]))]);
                    read_vpn4(&v[5 + nl..], addpath, &mut reach)?;
                }
                15 if v.len() == 3 && (v[0], v[1], v[2]) == (0, 1, 132) => {
                    // End-of-RIB of the RTC family (nothing else of that family is expected)
                    v6_eor = true;
                }
                15 if v.len() >= 3 && (v[0], v[1], v[2]) == (0, 1, 128) => {
                    if v.len() == 3 && al == hdr + len && wl == 0 && body.len() == 4 + al {
                        v6_eor = true; // End-of-RIB of the VPNv4 family
                    }
                    read_vpn4(&v[3..], addpath, &mut gone)?;
                }
                14 => {
                    if v.len() < 5 || (v[0], v[1], v[2]) != (0, 2, 1) {
                        return Err("mp-reach-family");
                    }
                    let nl = v[3] as usize;
                    if v.len() < 5 + nl {
                        return Err("mp-reach-short");
                    }
                    let n = &v[4..4 + nl];
                    let to128 = |b: &[u8]| {
                        let mut x = [0u8; 16];
                        x.copy_from_slice(b);
                        u128::from_be_bytes(x)
                    };
                    nh = match nl {
                        16 => Term::tag("v6", vec![Term::nat(to128(n))]),
                        32 => Term::tag(
                            "v6ll",
                            vec![Term::nat(to128(&n[..16])), Term::nat(to128(&n[16..]))],
                        ),
                        _ => return Err("mp-reach-nexthop"),
                    };
                    read_prefixes(&v[5 + nl..], addpath, true, &mut reach)?;
                }
                15 => {
                    if v.len() < 3 || (v[0], v[1], v[2]) != (0, 2, 1) {
                        return Err("mp-unreach-family");
                    }
                    if v.len() == 3 && al == hdr + len && wl == 0 && body.len() == 4 + al {
                        // End-of-RIB of the IPv6 family (RFC 4724): MP_UNREACH_NLRI without prefixes
                        v6_eor = true;
                    }
                    read_prefixes(&v[3..], addpath, true, &mut gone)?;
                }
                _ => attrs.push((code, raw_attr_t(flags, code, v))),
            }
        }
        if v6_eor {
            written.clear();
            continue;
        }
        for k in gone {
            m.remove(&k);
        }
        if !reach.is_empty() {
            attrs.sort_by_key(|x| x.0); // stable
            let mut at = vec![Term::atom("attrs")];
            at.extend(attrs.into_iter().map(|x| x.1));
            let at = Term::list(at);
            for k in reach {
                let v = (nh.clone(), at.clone());
                match written.get(&k) {
                    Some(w) if *w != v => {
                        m.insert(k, (Term::atom("amb"), Term::atom("amb")));
                    }
                    _ => {
                        written.insert(k, v.clone());
                        m.insert(k, v);
                    }
                }
            }
        }
    }
    Ok(frames)
}

