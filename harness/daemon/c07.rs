// Verification harness for C07 (connection FSM, collision resolution), compiled into rustybgpd's
// unit-test binary only with `--cfg osrg_rustybgp_verif` and `--cfg verif_c07` (or verif_all).
// Grand-child of `crate::event`, so it reaches the private `PeerSession`/`ConnArbiter` internals.
//
// One entry point serves both kinds of C07 case lines:
//
//   (case (cfg ..) (evs ..))   FSM histories: `run_case_c07` of the FSM harness (harness/daemon/fsm.rs,
//                              re-included below as `fsm_ctx::h`; real `PeerFsm::process`, real wire
//                              parser for raw OPENs, every output and both states compared).
//   (wire (cfg ..) (evs ..))   driver level: the rig (harness/daemon/rig.rs) runs the REAL
//                              accept_connection / ConnArbiter::process (with its real oneshot close
//                              channels) / run_select / apply_outputs / finish_session /
//                              apply_disconnect on loopback TCP connections and reports, per action,
//                              the frames each remote speaker received (OPEN, KEEPALIVE, NOTIFICATION
//                              code/subcode, EOF) and both FSM slot states.  So the collision CEASE is
//                              observed where the loser's peer gets it, a parse-rejected OPEN goes through
//                              run_select's Terminate and apply_disconnect's fallback
//                              `process(role, Disconnected)`, and a second connection of a role is refused
//                              by accept_connection.  Model side: Rbgp/Fsm/Wire.lean; oracle:
//                              Rbgp/Fsm/WireSpec.lean.
#![allow(dead_code)]

use super::super::*;

#[path = "/verif/harness/common/sexp.rs"]
mod sexp;
use sexp::Term;

#[path = "/verif/harness/daemon/rig.rs"]
mod rig;

/// Name space the FSM harness expects from its `use super::*` (it is written as a child of
/// `crate::fsm`): the `pub(crate)` items of `crate::fsm` plus that file's own imports.
mod fsm_ctx {
    pub(crate) use crate::fsm::*;
    pub(crate) use fnv::FnvHashMap;
    pub(crate) use rustybgp_packet::bgp::{self, Capability, Family, HoldTime};
    #[path = "/verif/harness/daemon/fsm.rs"]
    pub(crate) mod h;
}

fn run_line(rt: &tokio::runtime::Runtime, line: &str) -> String {
    let Some(t) = Term::parse(line) else {
        return "(bad-case)".into();
    };
    if t.as_list().is_some() && t.head() == Some("wire") {
        return rt.block_on(rig::run_wire(&t, false));
    }
    fsm_ctx::h::run_case_c07(line)
}

#[test]
fn verif_main() {
    let (Ok(prop), Ok(inp), Ok(out)) = (
        std::env::var("VERIF_PROP"),
        std::env::var("VERIF_IN"),
        std::env::var("VERIF_OUT"),
    ) else {
        return; // not invoked by /verif/check
    };
    if prop != "C07" {
        return;
    }
    let rt = tokio::runtime::Builder::new_current_thread()
        .enable_all()
        .start_paused(true) // virtual time: see rig.rs (`wait`), and the probes below need no real waiting
        .build()
        .unwrap();
    // only the first panic of a process is reported (stderr): see c08.rs
    static FIRST_PANIC: std::sync::atomic::AtomicBool = std::sync::atomic::AtomicBool::new(true);
    std::panic::set_hook(Box::new(|info| {
        if FIRST_PANIC.swap(false, std::sync::atomic::Ordering::SeqCst) {
            eprintln!("C07 harness: first panic of this process: {}", info);
        }
    }));
    sexp::run_lines(&inp, &out, |l| {
        std::panic::catch_unwind(std::panic::AssertUnwindSafe(|| run_line(&rt, l)))
            .unwrap_or_else(|_| "(panic)".into())
    });
}
