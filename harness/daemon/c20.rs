// Verification harness for C20 (kernel FIB requests and next-hop tracking stay in
// step with the RIB).  Compiled into rustybgpd's unit-test binary only with
// `--cfg osrg_rustybgp_verif --cfg verif_c20|verif_all`; child module of
// `crate::event::verif_event`.
//
// A case (lean/Rbgp/Fib/Codec.lean syntax) is a history of route insert / replace /
// remove / peer drop (both entry points) / GR stale + purge / LLGR stale + purge / soft
// reset IN / import-policy change / next-hop reachability report / end of deferral.  It is
// run against a real `TableManager` (2 shards) with a `KernelHandle` installed whose request
// stream is read back through the cfg-guarded hook `rustybgp_kernel::verif`.  One
// observation line per case:
//   (trace (step (fib (<table> <fam> <id> (<nh>...))...) (nht (r <a>)|(u <a>)...)
//                (rib (d <fam> <id> (p <src> <pid> <nh> <flt> <stale> <llgr> <lp> <asl> <org> <eb> <cl> <rid> (<rt>...))...)...))...
//          (order ok|underflow) [(feed (<addr> <count>)...)])
// `order`: replaying the register/unregister requests of the whole run in the order sent, no
// unregister met an address without outstanding registration.
// With `(feed t)` every register/unregister request of the run is afterwards sent, in the
// order the TableManager sent it, to the real `run_service_loop`, whose final count per
// address is measured.  `(svc ...)` cases drive the real `run_service_loop` with
// register/unregister requests and injected route events and observe the emissions.
#![allow(dead_code)]

use std::net::{IpAddr, Ipv4Addr, Ipv6Addr};
use std::sync::Arc;

use rustybgp_kernel as kernel;
use rustybgp_packet::{self as packet, Family, bgp};
use rustybgp_table as table;

use crate::table_manager::TableManager;

#[path = "/verif/harness/common/sexp.rs"]
mod sexp;
use sexp::Term;

// real session tasks on loopback TCP connections (shared with the C07/C08 harnesses)
#[path = "/verif/harness/daemon/rig.rs"]
mod rig;

const SRC_LOCAL: u64 = 100;
const SRC_KERNEL: u64 = 101;
const FAMS: [Family; 4] = [Family::IPV4, Family::IPV6, Family::IPV4_VPN, Family::IPV6_VPN];
const LLGR_STALE: u32 = 0xffff_0006;
const NO_LLGR: u32 = 0xffff_0007;

// ---------------------------------------------------------------- encodings
fn addr_of(a: u64) -> Option<IpAddr> {
    if a < 100 {
        Some(IpAddr::V4(Ipv4Addr::new(192, 0, 2, a as u8)))
    } else if a < 200 {
        Some(IpAddr::V6(Ipv6Addr::new(0x2001, 0xdb8, 0xffff, 0, 0, 0, 0, (a - 100) as u16)))
    } else {
        None
    }
}
fn addr_id(a: &IpAddr) -> u64 {
    for i in 0..200 {
        if addr_of(i).as_ref() == Some(a) {
            return i;
        }
    }
    999
}
fn nexthop_of(a: u64, ll: bool) -> Option<bgp::Nexthop> {
    Some(match addr_of(a)? {
        IpAddr::V4(v) => {
            if ll {
                return None;
            }
            bgp::Nexthop::V4(v)
        }
        IpAddr::V6(v) => {
            if ll {
                bgp::Nexthop::V6LinkLocal(v, Ipv6Addr::new(0xfe80, 0, 0, 0, 0, 0, 0, 1))
            } else {
                bgp::Nexthop::V6(v)
            }
        }
    })
}
fn family_of(f: u64) -> Option<Family> {
    match f {
        0 => Some(Family::IPV4),
        1 => Some(Family::IPV6),
        2 => Some(Family::IPV4_VPN),
        3 => Some(Family::IPV6_VPN),
        _ => None,
    }
}
fn nlri_of(f: u64, id: u64) -> Option<packet::Nlri> {
    if id > 250 {
        return None;
    }
    let v4 = bgp::Ipv4Net { addr: Ipv4Addr::new(10, id as u8, 0, 0), mask: 16 };
    let v6 = bgp::Ipv6Net { addr: Ipv6Addr::new(0x2001, 0xdb8, id as u16, 0, 0, 0, 0, 0), mask: 48 };
    let labels = packet::mpls::MplsLabelStack::new(vec![packet::mpls::MplsLabel::new(100 + id as u32)]);
    match f {
        0 => Some(packet::Nlri::V4(v4)),
        1 => Some(packet::Nlri::V6(v6)),
        2 => Some(packet::Nlri::VpnV4(packet::vpn::VpnV4Nlri {
            labels,
            rd: packet::rd::RouteDistinguisher::TwoOctetAs { admin: 65000, assigned: id as u32 + 1 },
            prefix: v4,
        })),
        3 => Some(packet::Nlri::VpnV6(packet::vpn::VpnV6Nlri {
            labels,
            rd: packet::rd::RouteDistinguisher::FourOctetAs { admin: 4200000000, assigned: id as u16 + 1 },
            prefix: v6,
        })),
        _ => None,
    }
}
/// (family tag, index) of an NLRI; (9, 0) unless it is exactly one the harness builds.
fn nlri_id(n: &packet::Nlri) -> (u64, u64) {
    let (f, id) = match n {
        packet::Nlri::V4(n) => (0, n.addr.octets()[1] as u64),
        packet::Nlri::V6(n) => (1, n.addr.segments()[2] as u64),
        packet::Nlri::VpnV4(n) => (2, n.prefix.addr.octets()[1] as u64),
        packet::Nlri::VpnV6(n) => (3, n.prefix.addr.segments()[2] as u64),
        _ => return (9, 0),
    };
    if nlri_of(f, id).as_ref() == Some(n) { (f, id) } else { (9, 0) }
}
/// Route target `r`: the three RT formats in turn, so that type and high-order bytes matter.
fn rt_bytes(r: u64) -> [u8; 8] {
    let (hi, lo) = ((r >> 8) as u8, r as u8);
    match r % 3 {
        0 => [0x00, 0x02, 0xfd, 0xe8, 0, 0, hi, lo],
        1 => [0x02, 0x02, 0xfa, 0x56, 0xea, 0x00, hi, lo],
        _ => [0x01, 0x02, 192, 0, 2, 1, hi, lo],
    }
}
fn rt_id(b: &[u8]) -> u64 {
    let r = ((b[6] as u64) << 8) | b[7] as u64;
    if rt_bytes(r) == b { r } else { 9999 }
}
fn peer_addr(k: u64) -> IpAddr {
    IpAddr::V4(Ipv4Addr::new(10, 0, 0, (k + 1) as u8))
}

struct Attrs {
    lp: u64,
    cl: u64,
    rts: Vec<u64>,
    asl: u64,
    org: u64,
    lc: bool,
    nollgr: bool,
    /// LOCAL_PREF attribute present although the value is the default 100
    lp_explicit: bool,
    /// ORIGIN attribute absent when the value is the default INCOMPLETE (2)
    org_absent: bool,
    /// AS_PATH attribute present but empty when the length is 0
    aspath_empty: bool,
    /// an extended community that is not a route target precedes the route targets
    extra_ec: bool,
}

fn build_attrs(a: &Attrs) -> Arc<Vec<packet::Attribute>> {
    let mut v = Vec::new();
    if !(a.org_absent && a.org == 2) {
        v.push(packet::Attribute::new_with_value(packet::Attribute::ORIGIN, a.org as u32).unwrap());
    }
    if a.asl == 0 && a.aspath_empty {
        v.push(packet::Attribute::empty_as_path());
    }
    if a.asl > 0 {
        let mut b = vec![packet::Attribute::AS_PATH_TYPE_SEQ, a.asl as u8];
        for i in 0..a.asl {
            b.extend_from_slice(&(64500 + i as u32).to_be_bytes());
        }
        v.push(packet::Attribute::new_with_bin(packet::Attribute::AS_PATH, b).unwrap());
    }
    if a.lp != 100 || a.lp_explicit {
        v.push(packet::Attribute::new_with_value(packet::Attribute::LOCAL_PREF, a.lp as u32).unwrap());
    }
    if a.lc || a.nollgr {
        let mut b = Vec::new();
        b.extend_from_slice(&0xfde8_0001u32.to_be_bytes());
        if a.lc {
            b.extend_from_slice(&LLGR_STALE.to_be_bytes());
        }
        if a.nollgr {
            b.extend_from_slice(&NO_LLGR.to_be_bytes());
        }
        v.push(packet::Attribute::new_with_bin(packet::Attribute::COMMUNITY, b).unwrap());
    }
    if a.cl > 0 {
        let mut b = Vec::new();
        for i in 0..a.cl {
            b.extend_from_slice(&[1, 1, 1, i as u8 + 1]);
        }
        v.push(packet::Attribute::new_with_bin(packet::Attribute::CLUSTER_LIST, b).unwrap());
    }
    if !a.rts.is_empty() || a.extra_ec {
        let mut b = Vec::new();
        if a.extra_ec {
            // link bandwidth (non-transitive two-octet AS specific, sub-type 4): never a route target
            b.extend_from_slice(&[0x40, 0x04, 0xfd, 0xe8, 0, 0, 0, 1]);
        }
        for r in &a.rts {
            b.extend_from_slice(&rt_bytes(*r));
        }
        v.push(packet::Attribute::new_with_bin(packet::Attribute::EXTENDED_COMMUNITY, b).unwrap());
    }
    Arc::new(v)
}

fn has_community(attrs: &[packet::Attribute], c: u32) -> bool {
    attrs
        .iter()
        .find(|a| a.code() == packet::Attribute::COMMUNITY)
        .and_then(|a| a.binary())
        .is_some_and(|b| b.chunks_exact(4).any(|x| u32::from_be_bytes([x[0], x[1], x[2], x[3]]) == c))
}

// ---------------------------------------------------------------- case
struct Rule {
    cond: Cond,
    act: Act,
}
enum Cond {
    Any,
    Peer(u64),
    Nh(u64),
}
enum Act {
    Set(u64),
    Rej,
    Acc,
}

fn nats(ts: &[Term]) -> Option<Vec<u64>> {
    ts.iter().map(|t| t.as_u64()).collect()
}

fn parse_rule(t: &Term) -> Option<Rule> {
    let [c, a] = t.tagged("rule")? else { return None };
    let cond = match c.head()? {
        "any" if c.as_atom().is_some() => Cond::Any,
        "peer" => match c.tagged("peer")? {
            [k] => Cond::Peer(k.as_u64().filter(|k| *k < 8)?),
            _ => return None,
        },
        "nh" => match c.tagged("nh")? {
            [a] => Cond::Nh(a.as_u64()?),
            _ => return None,
        },
        _ => return None,
    };
    let act = match a.head()? {
        "rej" if a.as_atom().is_some() => Act::Rej,
        "acc" if a.as_atom().is_some() => Act::Acc,
        "set" => match a.tagged("set")? {
            [x] => Act::Set(x.as_u64()?),
            _ => return None,
        },
        _ => return None,
    };
    Some(Rule { cond, act })
}

fn build_policy(rules: &[Rule]) -> Option<Arc<table::PolicyAssignment>> {
    let mut stmts = Vec::new();
    for (i, r) in rules.iter().enumerate() {
        let conditions = match r.cond {
            Cond::Any => vec![],
            Cond::Peer(k) => vec![table::Condition::Neighbor(
                "n".to_string(),
                table::MatchOption::Any,
                Arc::new(table::NeighborSet { sets: vec![packet::IpNet::new(peer_addr(k), 32)] }),
            )],
            Cond::Nh(a) => vec![table::Condition::Nexthop(vec![addr_of(a)?])],
        };
        let (disposition, nexthop) = match r.act {
            Act::Set(a) => (table::Disposition::Accept, Some(table::NexthopAction::Address(addr_of(a)?))),
            Act::Rej => (table::Disposition::Reject, None),
            Act::Acc => (table::Disposition::Accept, None),
        };
        stmts.push(Arc::new(table::Statement {
            name: Arc::from(format!("s{i}")),
            conditions,
            disposition: Some(disposition),
            actions: table::Actions { nexthop, ..Default::default() },
        }));
    }
    Some(Arc::new(table::PolicyAssignment {
        name: Arc::from("verif"),
        disposition: table::Disposition::Accept,
        policies: vec![Arc::new(table::Policy { name: Arc::from("p"), statements: stmts })],
        needs_rpki: false,
    }))
}

struct World {
    tables: Arc<TableManager>,
    rx: kernel::verif::RequestReceiver,
    peers: Vec<(u32, u64)>,
    cur: Vec<Arc<table::Source>>,
    /// every register (true) / unregister (false) request in the order sent
    sent: Vec<(bool, u64)>,
    outstanding: std::collections::HashMap<u64, u64>,
    underflow: bool,
}

impl World {
    fn new_source(k: usize, peer: (u32, u64)) -> Arc<table::Source> {
        let (role, asn) = match peer.1 {
            0 => (table::PeerRole::Ebgp, 65010 + k as u32),
            1 => (table::PeerRole::Ibgp, 65001),
            _ => (table::PeerRole::IbgpRrClient, 65001),
        };
        Arc::new(table::Source::new(
            peer_addr(k as u64),
            IpAddr::V4(Ipv4Addr::new(10, 0, 0, 254)),
            asn,
            65001,
            Ipv4Addr::from(peer.0),
            role,
        ))
    }

    fn drain(&mut self) -> (Vec<(u64, u64, u64, Vec<u64>)>, Vec<(u64, u64)>) {
        let mut fib = Vec::new();
        let mut nht = Vec::new();
        while let Some(r) = self.rx.try_recv() {
            match r {
                kernel::verif::RequestMirror::Apply(c) => {
                    let (f, id) = nlri_id(&c.net);
                    // main table = 0; an explicit table id 0 must not be confused with it
                    let t = match c.table_id {
                        None => 0,
                        Some(0) => 4294967296,
                        Some(t) => t as u64,
                    };
                    fib.push((t, f, id, c.nexthops.iter().map(|n| addr_id(&n.addr())).collect()));
                }
                kernel::verif::RequestMirror::RegisterNexthop(a) => {
                    nht.push((addr_id(&a), 0));
                    self.sent.push((true, addr_id(&a)));
                    *self.outstanding.entry(addr_id(&a)).or_insert(0) += 1;
                }
                kernel::verif::RequestMirror::UnregisterNexthop(a) => {
                    nht.push((addr_id(&a), 1));
                    self.sent.push((false, addr_id(&a)));
                    // in the order sent: an unregister for an address nothing is outstanding for
                    let c = self.outstanding.entry(addr_id(&a)).or_insert(0);
                    if *c == 0 {
                        self.underflow = true;
                    } else {
                        *c -= 1;
                    }
                }
                kernel::verif::RequestMirror::CreateVrf { .. } | kernel::verif::RequestMirror::DeleteVrf { .. } => {}
            }
        }
        // canonical order (hash-map iteration order of shards/destinations/VRFs is not modelled):
        // FIB requests stably by (table, prefix); tracking requests: registers (by address) before
        // unregisters (by address).  The order in which the requests of different destinations
        // reach the channel depends on hash-map iteration; the sent order is judged by `underflow`
        // (below) and, in feed cases, by the real service loop.
        fib.sort_by(|a, b| (a.0, a.1, a.2).cmp(&(b.0, b.1, b.2)));
        nht.sort_by(|a, b| (a.1, a.0).cmp(&(b.1, b.0)));
        (fib, nht)
    }

    fn snapshot(&self) -> Term {
        let mut dests: Vec<((u64, u64), Term)> = Vec::new();
        for fam in FAMS {
            for shard in &self.tables.shards {
                let t = shard.lock().unwrap();
                for d in t.rtable.destinations(table::TableQuery::Global, fam, vec![], true) {
                    let (f, id) = nlri_id(&d.net);
                    let mut ps = vec![Term::atom("d"), Term::nat(f), Term::nat(id)];
                    for p in &d.paths {
                        let src = if p.source.is_local() {
                            SRC_LOCAL
                        } else if p.source.is_kernel() {
                            SRC_KERNEL
                        } else {
                            match p.source.remote_addr {
                                IpAddr::V4(v) => v.octets()[3] as u64 - 1,
                                _ => 999,
                            }
                        };
                        let nh = t
                            .rtable
                            .lookup_nexthop(p.source.remote_addr, fam, &d.net, p.remote_path_id)
                            .map(|n| addr_id(&n.addr()))
                            .unwrap_or(998);
                        let find = |code: u8| p.attr.iter().find(|a| a.code() == code);
                        let lp = find(packet::Attribute::LOCAL_PREF).and_then(|a| a.value()).unwrap_or(100);
                        let org = find(packet::Attribute::ORIGIN).and_then(|a| a.value()).unwrap_or(2);
                        let asl = find(packet::Attribute::AS_PATH).map(|a| a.as_path_length()).unwrap_or(0);
                        let cl = find(packet::Attribute::CLUSTER_LIST)
                            .and_then(|a| a.binary())
                            .map(|b| b.len() / 4)
                            .unwrap_or(0);
                        let llgr = p.source.is_llgr_stale() || has_community(&p.attr, LLGR_STALE);
                        let mut rts = Vec::new();
                        for a in p.attr.iter() {
                            if a.code() == packet::Attribute::EXTENDED_COMMUNITY
                                && let Some(b) = a.binary()
                            {
                                for c in b.chunks_exact(8) {
                                    if c[0] == 0x40 {
                                        continue; // the non-RT extended community of `extra_ec`
                                    }
                                    rts.push(Term::nat(rt_id(c)));
                                }
                            }
                        }
                        let eb = matches!(p.source.role, table::PeerRole::Ebgp | table::PeerRole::RsClient);
                        ps.push(Term::tag(
                            "p",
                            vec![
                                Term::nat(src),
                                Term::nat(p.remote_path_id),
                                Term::nat(nh),
                                Term::boolean(p.filtered),
                                Term::boolean(p.stale),
                                Term::boolean(llgr),
                                Term::nat(lp),
                                Term::nat(asl as u64),
                                Term::nat(org),
                                Term::boolean(eb),
                                Term::nat(cl as u64),
                                Term::nat(p.source.router_id),
                                Term::list(rts),
                            ],
                        ));
                    }
                    dests.push(((f, id), Term::list(ps)));
                }
            }
        }
        dests.sort_by(|a, b| a.0.cmp(&b.0));
        Term::tag("rib", dests.into_iter().map(|d| d.1).collect())
    }

    fn source_for(&self, src: u64) -> Option<Arc<table::Source>> {
        if src == SRC_LOCAL {
            Some(table::Source::local())
        } else if src == SRC_KERNEL {
            Some(table::Source::kernel())
        } else {
            self.cur.get(src as usize).cloned()
        }
    }

    fn peer_arg(&self, t: &Term, name: &str) -> Option<usize> {
        let [k] = t.tagged(name)? else { return None };
        let k = k.as_u64()? as usize;
        if k >= self.cur.len() { None } else { Some(k) }
    }

    fn renew(&mut self, k: usize) {
        self.cur[k] = World::new_source(k, self.peers[k]);
    }

    /// Returns None for an ill-formed op.
    fn op(&mut self, t: &Term) -> Option<()> {
        match t.head()? {
            "ins" | "insl" => {
                let limited = t.head()? == "insl";
                let [src, f, id, pid, nh, lp, cl, rts, asl, org, fl] = t.tagged(t.head()?)? else { return None };
                let (src, f, id, pid, nh) = (src.as_u64()?, f.as_u64()?, id.as_u64()?, pid.as_u64()?, nh.as_u64()?);
                let fl = fl.as_u64()?;
                let a = Attrs {
                    lp: lp.as_u64()?,
                    cl: cl.as_u64()?,
                    rts: nats(rts.as_list()?)?,
                    asl: asl.as_u64()?,
                    org: org.as_u64()?,
                    lc: fl & 1 != 0,
                    nollgr: fl & 2 != 0,
                    lp_explicit: fl & 8 != 0,
                    org_absent: fl & 16 != 0,
                    aspath_empty: fl & 32 != 0,
                    extra_ec: fl & 64 != 0,
                };
                let ll = fl & 4 != 0;
                if fl >= 128 || a.lp > u32::MAX as u64 || a.cl > 3 || pid > u32::MAX as u64 || a.asl > 3 || a.org > 2
                    || a.rts.iter().any(|r| *r > 1000) || (ll && nh < 100) || (limited && src >= 100)
                {
                    return None;
                }
                let source = self.source_for(src)?;
                let fam = family_of(f)?;
                let net = packet::PathNlri { nlri: nlri_of(f, id)?, path_id: pid as u32 };
                // `insl`: the session's prefix limit (0 prefixes) is already reached
                let limit = if limited {
                    Some((0u32, Arc::new(std::sync::atomic::AtomicU64::new(0))))
                } else {
                    None
                };
                self.tables.insert_route(source, fam, net, Some(nexthop_of(nh, ll)?), build_attrs(&a), limit, 0);
            }
            "rm" => {
                let [src, f, id, pid] = t.tagged("rm")? else { return None };
                let (src, f, id, pid) = (src.as_u64()?, f.as_u64()?, id.as_u64()?, pid.as_u64()?);
                if pid > u32::MAX as u64 {
                    return None;
                }
                let source = self.source_for(src)?;
                let fam = family_of(f)?;
                let net = packet::PathNlri { nlri: nlri_of(f, id)?, path_id: pid as u32 };
                self.tables.remove_route(source, fam, net, None, 0);
            }
            "down" => {
                let k = self.peer_arg(t, "down")?;
                self.tables.unregister_peer(peer_addr(k as u64), &FAMS, &[]);
                self.renew(k);
            }
            "drop" => {
                let k = self.peer_arg(t, "drop")?;
                self.tables.drop_families(peer_addr(k as u64), &FAMS);
            }
            "stale" => {
                let k = self.peer_arg(t, "stale")?;
                self.tables.unregister_peer(peer_addr(k as u64), &[], &FAMS);
                self.renew(k);
            }
            "gdown" => {
                // session down with graceful restart negotiated for the families of the mask only
                let [k, m] = t.tagged("gdown")? else { return None };
                let (k, m) = (k.as_u64()? as usize, m.as_u64()?);
                if k >= self.cur.len() || m >= 16 {
                    return None;
                }
                let stale: Vec<Family> = (0..4).filter(|f| m >> f & 1 == 1).filter_map(family_of).collect();
                let drop: Vec<Family> = (0..4).filter(|f| m >> f & 1 == 0).filter_map(family_of).collect();
                self.tables.unregister_peer(peer_addr(k as u64), &drop, &stale);
                self.renew(k);
            }
            "purgef" => {
                let [k, f] = t.tagged("purgef")? else { return None };
                let k = k.as_u64()? as usize;
                if k >= self.cur.len() {
                    return None;
                }
                self.tables.drop_stale_families(peer_addr(k as u64), &[family_of(f.as_u64()?)?]);
            }
            "purge" => {
                let k = self.peer_arg(t, "purge")?;
                self.tables.drop_stale_families(peer_addr(k as u64), &FAMS);
            }
            "llgr" => {
                let k = self.peer_arg(t, "llgr")?;
                self.tables.mark_llgr_stale(peer_addr(k as u64), &FAMS);
                self.renew(k);
            }
            "lpurge" => {
                let k = self.peer_arg(t, "lpurge")?;
                self.tables.drop_llgr_stale_families(peer_addr(k as u64), &FAMS);
            }
            "soft" => {
                let k = self.peer_arg(t, "soft")?;
                self.tables.soft_reset_in(peer_addr(k as u64));
            }
            "pol" => {
                let rules: Option<Vec<Rule>> = t.tagged("pol")?.iter().map(parse_rule).collect();
                let rules = rules?;
                if rules.is_empty() {
                    self.tables.import_policy.store(None);
                } else {
                    self.tables.import_policy.store(Some(build_policy(&rules)?));
                }
            }
            "nh" => {
                let [a, r] = t.tagged("nh")? else { return None };
                self.tables.update_nexthop_validity(addr_of(a.as_u64()?)?, r.as_bool()?);
            }
            "undefer" => {
                let [f] = t.tagged("undefer")? else { return None };
                self.tables.end_deferral_families(&[family_of(f.as_u64()?)?]);
            }
            _ => return None,
        }
        Some(())
    }
}

fn vrfs_distinct(tids: &[u64]) -> bool {
    tids.iter().enumerate().all(|(i, t)| *t == 0 || !tids[i + 1..].contains(t))
}

fn step_term(w: &mut World) -> Term {
    let (fib, nht) = w.drain();
    Term::tag(
        "step",
        vec![
            Term::tag(
                "fib",
                fib.into_iter()
                    .map(|(t, f, id, nhs)| {
                        Term::list(vec![
                            Term::nat(t),
                            Term::nat(f),
                            Term::nat(id),
                            Term::list(nhs.into_iter().map(Term::nat).collect()),
                        ])
                    })
                    .collect(),
            ),
            Term::tag(
                "nht",
                nht.into_iter()
                    .map(|(a, k)| Term::list(vec![Term::atom(if k == 0 { "r" } else { "u" }), Term::nat(a)]))
                    .collect(),
            ),
            w.snapshot(),
        ],
    )
}

// ---------------------------------------------------------------- wire cases
// One REAL eBGP session on a loopback TCP connection (harness/daemon/rig.rs): the routes reach the
// TableManager through the real run_select -> rx_msg -> insert_route / remove_route path with the
// session's own `Source`, and leave it through the real finish_session / apply_disconnect ->
// unregister_peer when the remote speaker closes the connection.  Nothing of C20's subject is called
// by the harness here; it only installs the observable kernel handle and reads requests and RIB.
fn bgp_frame(ty: u8, body: &[u8]) -> Vec<u8> {
    let mut f = vec![0xffu8; 16];
    f.extend_from_slice(&((19 + body.len()) as u16).to_be_bytes());
    f.push(ty);
    f.extend_from_slice(body);
    f
}

fn update_frame(withdrawn: &[u8], attrs: &[u8], nlri: &[u8]) -> Vec<u8> {
    let mut b: Vec<u8> = Vec::new();
    b.extend_from_slice(&(withdrawn.len() as u16).to_be_bytes());
    b.extend_from_slice(withdrawn);
    b.extend_from_slice(&(attrs.len() as u16).to_be_bytes());
    b.extend_from_slice(attrs);
    b.extend_from_slice(nlri);
    bgp_frame(2, &b)
}

enum WireOp {
    Ann(u64, u64),
    Wd(u64),
    Close,
}

const WIRE_REMOTE_ASN: u32 = 65002;

async fn wire_establish(r: &mut rig::Rig, rid: u32) -> bool {
    let role = crate::fsm::Role::Passive;
    if !r.connect(role).await {
        return false;
    }
    r.client_write(role, &rig::open_frame(WIRE_REMOTE_ASN, 90, rid)).await;
    r.pump().await;
    r.client_write(role, &rig::keepalive_frame()).await;
    r.pump().await;
    r.fsm_state(role) == crate::fsm::State::Established
}

async fn wire_async(rid: u32, ops: Vec<WireOp>) -> String {
    let role = crate::fsm::Role::Passive;
    let mut r = rig::Rig::new(rig::RigCfg { rid: 0x0101_0101, asn: 65001, hold: 90, expected: WIRE_REMOTE_ASN }).await;
    let (handle, rx) = kernel::verif::handle_with_receiver();
    r.tables.kernel_handle.store(Some(Arc::new(handle)));
    let mut w = World {
        tables: r.tables.clone(),
        rx,
        peers: vec![(rid, 0)],
        cur: Vec::new(),
        sent: Vec::new(),
        outstanding: Default::default(),
        underflow: false,
    };
    let mut steps = Vec::new();
    for op in ops {
        if !matches!(op, WireOp::Close) && r.conns[rig::idx(role)].is_none() {
            // the remote speaker connects (again): a new session with a new Source
            if !wire_establish(&mut r, rid).await {
                return "(wire-not-established)".into();
            }
            let _ = w.drain();
        }
        match op {
            WireOp::Ann(id, nh) => {
                let mut attrs: Vec<u8> = vec![0x40, 1, 1, 0]; // ORIGIN IGP
                attrs.extend_from_slice(&[0x40, 2, 6, 2, 1]); // AS_PATH: one AS_SEQUENCE of one 4-octet AS
                attrs.extend_from_slice(&WIRE_REMOTE_ASN.to_be_bytes());
                attrs.extend_from_slice(&[0x40, 3, 4, 192, 0, 2, nh as u8]); // NEXT_HOP
                let f = update_frame(&[], &attrs, &[16, 10, id as u8]);
                r.client_write(role, &f).await;
            }
            WireOp::Wd(id) => {
                let f = update_frame(&[16, 10, id as u8], &[], &[]);
                r.client_write(role, &f).await;
            }
            WireOp::Close => {
                r.client_close(role).await;
            }
        }
        r.pump().await;
        steps.push(step_term(&mut w));
    }
    steps.push(Term::tag("order", vec![Term::atom(if w.underflow { "underflow" } else { "ok" })]));
    Term::tag("trace", steps).to_string()
}

fn run_wire(t: &Term) -> Option<String> {
    let [rid, ops] = t.tagged("wire")? else { return None };
    let [rid] = rid.tagged("rid")? else { return None };
    let rid = rid.as_u64()?;
    if rid == 0 || rid > u32::MAX as u64 {
        return None;
    }
    let mut parsed = Vec::new();
    for o in ops.tagged("ops")? {
        if o.as_atom() == Some("close") {
            parsed.push(WireOp::Close);
            continue;
        }
        match o.head()? {
            "ann" => {
                let [id, nh] = o.tagged("ann")? else { return None };
                let (id, nh) = (id.as_u64()?, nh.as_u64()?);
                if id > 250 || nh >= 100 {
                    return None;
                }
                parsed.push(WireOp::Ann(id, nh));
            }
            "wd" => {
                let [id] = o.tagged("wd")? else { return None };
                let id = id.as_u64()?;
                if id > 250 {
                    return None;
                }
                parsed.push(WireOp::Wd(id));
            }
            _ => return None,
        }
    }
    Some(RT.with(|rt| {
        rt.block_on(async {
            match tokio::time::timeout(std::time::Duration::from_secs(30), wire_async(rid as u32, parsed)).await {
                Ok(s) => s,
                Err(_) => "(wire-timeout)".to_string(),
            }
        })
    }))
}

fn run_case(line: &str) -> Option<String> {
    let t = Term::parse(line)?;
    if let Some(reqs) = t.tagged("svc") {
        return run_svc(reqs);
    }
    if t.tagged("wire").is_some() {
        return run_wire(&t);
    }
    let [peers, vrfs, opts, ops] = t.tagged("case")? else { return None };
    let mut plist = Vec::new();
    for p in peers.tagged("peers")? {
        let [rid, role] = p.as_list()? else { return None };
        let (rid, role) = (rid.as_u64()?, role.as_u64()?);
        if rid > u32::MAX as u64 || role > 2 {
            return None;
        }
        plist.push((rid as u32, role));
    }
    if plist.is_empty() || plist.len() > 8 {
        return None;
    }
    let [defer, feed] = opts.tagged("opts")? else { return None };
    let defer = nats(defer.tagged("defer")?)?;
    let [feed] = feed.tagged("feed")? else { return None };
    let feed = feed.as_bool()?;
    let mut vlist = Vec::new();
    for v in vrfs.tagged("vrfs")? {
        let l = nats(v.as_list()?)?;
        let (tid, rts) = l.split_first()?;
        if *tid > 100000 || rts.iter().any(|r| *r > 1000) {
            return None;
        }
        vlist.push((*tid, rts.to_vec()));
    }
    if !vrfs_distinct(&vlist.iter().map(|v| v.0).collect::<Vec<_>>()) || defer.iter().any(|f| *f > 3) {
        return None;
    }
    let tables = Arc::new(TableManager::new(2));
    for (i, (tid, rts)) in vlist.iter().enumerate() {
        tables
            .add_vrf(
                format!("v{i}"),
                packet::rd::RouteDistinguisher::TwoOctetAs { admin: 65000, assigned: 1000 + i as u32 },
                rts.iter().map(|r| rt_bytes(*r)).collect(),
                vec![],
                *tid as u32,
            )
            .ok()?;
    }
    let (handle, rx) = kernel::verif::handle_with_receiver();
    tables.kernel_handle.store(Some(Arc::new(handle)));
    let fams: Vec<Family> = defer.iter().filter_map(|f| family_of(*f)).collect();
    tables.start_deferral_families(&fams);
    let cur = plist.iter().enumerate().map(|(k, p)| World::new_source(k, *p)).collect();
    let mut w = World { tables, rx, peers: plist, cur, sent: Vec::new(), outstanding: Default::default(), underflow: false };
    let mut steps = Vec::new();
    for o in ops.tagged("ops")? {
        w.op(o)?;
        steps.push(step_term(&mut w));
    }
    steps.push(Term::tag("order", vec![Term::atom(if w.underflow { "underflow" } else { "ok" })]));
    if feed {
        steps.push(RT.with(|rt| rt.block_on(feed_async(w.sent.clone()))));
    }
    Some(Term::tag("trace", steps).to_string())
}

// ---------------------------------------------------------------- service loop
// Drives the real `run_service_loop` (kernel/src/lib.rs).  Each request is followed by
// register+unregister of a sentinel address that is never otherwise used: the sentinel's
// registration always finds count 0 and therefore always emits a NexthopUpdate, which marks
// the end of the events caused by the request.  The netlink socket is used only by
// `lookup_route` (read-only); without one the observation says so and the check fails loudly.
thread_local! {
    static RT: tokio::runtime::Runtime =
        tokio::runtime::Builder::new_current_thread().enable_all().build().unwrap();
}

type EvRx = tokio::sync::mpsc::UnboundedReceiver<kernel::KernelEvent>;
type EvTx = tokio::sync::mpsc::UnboundedSender<kernel::KernelEvent>;

#[derive(Clone, Copy)]
enum SvcReq {
    Reg(u64),
    Unreg(u64),
    RouteEvent,
}

struct Svc {
    handle: kernel::KernelHandle,
    inject: EvTx,
    erx: EvRx,
    task: tokio::task::JoinHandle<()>,
}

impl Svc {
    fn start() -> Option<Svc> {
        let (etx, erx) = tokio::sync::mpsc::unbounded_channel();
        let (handle, inject, task) = kernel::verif::spawn_service_loop(etx).ok()?;
        Some(Svc { handle, inject, erx, task })
    }

    /// Send one request followed by the sentinel pair; returns whether the request itself
    /// caused a NexthopUpdate emission (None on timeout).
    async fn send(&mut self, r: SvcReq) -> Option<bool> {
        let sentinel = addr_of(99).unwrap();
        match r {
            SvcReq::Reg(a) => self.handle.register_nexthop(addr_of(a).unwrap()),
            SvcReq::Unreg(a) => self.handle.unregister_nexthop(addr_of(a).unwrap()),
            SvcReq::RouteEvent => {
                // a route of another protocol appeared: every watched address is looked up again
                let _ = self.inject.send(kernel::KernelEvent::Route(kernel::KernelRouteEvent::Add(
                    kernel::KernelRoute {
                        dst: IpAddr::V4(Ipv4Addr::new(198, 51, 100, 0)),
                        prefix_len: 24,
                        nexthop: None,
                        metric: 0,
                        protocol: kernel::Protocol::Static,
                    },
                )));
                // the event arrives on another channel than the requests: let the loop take it
                // before the sentinel is queued
                tokio::time::sleep(std::time::Duration::from_millis(15)).await;
            }
        }
        self.handle.register_nexthop(sentinel);
        self.handle.unregister_nexthop(sentinel);
        let mut emitted = false;
        loop {
            let ev = tokio::time::timeout(std::time::Duration::from_secs(5), self.erx.recv()).await.ok()??;
            if let kernel::KernelEvent::NexthopUpdate { addr: e, .. } = ev {
                if e == sentinel {
                    return Some(emitted);
                }
                emitted = true;
            }
        }
    }

    /// Measure the count c of an address:
    ///   register            -> emits iff c = 0; the count is now n = c + 1
    ///   [unregister,register] emits iff n <= 1; otherwise unregister once more (n -= 1) and repeat;
    ///   the number of such decrements until the emission is c.
    async fn measure(&mut self, a: u64) -> Option<u64> {
        let mut count = 0u64;
        if !self.send(SvcReq::Reg(a)).await? {
            loop {
                self.send(SvcReq::Unreg(a)).await?;
                if self.send(SvcReq::Reg(a)).await? {
                    break;
                }
                self.send(SvcReq::Unreg(a)).await?;
                count += 1;
                if count > 10_000 {
                    return None;
                }
            }
        }
        Some(count)
    }

    async fn finals(&mut self, mut addrs: Vec<u64>) -> Option<Vec<Term>> {
        addrs.sort();
        addrs.dedup();
        let mut out = Vec::new();
        for a in addrs {
            let c = self.measure(a).await?;
            out.push(Term::list(vec![Term::nat(a), Term::nat(c)]));
        }
        Some(out)
    }
}

fn run_svc(reqs: &[Term]) -> Option<String> {
    let mut parsed = Vec::new();
    for r in reqs {
        if r.as_atom() == Some("e") {
            parsed.push(SvcReq::RouteEvent);
            continue;
        }
        let [k, a] = r.as_list()? else { return None };
        let a = a.as_u64()?;
        if a >= 90 {
            return None;
        }
        match k.as_atom()? {
            "r" => parsed.push(SvcReq::Reg(a)),
            "u" => parsed.push(SvcReq::Unreg(a)),
            _ => return None,
        }
    }
    Some(RT.with(|rt| rt.block_on(svc_async(parsed))))
}

async fn svc_async(parsed: Vec<SvcReq>) -> String {
    let Some(mut svc) = Svc::start() else {
        return "(svc-no-netlink)".to_string();
    };
    let r = svc_body(&mut svc, parsed).await;
    svc.task.abort();
    r.unwrap_or_else(|| "(svc-timeout)".to_string())
}

async fn svc_body(svc: &mut Svc, parsed: Vec<SvcReq>) -> Option<String> {
    let mut emits = Vec::new();
    for r in parsed.iter().copied() {
        emits.push(Term::boolean(svc.send(r).await?));
    }
    let addrs = parsed
        .iter()
        .filter_map(|r| match r {
            SvcReq::Reg(a) | SvcReq::Unreg(a) => Some(*a),
            SvcReq::RouteEvent => None,
        })
        .collect();
    let finals = svc.finals(addrs).await?;
    Some(Term::tag("svc-trace", vec![Term::tag("emit", emits), Term::tag("final", finals)]).to_string())
}

/// The TableManager's own tracking requests, in the order sent, through the real service loop.
async fn feed_async(sent: Vec<(bool, u64)>) -> Term {
    let Some(mut svc) = Svc::start() else {
        return Term::atom("feed-no-netlink");
    };
    let mut ok = true;
    for (reg, a) in sent.iter().copied() {
        if a >= 200 {
            ok = false;
            break;
        }
        let addr = addr_of(a).unwrap();
        if reg {
            svc.handle.register_nexthop(addr);
        } else {
            svc.handle.unregister_nexthop(addr);
        }
    }
    // discard the emissions of the fed requests themselves
    let synced = svc.send(SvcReq::Unreg(98)).await.is_some();
    let r = if ok && synced { svc.finals(sent.iter().map(|s| s.1).collect()).await } else { None };
    svc.task.abort();
    match r {
        Some(f) => Term::tag("feed", f),
        None => Term::atom("feed-timeout"),
    }
}

#[test]
fn verif_main() {
    let (Ok(prop), Ok(inp), Ok(out)) =
        (std::env::var("VERIF_PROP"), std::env::var("VERIF_IN"), std::env::var("VERIF_OUT"))
    else {
        return; // not invoked by /verif/check
    };
    if prop != "C20" {
        return;
    }
    sexp::run_lines(&inp, &out, |l| {
        let l = l.to_string();
        std::panic::catch_unwind(move || run_case(&l).unwrap_or_else(|| "(bad-case)".into()))
            .unwrap_or_else(|_| "(panic)".into())
    });
}
