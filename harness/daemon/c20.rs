// harness module for C20 (not written yet)
