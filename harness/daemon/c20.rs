// Verification harness for C20 (kernel FIB requests and next-hop tracking stay in
// step with the RIB).  Compiled into rustybgpd's unit-test binary only with
// `--cfg osrg_rustybgp_verif --cfg verif_c20|verif_all`; child module of
// `crate::event::verif_event`.
//
// A case (lean/Rbgp/Fib/Codec.lean syntax) is a history of route insert / replace /
// remove / peer drop / GR stale + purge / soft reset IN / import-policy change /
// next-hop reachability report.  It is run against a real `TableManager` (2 shards)
// with a `KernelHandle` installed whose request stream is read back through the
// cfg-guarded hook `rustybgp_kernel::verif`.  One observation line per case:
//   (trace (step (fib (<table> <fam> <id> (<nh>...))...) (nht (r <a>)|(u <a>)...)
//                (rib (d <fam> <id> (p <src> <pid> <nh> <flt> <stale> <lp> <eb> <cl> <rid> (<rt>...))...)...))...)
// `(svc ...)` cases drive the real `run_service_loop` (refcount map `watched`) with
// register/unregister requests only and observe the NexthopUpdate emissions.
#![allow(dead_code)]

use std::net::{IpAddr, Ipv4Addr, Ipv6Addr};
use std::sync::Arc;

use rustybgp_kernel as kernel;
use rustybgp_packet::{self as packet, Family, bgp};
use rustybgp_table as table;

use crate::table_manager::TableManager;

#[path = "/verif/harness/common/sexp.rs"]
mod sexp;
use sexp::Term;

const SRC_LOCAL: u64 = 100;
const SRC_KERNEL: u64 = 101;
const FAMS: [Family; 3] = [Family::IPV4, Family::IPV6, Family::IPV4_VPN];

// ---------------------------------------------------------------- encodings
fn addr_of(a: u64) -> Option<IpAddr> {
    if a < 100 {
        Some(IpAddr::V4(Ipv4Addr::new(192, 0, 2, a as u8)))
    } else if a < 200 {
        Some(IpAddr::V6(Ipv6Addr::new(0x2001, 0xdb8, 0xffff, 0, 0, 0, 0, (a - 100) as u16)))
    } else {
        None
    }
}
fn addr_id(a: &IpAddr) -> u64 {
    match a {
        IpAddr::V4(v) => {
            let o = v.octets();
            if o[0] == 192 && o[1] == 0 && o[2] == 2 { o[3] as u64 } else { 999 }
        }
        IpAddr::V6(v) => {
            let s = v.segments();
            if s[0] == 0x2001 && s[1] == 0xdb8 && s[2] == 0xffff { 100 + s[7] as u64 } else { 999 }
        }
    }
}
fn nexthop_of(a: u64) -> Option<bgp::Nexthop> {
    Some(match addr_of(a)? {
        IpAddr::V4(v) => bgp::Nexthop::V4(v),
        IpAddr::V6(v) => bgp::Nexthop::V6(v),
    })
}
fn family_of(f: u64) -> Option<Family> {
    match f {
        0 => Some(Family::IPV4),
        1 => Some(Family::IPV6),
        2 => Some(Family::IPV4_VPN),
        _ => None,
    }
}
fn nlri_of(f: u64, id: u64) -> Option<packet::Nlri> {
    if id > 250 {
        return None;
    }
    let v4 = bgp::Ipv4Net { addr: Ipv4Addr::new(10, id as u8, 0, 0), mask: 16 };
    match f {
        0 => Some(packet::Nlri::V4(v4)),
        1 => Some(packet::Nlri::V6(bgp::Ipv6Net {
            addr: Ipv6Addr::new(0x2001, 0xdb8, id as u16, 0, 0, 0, 0, 0),
            mask: 48,
        })),
        2 => Some(packet::Nlri::VpnV4(packet::vpn::VpnV4Nlri {
            labels: packet::mpls::MplsLabelStack::new(vec![packet::mpls::MplsLabel::new(100 + id as u32)]),
            rd: packet::rd::RouteDistinguisher::TwoOctetAs { admin: 65000, assigned: id as u32 + 1 },
            prefix: v4,
        })),
        _ => None,
    }
}
fn nlri_id(n: &packet::Nlri) -> (u64, u64) {
    match n {
        packet::Nlri::V4(n) => (0, n.addr.octets()[1] as u64),
        packet::Nlri::V6(n) => (1, n.addr.segments()[2] as u64),
        packet::Nlri::VpnV4(n) => (2, n.prefix.addr.octets()[1] as u64),
        _ => (9, 0),
    }
}
fn rt_bytes(r: u64) -> [u8; 8] {
    [0x00, 0x02, 0xfd, 0xe8, 0, 0, (r >> 8) as u8, r as u8]
}
fn peer_addr(k: u64) -> IpAddr {
    IpAddr::V4(Ipv4Addr::new(10, 0, 0, (k + 1) as u8))
}

fn build_attrs(lp: u64, cl: u64, rts: &[u64]) -> Arc<Vec<packet::Attribute>> {
    let mut v = Vec::new();
    if lp != 100 {
        v.push(packet::Attribute::new_with_value(packet::Attribute::LOCAL_PREF, lp as u32).unwrap());
    }
    if cl > 0 {
        let mut b = Vec::new();
        for i in 0..cl {
            b.extend_from_slice(&[1, 1, 1, i as u8 + 1]);
        }
        v.push(packet::Attribute::new_with_bin(packet::Attribute::CLUSTER_LIST, b).unwrap());
    }
    if !rts.is_empty() {
        let mut b = Vec::new();
        for r in rts {
            b.extend_from_slice(&rt_bytes(*r));
        }
        v.push(packet::Attribute::new_with_bin(packet::Attribute::EXTENDED_COMMUNITY, b).unwrap());
    }
    Arc::new(v)
}

// ---------------------------------------------------------------- case
struct Rule {
    cond: Cond,
    act: Act,
}
enum Cond {
    Any,
    Peer(u64),
    Nh(u64),
}
enum Act {
    Set(u64),
    Rej,
    Acc,
}

fn nats(ts: &[Term]) -> Option<Vec<u64>> {
    ts.iter().map(|t| t.as_u64()).collect()
}

fn parse_rule(t: &Term) -> Option<Rule> {
    let [c, a] = t.tagged("rule")? else { return None };
    let cond = match c.head()? {
        "any" if c.as_atom().is_some() => Cond::Any,
        "peer" => match c.tagged("peer")? {
            [k] => Cond::Peer(k.as_u64().filter(|k| *k < 8)?),
            _ => return None,
        },
        "nh" => match c.tagged("nh")? {
            [a] => Cond::Nh(a.as_u64()?),
            _ => return None,
        },
        _ => return None,
    };
    let act = match a.head()? {
        "rej" if a.as_atom().is_some() => Act::Rej,
        "acc" if a.as_atom().is_some() => Act::Acc,
        "set" => match a.tagged("set")? {
            [x] => Act::Set(x.as_u64()?),
            _ => return None,
        },
        _ => return None,
    };
    Some(Rule { cond, act })
}

fn build_policy(rules: &[Rule]) -> Option<Arc<table::PolicyAssignment>> {
    let mut stmts = Vec::new();
    for (i, r) in rules.iter().enumerate() {
        let conditions = match r.cond {
            Cond::Any => vec![],
            Cond::Peer(k) => vec![table::Condition::Neighbor(
                "n".to_string(),
                table::MatchOption::Any,
                Arc::new(table::NeighborSet { sets: vec![packet::IpNet::new(peer_addr(k), 32)] }),
            )],
            Cond::Nh(a) => vec![table::Condition::Nexthop(vec![addr_of(a)?])],
        };
        let (disposition, nexthop) = match r.act {
            Act::Set(a) => (table::Disposition::Accept, Some(table::NexthopAction::Address(addr_of(a)?))),
            Act::Rej => (table::Disposition::Reject, None),
            Act::Acc => (table::Disposition::Accept, None),
        };
        stmts.push(Arc::new(table::Statement {
            name: Arc::from(format!("s{i}")),
            conditions,
            disposition: Some(disposition),
            actions: table::Actions { nexthop, ..Default::default() },
        }));
    }
    Some(Arc::new(table::PolicyAssignment {
        name: Arc::from("verif"),
        disposition: table::Disposition::Accept,
        policies: vec![Arc::new(table::Policy { name: Arc::from("p"), statements: stmts })],
        needs_rpki: false,
    }))
}

struct World {
    tables: TableManager,
    rx: kernel::verif::RequestReceiver,
    rids: Vec<u32>,
    cur: Vec<Arc<table::Source>>,
}

impl World {
    fn new_source(k: usize, rid: u32) -> Arc<table::Source> {
        Arc::new(table::Source::new(
            peer_addr(k as u64),
            IpAddr::V4(Ipv4Addr::new(10, 0, 0, 254)),
            65010 + k as u32,
            65001,
            Ipv4Addr::from(rid),
            table::PeerRole::Ebgp,
        ))
    }

    fn drain(&mut self) -> (Vec<(u64, u64, u64, Vec<u64>)>, Vec<(u64, u64)>) {
        let mut fib = Vec::new();
        let mut nht = Vec::new();
        while let Some(r) = self.rx.try_recv() {
            match r {
                kernel::verif::RequestMirror::Apply(c) => {
                    let (f, id) = nlri_id(&c.net);
                    fib.push((
                        c.table_id.unwrap_or(0) as u64,
                        f,
                        id,
                        c.nexthops.iter().map(|n| addr_id(&n.addr())).collect(),
                    ));
                }
                kernel::verif::RequestMirror::RegisterNexthop(a) => nht.push((addr_id(&a), 0)),
                kernel::verif::RequestMirror::UnregisterNexthop(a) => nht.push((addr_id(&a), 1)),
                kernel::verif::RequestMirror::CreateVrf { .. } | kernel::verif::RequestMirror::DeleteVrf { .. } => {}
            }
        }
        // canonical order (hash-map iteration order of shards/destinations/VRFs is not modelled):
        // FIB requests stably by (table, prefix); tracking requests: registers (by address) before
        // unregisters (by address)
        fib.sort_by(|a, b| (a.0, a.1, a.2).cmp(&(b.0, b.1, b.2)));
        nht.sort_by(|a, b| (a.1, a.0).cmp(&(b.1, b.0)));
        (fib, nht)
    }

    fn snapshot(&self) -> Term {
        let mut dests: Vec<((u64, u64), Term)> = Vec::new();
        for fam in FAMS {
            for shard in &self.tables.shards {
                let t = shard.lock().unwrap();
                for d in t.rtable.destinations(table::TableQuery::Global, fam, vec![], true) {
                    let (f, id) = nlri_id(&d.net);
                    let mut ps = vec![Term::atom("d"), Term::nat(f), Term::nat(id)];
                    for p in &d.paths {
                        let src = if p.source.is_local() {
                            SRC_LOCAL
                        } else if p.source.is_kernel() {
                            SRC_KERNEL
                        } else {
                            match p.source.remote_addr {
                                IpAddr::V4(v) => v.octets()[3] as u64 - 1,
                                _ => 999,
                            }
                        };
                        let nh = t
                            .rtable
                            .lookup_nexthop(p.source.remote_addr, fam, &d.net, p.remote_path_id)
                            .map(|n| addr_id(&n.addr()))
                            .unwrap_or(998);
                        let lp = p
                            .attr
                            .iter()
                            .find(|a| a.code() == packet::Attribute::LOCAL_PREF)
                            .and_then(|a| a.value())
                            .unwrap_or(100);
                        let cl = p
                            .attr
                            .iter()
                            .find(|a| a.code() == packet::Attribute::CLUSTER_LIST)
                            .and_then(|a| a.binary())
                            .map(|b| b.len() / 4)
                            .unwrap_or(0);
                        let mut rts = Vec::new();
                        for a in p.attr.iter() {
                            if a.code() == packet::Attribute::EXTENDED_COMMUNITY
                                && let Some(b) = a.binary()
                            {
                                for c in b.chunks_exact(8) {
                                    rts.push(Term::nat(((c[6] as u32) << 8) | c[7] as u32));
                                }
                            }
                        }
                        let eb = matches!(p.source.role, table::PeerRole::Ebgp | table::PeerRole::RsClient);
                        ps.push(Term::tag(
                            "p",
                            vec![
                                Term::nat(src),
                                Term::nat(p.remote_path_id),
                                Term::nat(nh),
                                Term::boolean(p.filtered),
                                Term::boolean(p.stale),
                                Term::nat(lp),
                                Term::boolean(eb),
                                Term::nat(cl as u64),
                                Term::nat(p.source.router_id),
                                Term::list(rts),
                            ],
                        ));
                    }
                    dests.push(((f, id), Term::list(ps)));
                }
            }
        }
        dests.sort_by(|a, b| a.0.cmp(&b.0));
        Term::tag("rib", dests.into_iter().map(|d| d.1).collect())
    }

    fn source_for(&self, src: u64) -> Option<Arc<table::Source>> {
        if src == SRC_LOCAL {
            Some(table::Source::local())
        } else if src == SRC_KERNEL {
            Some(table::Source::kernel())
        } else {
            self.cur.get(src as usize).cloned()
        }
    }

    /// Returns None for an ill-formed op.
    fn op(&mut self, t: &Term) -> Option<()> {
        match t.head()? {
            "ins" => {
                let [src, f, id, pid, nh, lp, cl, rts] = t.tagged("ins")? else { return None };
                let (src, f, id, pid, nh, lp, cl) =
                    (src.as_u64()?, f.as_u64()?, id.as_u64()?, pid.as_u64()?, nh.as_u64()?, lp.as_u64()?, cl.as_u64()?);
                let rts = nats(rts.as_list()?)?;
                if lp > 1000 || cl > 1 || pid > 1000 || rts.iter().any(|r| *r > 1000) {
                    return None;
                }
                let source = self.source_for(src)?;
                let fam = family_of(f)?;
                let net = packet::PathNlri { nlri: nlri_of(f, id)?, path_id: pid as u32 };
                self.tables.insert_route(source, fam, net, Some(nexthop_of(nh)?), build_attrs(lp, cl, &rts), None, 0);
            }
            "rm" => {
                let [src, f, id, pid] = t.tagged("rm")? else { return None };
                let (src, f, id, pid) = (src.as_u64()?, f.as_u64()?, id.as_u64()?, pid.as_u64()?);
                if pid > 1000 {
                    return None;
                }
                let source = self.source_for(src)?;
                let fam = family_of(f)?;
                let net = packet::PathNlri { nlri: nlri_of(f, id)?, path_id: pid as u32 };
                self.tables.remove_route(source, fam, net, None, 0);
            }
            "down" => {
                let [k] = t.tagged("down")? else { return None };
                let k = k.as_u64()? as usize;
                if k >= self.cur.len() {
                    return None;
                }
                self.tables.unregister_peer(peer_addr(k as u64), &FAMS, &[]);
                self.cur[k] = World::new_source(k, self.rids[k]);
            }
            "stale" => {
                let [k] = t.tagged("stale")? else { return None };
                let k = k.as_u64()? as usize;
                if k >= self.cur.len() {
                    return None;
                }
                self.tables.unregister_peer(peer_addr(k as u64), &[], &FAMS);
                self.cur[k] = World::new_source(k, self.rids[k]);
            }
            "purge" => {
                let [k] = t.tagged("purge")? else { return None };
                let k = k.as_u64()? as usize;
                if k >= self.cur.len() {
                    return None;
                }
                self.tables.drop_stale_families(peer_addr(k as u64), &FAMS);
            }
            "soft" => {
                let [k] = t.tagged("soft")? else { return None };
                let k = k.as_u64()? as usize;
                if k >= self.cur.len() {
                    return None;
                }
                self.tables.soft_reset_in(peer_addr(k as u64));
            }
            "pol" => {
                let rules: Option<Vec<Rule>> = t.tagged("pol")?.iter().map(parse_rule).collect();
                let rules = rules?;
                if rules.is_empty() {
                    self.tables.import_policy.store(None);
                } else {
                    self.tables.import_policy.store(Some(build_policy(&rules)?));
                }
            }
            "nh" => {
                let [a, r] = t.tagged("nh")? else { return None };
                self.tables.update_nexthop_validity(addr_of(a.as_u64()?)?, r.as_bool()?);
            }
            _ => return None,
        }
        Some(())
    }
}

fn run_case(line: &str) -> Option<String> {
    let t = Term::parse(line)?;
    if let Some(reqs) = t.tagged("svc") {
        return run_svc(reqs);
    }
    let [peers, vrfs, ops] = t.tagged("case")? else { return None };
    let rids = nats(peers.tagged("peers")?)?;
    if rids.is_empty() || rids.len() > 8 || rids.iter().any(|r| *r > u32::MAX as u64) {
        return None;
    }
    let tables = TableManager::new(2);
    for (i, v) in vrfs.tagged("vrfs")?.iter().enumerate() {
        let l = nats(v.as_list()?)?;
        let (tid, rts) = l.split_first()?;
        if *tid > 100000 || rts.iter().any(|r| *r > 1000) {
            return None;
        }
        tables
            .add_vrf(
                format!("v{i}"),
                packet::rd::RouteDistinguisher::TwoOctetAs { admin: 65000, assigned: 1000 + i as u32 },
                rts.iter().map(|r| rt_bytes(*r)).collect(),
                vec![],
                *tid as u32,
            )
            .ok()?;
    }
    let (handle, rx) = kernel::verif::handle_with_receiver();
    tables.kernel_handle.store(Some(Arc::new(handle)));
    let cur = rids.iter().enumerate().map(|(k, r)| World::new_source(k, *r as u32)).collect();
    let mut w = World { tables, rx, rids: rids.iter().map(|r| *r as u32).collect(), cur };
    let mut steps = Vec::new();
    for o in ops.tagged("ops")? {
        w.op(o)?;
        let (fib, nht) = w.drain();
        steps.push(Term::tag(
            "step",
            vec![
                Term::tag(
                    "fib",
                    fib.into_iter()
                        .map(|(t, f, id, nhs)| {
                            Term::list(vec![
                                Term::nat(t),
                                Term::nat(f),
                                Term::nat(id),
                                Term::list(nhs.into_iter().map(Term::nat).collect()),
                            ])
                        })
                        .collect(),
                ),
                Term::tag(
                    "nht",
                    nht.into_iter()
                        .map(|(a, k)| Term::list(vec![Term::atom(if k == 0 { "r" } else { "u" }), Term::nat(a)]))
                        .collect(),
                ),
                w.snapshot(),
            ],
        ));
    }
    Some(Term::tag("trace", steps).to_string())
}

// ---------------------------------------------------------------- service loop
// Drives the real `run_service_loop` (kernel/src/lib.rs) with register/unregister requests.
// Each request is followed by register+unregister of a sentinel address that is never
// otherwise used: the sentinel's registration always finds count 0 and therefore always
// emits a NexthopUpdate, which marks the end of the events caused by the request.
thread_local! {
    static RT: tokio::runtime::Runtime =
        tokio::runtime::Builder::new_current_thread().enable_all().build().unwrap();
}

fn run_svc(reqs: &[Term]) -> Option<String> {
    let mut parsed = Vec::new();
    for r in reqs {
        let [k, a] = r.as_list()? else { return None };
        let a = a.as_u64()?;
        if a >= 90 {
            return None;
        }
        match k.as_atom()? {
            "r" => parsed.push((true, a)),
            "u" => parsed.push((false, a)),
            _ => return None,
        }
    }
    Some(RT.with(|rt| rt.block_on(svc_async(parsed))))
}

type EvRx = tokio::sync::mpsc::UnboundedReceiver<kernel::KernelEvent>;

/// Send one request followed by the sentinel pair; returns whether the request itself
/// caused a NexthopUpdate emission (None on timeout).
async fn svc_send(handle: &kernel::KernelHandle, erx: &mut EvRx, reg: bool, a: u64) -> Option<bool> {
    let addr = addr_of(a).unwrap();
    let sentinel = addr_of(99).unwrap();
    if reg {
        handle.register_nexthop(addr);
    } else {
        handle.unregister_nexthop(addr);
    }
    handle.register_nexthop(sentinel);
    handle.unregister_nexthop(sentinel);
    let mut emitted = false;
    loop {
        let ev = tokio::time::timeout(std::time::Duration::from_secs(5), erx.recv()).await.ok()??;
        if let kernel::KernelEvent::NexthopUpdate { addr: e, .. } = ev {
            if e == sentinel {
                return Some(emitted);
            }
            emitted = true;
        }
    }
}

async fn svc_async(parsed: Vec<(bool, u64)>) -> String {
    let (etx, mut erx) = tokio::sync::mpsc::unbounded_channel();
    let (handle, task) = match kernel::verif::spawn_service_loop(etx) {
        Ok(x) => x,
        Err(_) => return "(svc-no-netlink)".to_string(),
    };
    let r = svc_body(&handle, &mut erx, parsed).await;
    task.abort();
    r.unwrap_or_else(|| "(svc-timeout)".to_string())
}

async fn svc_body(handle: &kernel::KernelHandle, erx: &mut EvRx, parsed: Vec<(bool, u64)>) -> Option<String> {
    let mut emits = Vec::new();
    for (reg, a) in parsed.iter().copied() {
        emits.push(Term::boolean(svc_send(handle, erx, reg, a).await?));
    }
    // measure the final count c of every address that occurred:
    //   register            -> emits iff c = 0; the count is now n = c + 1
    //   [unregister,register] emits iff n <= 1; otherwise unregister once more (n -= 1) and repeat;
    //   the number of such decrements until the emission is c.
    let mut addrs: Vec<u64> = parsed.iter().map(|p| p.1).collect();
    addrs.sort();
    addrs.dedup();
    let mut finals = Vec::new();
    for a in addrs {
        let mut count = 0u64;
        if !svc_send(handle, erx, true, a).await? {
            loop {
                svc_send(handle, erx, false, a).await?;
                if svc_send(handle, erx, true, a).await? {
                    break;
                }
                svc_send(handle, erx, false, a).await?;
                count += 1;
                if count > 10_000 {
                    return None;
                }
            }
        }
        finals.push(Term::list(vec![Term::nat(a), Term::nat(count)]));
    }
    Some(Term::tag("svc-trace", vec![Term::tag("emit", emits), Term::tag("final", finals)]).to_string())
}

#[test]
fn verif_main() {
    let (Ok(prop), Ok(inp), Ok(out)) =
        (std::env::var("VERIF_PROP"), std::env::var("VERIF_IN"), std::env::var("VERIF_OUT"))
    else {
        return; // not invoked by /verif/check
    };
    if prop != "C20" {
        return;
    }
    sexp::run_lines(&inp, &out, |l| {
        let l = l.to_string();
        std::panic::catch_unwind(move || run_case(&l).unwrap_or_else(|| "(bad-case)".into()))
            .unwrap_or_else(|_| "(panic)".into())
    });
}
