// C18: child module of crate::bmp (hook at the end of daemon/src/bmp.rs), so that the harness in
// harness/daemon/c18.rs can run the REAL private consumer functions `apply_snapshot`,
// `track_peer_up`, `track_peer_down` on the event stream it received from `TableManager`.
#![allow(dead_code)]
use super::*;

pub(crate) struct Consumer {
    pre: SnapshotMap,
    post: SnapshotMap,
    sent: FnvHashSet<IpAddr>,
}

pub(crate) type Row = (IpAddr, packet::PathNlri, Arc<Vec<packet::Attribute>>);

impl Consumer {
    pub(crate) fn new() -> Self {
        Consumer {
            pre: FnvHashMap::default(),
            post: FnvHashMap::default(),
            sent: FnvHashSet::default(),
        }
    }
    /// bmp::serve, snapshot phase: `BgpEvent::AdjRibIn(change) => apply_snapshot(&mut snapshot, change)`
    pub(crate) fn snap_pre(&mut self, c: AdjRibInChange) {
        apply_snapshot(&mut self.pre, c)
    }
    /// bmp::serve, snapshot phase: `BgpEvent::AdjRibInPost(change) => apply_snapshot(&mut snapshot_post, change)`
    pub(crate) fn snap_post(&mut self, c: AdjRibInChange) {
        apply_snapshot(&mut self.post, c)
    }
    /// send_peer_up's bookkeeping
    pub(crate) fn peer_up(&mut self, a: IpAddr) {
        track_peer_up(&mut self.sent, a)
    }
    /// send_peer_down's guard: true = the PeerDown is forwarded
    pub(crate) fn peer_down(&mut self, a: IpAddr) -> bool {
        track_peer_down(&mut self.sent, a)
    }
    fn dump(m: &SnapshotMap) -> Vec<Row> {
        let mut v = Vec::new();
        for (addr, pm) in m {
            for ((_f, nlri), ch) in pm {
                if let Some(a) = ch.attrs.as_ref() {
                    v.push((*addr, nlri.clone(), a.clone()));
                }
            }
        }
        v
    }
    pub(crate) fn dump_pre(&self) -> Vec<Row> {
        Self::dump(&self.pre)
    }
    pub(crate) fn dump_post(&self) -> Vec<Row> {
        Self::dump(&self.post)
    }
}
