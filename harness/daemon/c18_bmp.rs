// C18: child module of crate::bmp (hook at the end of daemon/src/bmp.rs), so that the harness in
// harness/daemon/c18.rs can run the REAL private consumer functions `apply_snapshot`,
// `send_peer_up`, `send_peer_down` (and through them `track_peer_up`, `track_peer_down`) on the
// event stream it received from `TableManager`.  `Wire` is a real loopback BMP connection: the
// client end is the `Framed<TcpStream, BmpCodec>` the real forwarding functions write to, the
// server end is read back by the harness and decoded (message type + per-peer header address),
// so the observation is what was actually put on the wire.
#![allow(dead_code)]
use super::*;

pub(crate) struct Consumer {
    pre: SnapshotMap,
    post: SnapshotMap,
    sent: FnvHashSet<IpAddr>,
}

pub(crate) type Row = (IpAddr, Family, packet::PathNlri, Arc<Vec<packet::Attribute>>, Option<bgp::Nexthop>);

impl Consumer {
    pub(crate) fn new() -> Self {
        Consumer {
            pre: FnvHashMap::default(),
            post: FnvHashMap::default(),
            sent: FnvHashSet::default(),
        }
    }
    /// bmp::serve, snapshot phase: `BgpEvent::AdjRibIn(change) => apply_snapshot(&mut snapshot, change)`
    pub(crate) fn snap_pre(&mut self, c: AdjRibInChange) {
        apply_snapshot(&mut self.pre, c)
    }
    /// bmp::serve, snapshot phase: `BgpEvent::AdjRibInPost(change) => apply_snapshot(&mut snapshot_post, change)`
    pub(crate) fn snap_post(&mut self, c: AdjRibInChange) {
        apply_snapshot(&mut self.post, c)
    }
    /// bmp::serve, snapshot phase, PeerDown arm (transcribed): the peer's buffered routes are dropped
    pub(crate) fn drop_peer(&mut self, a: IpAddr) {
        self.pre.remove(&a);
        self.post.remove(&a);
    }
    /// send_peer_up's bookkeeping
    pub(crate) fn peer_up(&mut self, a: IpAddr) {
        track_peer_up(&mut self.sent, a)
    }
    /// send_peer_down's guard: true = the PeerDown is forwarded
    pub(crate) fn peer_down(&mut self, a: IpAddr) -> bool {
        track_peer_down(&mut self.sent, a)
    }
    fn dump(m: &SnapshotMap) -> Vec<Row> {
        let mut v = Vec::new();
        for (addr, pm) in m {
            for ((f, nlri), ch) in pm {
                if let Some(a) = ch.attrs.as_ref() {
                    v.push((*addr, *f, nlri.clone(), a.clone(), ch.nexthop));
                }
            }
        }
        v
    }
    pub(crate) fn dump_pre(&self) -> Vec<Row> {
        Self::dump(&self.pre)
    }
    pub(crate) fn dump_post(&self) -> Vec<Row> {
        Self::dump(&self.post)
    }
}

/// A loopback BMP session: the live PeerUp / PeerDown arms of `BmpClient::serve`.
pub(crate) struct Wire {
    rt: &'static tokio::runtime::Runtime,
    lines: Framed<TcpStream, bmp::BmpCodec>,
    server: std::net::TcpStream,
    sent: FnvHashSet<IpAddr>,
}

fn runtime() -> &'static tokio::runtime::Runtime {
    static RT: std::sync::OnceLock<tokio::runtime::Runtime> = std::sync::OnceLock::new();
    RT.get_or_init(|| {
        tokio::runtime::Builder::new_current_thread()
            .enable_all()
            .build()
            .expect("tokio runtime")
    })
}

/// bind(127.0.0.1:0) with real-time retries: when other checks running on the machine have
/// momentarily used up the ephemeral ports (TIME_WAIT), wait instead of failing the case.
fn bind_loopback_retry() -> std::net::TcpListener {
    let t0 = std::time::Instant::now();
    loop {
        match std::net::TcpListener::bind("127.0.0.1:0") {
            Ok(l) => return l,
            Err(e) if t0.elapsed() < std::time::Duration::from_secs(120) => {
                let _ = e;
                std::thread::sleep(std::time::Duration::from_millis(250));
            }
            Err(e) => panic!("bind loopback: {e}"),
        }
    }
}

impl Wire {
    pub(crate) fn new() -> Self {
        let rt = runtime();
        let listener = bind_loopback_retry();
        let addr = listener.local_addr().unwrap();
        let stream = rt.block_on(TcpStream::connect(addr)).expect("connect loopback");
        let (server, _) = listener.accept().expect("accept loopback");
        Wire {
            rt,
            lines: Framed::new(stream, bmp::BmpCodec::new()),
            server,
            sent: FnvHashSet::default(),
        }
    }

    /// `Some(BgpEvent::PeerUp(data))` arm of the live loop of `BmpClient::serve` (transcribed
    /// message construction, REAL `send_peer_up`).
    pub(crate) fn peer_up(&mut self, data: crate::table_manager::PeerUpData) -> bool {
        let remote_id = Ipv4Addr::from(data.peer_id);
        let m = bmp::Message::PeerUp {
            header: bmp::PerPeerHeader::new(0, data.peer_asn, remote_id, 0, data.peer_addr, data.uptime as u32),
            local_addr: data.local_addr,
            local_port: data.local_port,
            remote_port: data.remote_port,
            remote_open: data.received_open,
            local_open: data.sent_open,
        };
        self.rt.block_on(send_peer_up(&mut self.sent, &mut self.lines, data.peer_addr, &m))
    }

    /// `Some(BgpEvent::PeerDown(data))` arm (transcribed message construction, REAL `send_peer_down`).
    pub(crate) fn peer_down(&mut self, data: crate::table_manager::PeerDownData) -> bool {
        let m = bmp::Message::PeerDown {
            header: bmp::PerPeerHeader::new(
                0,
                data.peer_asn,
                Ipv4Addr::from(data.peer_id),
                0,
                data.peer_addr,
                data.uptime as u32,
            ),
            reason: data.reason,
        };
        self.rt.block_on(send_peer_down(&mut self.sent, &mut self.lines, data.peer_addr, &m))
    }

    /// Close the client end and decode what the server end received:
    /// (BMP message type, per-peer header address) per message, in order.  `None` = not BMP framing.
    pub(crate) fn finish(self) -> Option<Vec<(u8, IpAddr)>> {
        use std::io::Read;
        let Wire { rt, lines, mut server, .. } = self;
        {
            // dropping a tokio TcpStream needs the runtime context of its reactor
            let _g = rt.enter();
            drop(lines);
        }
        let mut buf = Vec::new();
        server.read_to_end(&mut buf).ok()?;
        let mut out = Vec::new();
        let mut i = 0usize;
        while i < buf.len() {
            if buf.len() - i < 6 || buf[i] != 3 {
                return None;
            }
            let len = u32::from_be_bytes([buf[i + 1], buf[i + 2], buf[i + 3], buf[i + 4]]) as usize;
            let ty = buf[i + 5];
            if len < 6 + 42 || i + len > buf.len() {
                return None;
            }
            // per-peer header: type(1) flags(1) distinguisher(8) address(16) ...
            let flags = buf[i + 7];
            let a = &buf[i + 16..i + 32];
            let addr = if flags & bmp::Message::PEER_FLAG_IPV6 != 0 {
                let mut o = [0u8; 16];
                o.copy_from_slice(a);
                IpAddr::V6(std::net::Ipv6Addr::from(o))
            } else {
                IpAddr::V4(Ipv4Addr::new(a[12], a[13], a[14], a[15]))
            };
            out.push((ty, addr));
            i += len;
        }
        Some(out)
    }
}

// ---------------------------------------------------------------------------------------------
// The REAL `BmpClient::serve` on a loopback connection.
//
// `Serve::start` runs on the subscriber's OS thread (whose scheduling hook is installed): serve
// sends Initiation, calls `tables.subscribe(true)` (the deterministic scheduler interleaves the
// other threads at the points inside it), drains the channel up to EndOfSnapshot, reads the
// established peers from the real `Global`, sends the PeerUp burst, flushes the snapshot maps and
// enters its live loop.  The future is polled until it is quiescent (pending with nothing new on
// the wire).  `drive` polls it again later (live events), `finish` cancels it, lets it unsubscribe
// and returns everything that was written on the connection, decoded.
pub(crate) struct Serve {
    rt: tokio::runtime::Runtime,
    fut: Option<std::pin::Pin<Box<dyn std::future::Future<Output = ()> + Send>>>,
    server: std::net::TcpStream,
    cancel: CancellationToken,
    buf: Vec<u8>,
}

/// One decoded BMP message: (type, peer address, per-peer flags, embedded BGP messages).
pub(crate) struct WireMsg {
    pub(crate) ty: u8,
    pub(crate) peer_type: u8,
    pub(crate) flags: u8,
    pub(crate) addr: Option<IpAddr>,
    pub(crate) updates: Vec<bgp::Message>,
    pub(crate) bad: bool,
}

impl Serve {
    pub(crate) fn start(tables: TableHandle, global: GlobalHandle) -> Serve {
        let rt = tokio::runtime::Builder::new_current_thread()
            .enable_all()
            .build()
            .expect("tokio runtime");
        let listener = bind_loopback_retry();
        let addr = listener.local_addr().unwrap();
        let stream = rt.block_on(TcpStream::connect(addr)).expect("connect loopback");
        let (server, _) = listener.accept().expect("accept loopback");
        server.set_nonblocking(true).unwrap();
        let cancel = CancellationToken::new();
        let fut = Box::pin(BmpClient::serve(stream, cancel.clone(), global, tables, BmpPolicy::Both));
        let mut s = Serve { rt, fut: Some(fut), server, cancel, buf: Vec::new() };
        s.drive();
        s
    }

    fn pump(server: &mut std::net::TcpStream, buf: &mut Vec<u8>) -> bool {
        use std::io::Read;
        let mut got = false;
        let mut tmp = [0u8; 65536];
        loop {
            match server.read(&mut tmp) {
                Ok(0) => return got,
                Ok(n) => {
                    buf.extend_from_slice(&tmp[..n]);
                    got = true;
                }
                Err(_) => return got,
            }
        }
    }

    /// Poll serve until it is pending and nothing new arrives on the wire (or it has finished).
    pub(crate) fn drive(&mut self) {
        let Serve { rt, fut, server, buf, .. } = self;
        let Some(f) = fut.as_mut() else { return };
        let done = rt.block_on(async {
            let mut idle = 0;
            loop {
                if let std::task::Poll::Ready(()) = futures::poll!(f.as_mut()) {
                    return true;
                }
                tokio::task::yield_now().await;
                if Self::pump(server, buf) {
                    idle = 0;
                } else {
                    idle += 1;
                    if idle >= 4 {
                        return false;
                    }
                }
            }
        });
        if done {
            *fut = None;
        }
    }

    pub(crate) fn finish(mut self, is_ap: &dyn Fn(&IpAddr) -> bool) -> Vec<WireMsg> {
        self.drive();
        self.cancel.cancel();
        self.drive();
        {
            let _g = self.rt.enter();
            self.fut = None;
        }
        self.server.set_nonblocking(false).unwrap();
        Self::pump(&mut self.server, &mut self.buf);
        decode_wire(&self.buf, is_ap)
    }
}

fn decode_wire(buf: &[u8], is_ap: &dyn Fn(&IpAddr) -> bool) -> Vec<WireMsg> {
    let mut out = Vec::new();
    let mut i = 0usize;
    let caps = vec![
        packet::Capability::MultiProtocol(Family::IPV4),
        packet::Capability::MultiProtocol(Family::IPV6),
        packet::Capability::FourOctetAsNumber(65001),
    ];
    while i < buf.len() {
        let bad = |out: &mut Vec<WireMsg>| {
            out.push(WireMsg { ty: 255, peer_type: 0, flags: 0, addr: None, updates: vec![], bad: true })
        };
        if buf.len() - i < 6 || buf[i] != 3 {
            bad(&mut out);
            return out;
        }
        let len = u32::from_be_bytes([buf[i + 1], buf[i + 2], buf[i + 3], buf[i + 4]]) as usize;
        let ty = buf[i + 5];
        if len < 6 || i + len > buf.len() {
            bad(&mut out);
            return out;
        }
        let body = &buf[i + 6..i + len];
        // Initiation (4) / Termination (5) have no per-peer header
        if ty == 4 || ty == 5 {
            out.push(WireMsg { ty, peer_type: 0, flags: 0, addr: None, updates: vec![], bad: false });
            i += len;
            continue;
        }
        if body.len() < 42 {
            bad(&mut out);
            return out;
        }
        let (peer_type, flags) = (body[0], body[1]);
        let a = &body[10..26];
        let addr = if flags & bmp::Message::PEER_FLAG_IPV6 != 0 {
            let mut o = [0u8; 16];
            o.copy_from_slice(a);
            IpAddr::V6(std::net::Ipv6Addr::from(o))
        } else {
            IpAddr::V4(Ipv4Addr::new(a[12], a[13], a[14], a[15]))
        };
        let mut updates = Vec::new();
        let mut is_bad = false;
        if ty == 0 {
            // Route Monitoring: the rest is one BGP UPDATE, parsed by the repo's own decoder.  Whether
            // the NLRI carry path ids is not on the wire (the station knows it from the PeerUp's OPENs):
            // for a peer that negotiates ADD-PATH try with path ids first.
            let try_parse = |ap: bool| -> Option<Vec<bgp::Message>> {
                let mut codec = bgp::PeerCodec::negotiate(&caps, &caps);
                for f in [Family::IPV4, Family::IPV6] {
                    codec.set_family(f, bgp::FamilyState { addpath_rx: ap, addpath_tx: ap, ..Default::default() });
                }
                let mut b = bytes::BytesMut::from(&body[42..]);
                let v: Vec<bgp::Message> = match codec.try_parse(&mut b) {
                    Ok(Some(p)) => bgp::validate_message(p, false).ok()?.collect(),
                    _ => return None,
                };
                if b.is_empty() { Some(v) } else { None }
            };
            let parsed = if is_ap(&addr) { try_parse(true).or_else(|| try_parse(false)) } else { try_parse(false) };
            match parsed {
                Some(v) => updates = v,
                None => is_bad = true,
            }
        }
        out.push(WireMsg { ty, peer_type, flags, addr: Some(addr), updates, bad: is_bad });
        i += len;
    }
    out
}
